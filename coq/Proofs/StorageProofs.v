(* C08 -- lemmas and proofs about Model/StorageModel.v *)
From Coq Require Import ZArith NArith List Bool Lia ZifyBool.
From HV Require Import Base.Keccak Spec.StorageSpec Gen.GenStoreConsts Gen.GenHashes Gen.GenStoreAxioms Model.StorageModel.
Import ListNotations.
Open Scope Z_scope.
Ltac Zify.zify_post_hook ::= Z.to_euclidean_division_equations.

(* ================================================================== tables *)
(* the real hash as a function on (bit size, big-endian value) *)
Definition Hkeccak (bits x : Z) : Z :=
  Z.of_N (keccak256_num (rev (bytes_of_lane (Z.to_nat (bits / 8)) (Z.to_N x)))).

(* recomputed hashes, compared as lists (the comparison is one vm_compute per table) *)
Lemma table256_ok :
  map (fun p : N * N => keccak256_num (word_bytes (snd p))) keccak256_256 = map (fun p => fst p) keccak256_256.
Proof. vm_compute. reflexivity. Qed.
Lemma table512_ok :
  map (fun p : N * (N * N) => keccak256_num (word_bytes (fst (snd p)) ++ word_bytes (snd (snd p)))) keccak256_512
  = map (fun p => fst p) keccak256_512.
Proof. vm_compute. reflexivity. Qed.

Lemma map_eq_In : forall (A B : Type) (f g : A -> B) (l : list A) (x : A),
  map f l = map g l -> In x l -> f x = g x.
Proof.
  intros A B f g l x. induction l as [|a l IH]; intros Hm Hin; [destruct Hin|].
  cbn [map] in Hm. inversion Hm. destruct Hin as [->|Hin]; auto.
Qed.

Lemma tables_keccak_256 : forall p, In p keccak256_256 -> keccak256_num (word_bytes (snd p)) = fst p.
Proof. intros p Hin. exact (map_eq_In _ _ _ _ _ p table256_ok Hin). Qed.
Lemma tables_keccak_512 : forall p, In p keccak256_512 ->
  keccak256_num (word_bytes (fst (snd p)) ++ word_bytes (snd (snd p))) = fst p.
Proof. intros p Hin. exact (map_eq_In _ _ _ _ _ p table512_ok Hin). Qed.

(* the entries the model's precomputed registry is built from: hash = Keccak-256 of the
   preimage bytes, and inside the range sha3_data accepts *)
Lemma pre_entries_hash :
  map (fun en => Hkeccak (r_bits en) (r_pre en)) pre_entries = map (fun en => r_hash en) pre_entries.
Proof. vm_compute. reflexivity. Qed.
Definition entry_range_ok (en : rentry) : bool :=
  (0 <? r_hash en) && (r_hash en <=? sha3_sym_upper) && negb (sha3_hash_out_of_range (r_hash en)).
Lemma pre_entries_range : forallb entry_range_ok pre_entries = true.
Proof. vm_compute. reflexivity. Qed.
Lemma pre_entries_ok : forall en, In en pre_entries ->
  Hkeccak (r_bits en) (r_pre en) = r_hash en /\ 0 < r_hash en <= sha3_sym_upper /\ sha3_hash_out_of_range (r_hash en) = false.
Proof.
  intros en Hin. split; [exact (map_eq_In _ _ _ _ _ en pre_entries_hash Hin)|].
  pose proof pre_entries_range as R. rewrite forallb_forall in R. specialize (R en Hin).
  unfold entry_range_ok in R. apply andb_prop in R. destruct R as [R R3]. apply andb_prop in R. destruct R as [R1 R2].
  apply Z.ltb_lt in R1. apply Z.leb_le in R2. apply negb_true_iff in R3. auto.
Qed.
Lemma precomputed_no_assert : om_set_all pre_entries (Some []) <> None.
Proof. vm_compute. discriminate. Qed.

(* ================================================================== OffsetMap *)
Definition om_wf (m : omap) : Prop :=
  forall raw en off, In (raw, (en, off)) m ->
    raw = om_set_bucket (r_hash en) /\ off = om_set_offset (r_hash en).

Lemma om_find_in : forall m raw v, om_find m raw = Some v -> In (raw, v) m.
Proof.
  intros m raw v Hf. unfold om_find in Hf.
  destruct (find (fun p => fst p =? raw) m) as [[r v']|] eqn:F; [|discriminate].
  inversion Hf; subst. apply find_some in F. destruct F as [Hin Heq].
  cbn [fst] in Heq. apply Z.eqb_eq in Heq. subst. exact Hin.
Qed.

Lemma om_wf_nil : om_wf [].
Proof. intros raw en off []. Qed.

Lemma om_set_wf : forall m en m', om_wf m -> om_set m (r_hash en) en = Some m' -> om_wf m'.
Proof.
  intros m en m' Hwf Hs. unfold om_set in Hs.
  destruct (om_find m (om_set_bucket (r_hash en))) as [[v0 o0]|].
  - destruct (rentry_eqb v0 en && (o0 =? om_set_offset (r_hash en))); [|discriminate].
    inversion Hs; subst. intros raw e' off [Heq|Hin]; [inversion Heq; subst; auto | eauto].
  - inversion Hs; subst. intros raw e' off [Heq|Hin]; [inversion Heq; subst; auto | eauto].
Qed.

Lemma om_set_all_wf : forall es m0 m', om_wf m0 -> om_set_all es (Some m0) = Some m' -> om_wf m'.
Proof.
  induction es as [|en es IH]; intros m0 m' Hwf Hs; cbn in Hs.
  - inversion Hs; subst; auto.
  - destruct (om_set m0 (r_hash en) en) as [m1|] eqn:E.
    + eapply IH; [eapply om_set_wf; eauto | exact Hs].
    + exfalso. clear -Hs. induction es; cbn in Hs; [discriminate | auto].
Qed.

Lemma precomputed_wf : om_wf precomputed.
Proof.
  unfold precomputed. destruct (om_set_all pre_entries (Some [])) as [m|] eqn:E.
  - eapply om_set_all_wf; [apply om_wf_nil | exact E].
  - apply om_wf_nil.
Qed.

(* the arithmetic of the regenerated bucket/offset functions *)
Lemma om_split : forall k h, 0 <= k -> 0 <= h ->
  om_get_bucket k = om_set_bucket h -> k = h + om_get_delta k (om_set_offset h).
Proof.
  intros k h Hk Hh Hb.
  unfold om_get_bucket, om_set_bucket, om_get_delta, om_set_offset, om_mask, om_offset_bits in *.
  change (Z.sub (Z.shiftl 1 16) 1) with (Z.ones 16).
  rewrite !Z.land_ones by lia. rewrite !Z.shiftr_div_pow2 in Hb by lia.
  change (2 ^ 16) with 65536 in *. lia.
Qed.

Lemma om_delta_small : forall k off, 0 <= off < 2 ^ om_offset_bits -> - 2 ^ om_offset_bits < om_get_delta k off < 2 ^ om_offset_bits.
Proof.
  intros k off Ho. unfold om_get_delta, om_mask, om_offset_bits in *.
  change (Z.sub (Z.shiftl 1 16) 1) with (Z.ones 16). rewrite Z.land_ones by lia.
  change (2 ^ 16) with 65536 in *. lia.
Qed.

Lemma offsetmap_get : forall m k en d, om_wf m -> 0 <= k -> 0 <= r_hash en ->
  om_get m k = Some (en, d) -> k = r_hash en + d /\ - 2 ^ om_offset_bits < d < 2 ^ om_offset_bits.
Proof.
  intros m k en d Hwf Hk Hh Hg. unfold om_get in Hg.
  destruct (om_find m (om_get_bucket k)) as [[v off]|] eqn:F; [|discriminate].
  inversion Hg; subst. apply om_find_in in F. apply Hwf in F. destruct F as [Hb Ho].
  split.
  - subst off. apply om_split; auto.
  - apply om_delta_small. subst off. unfold om_set_offset, om_mask, om_offset_bits.
    change (Z.sub (Z.shiftl 1 16) 1) with (Z.ones 16). rewrite Z.land_ones by lia.
    change (2 ^ 16) with 65536. lia.
Qed.

(* a stored key is found again with delta 0; neighbours inside the bucket with their distance *)
Lemma offsetmap_hit : forall m en m' j, om_set m (r_hash en) en = Some m' -> 0 <= r_hash en ->
  om_get_bucket (r_hash en + j) = om_get_bucket (r_hash en) -> 0 <= r_hash en + j ->
  om_get m' (r_hash en + j) = Some (en, j).
Proof.
  intros m en m' j Hs Hh Hb Hk.
  assert (Hm' : m' = (om_set_bucket (r_hash en), (en, om_set_offset (r_hash en))) :: m).
  { unfold om_set in Hs. destruct (om_find m (om_set_bucket (r_hash en))) as [[v0 o0]|].
    - destruct (rentry_eqb v0 en && (o0 =? om_set_offset (r_hash en))); inversion Hs; auto.
    - inversion Hs; auto. }
  subst m'. unfold om_get, om_find. cbn [find fst].
  replace (om_set_bucket (r_hash en) =? om_get_bucket (r_hash en + j)) with true.
  2:{ symmetry. apply Z.eqb_eq. rewrite Hb. reflexivity. }
  f_equal. f_equal.
  pose proof (om_split (r_hash en + j) (r_hash en) Hk Hh) as S.
  assert (om_get_bucket (r_hash en + j) = om_set_bucket (r_hash en)) as B by (rewrite Hb; reflexivity).
  specialize (S B). lia.
Qed.

(* ================================================================== select / load / store *)
Lemma cid_eqb_eq : forall a b, cid_eqb a b = true <-> a = b.
Proof.
  intros [[a1 a2] a3] [[b1 b2] b3]. unfold cid_eqb. split.
  - intros E. apply andb_prop in E. destruct E as [E E3]. apply andb_prop in E. destruct E as [E1 E2].
    apply Z.eqb_eq in E1, E2, E3. subst. reflexivity.
  - intros E. inversion E; subst. rewrite !Z.eqb_refl. reflexivity.
Qed.
Lemma cid_eqb_refl : forall a, cid_eqb a a = true.
Proof. intros a. apply cid_eqb_eq. reflexivity. Qed.
Lemma cid_eqb_sym : forall a b, cid_eqb a b = cid_eqb b a.
Proof.
  intros a b. destruct (cid_eqb a b) eqn:E.
  - apply cid_eqb_eq in E. subst. symmetry. apply cid_eqb_refl.
  - destruct (cid_eqb b a) eqn:E'; auto. apply cid_eqb_eq in E'. subst. rewrite cid_eqb_refl in E. discriminate.
Qed.

Section Raw.
  Variables key val : Type.
  Variable kden : env -> key -> Z.        (* denotation of a decoded key: the number concat(keys) denotes *)
  Variable evalv : env -> val -> Z.
  Variable orc : key -> key -> tri.
  (* initial contents when symbolic storage is enabled: unconstrained *)
  Variable init : chunkid -> Z -> Z.
  (* the valuations satisfying the path condition at the time of the solver calls *)
  Variable adm : env -> Prop.
  Hypothesis orc_eq : forall a b, orc a b = MustEq -> forall e, adm e -> kden e a = kden e b.
  Hypothesis orc_neq : forall a b, orc a b = MustNeq -> forall e, adm e -> kden e a <> kden e b.

  Fixpoint denote (e : env) (sym : bool) (c : chunkid) (ch : chain key val) (k : Z) : Z :=
    match ch with
    | [] => if sym then init c k else 0
    | (k0, v0) :: b => if k =? kden e k0 then evalv e v0 else denote e sym c b k
    end.

  Definition evalr (e : env) (sym : bool) (r : lres key val) : Z :=
    match r with
    | LVal v => evalv e v
    | LZero => 0
    | LInit c => init c 0
    | LSelect c ch k => denote e sym c ch (kden e k)
    end.

  Lemma select_denote : forall e sym c ch k, adm e ->
    evalr e sym (select key val orc sym c ch k) = denote e sym c ch (kden e k).
  Proof.
    intros e sym c ch k He. induction ch as [|[k0 v0] b IH]; cbn [select denote].
    - destruct sym; reflexivity.
    - destruct (orc k k0) eqn:O.
      + cbn [evalr]. rewrite (orc_eq _ _ O e He). rewrite Z.eqb_refl. reflexivity.
      + rewrite IH. pose proof (orc_neq _ _ O e He) as N.
        destruct (kden e k =? kden e k0) eqn:E; [apply Z.eqb_eq in E; contradiction | reflexivity].
      + reflexivity.
  Qed.

  (* what the storage holds at (chunk, key value) *)
  Definition sden (e : env) (s : storage key val) (c : chunkid) (k : Z) : Z :=
    if cid_scalar c then
      match st_find key val s c with
      | Some (CScalar v) => evalv e v
      | Some (CArr _) => 0
      | None => if symbolic key val s then init c 0 else 0
      end
    else
      match st_find key val s c with
      | Some (CArr ch) => denote e (symbolic key val s) c ch k
      | Some (CScalar _) => denote e (symbolic key val s) c [] k
      | None => denote e (symbolic key val s) c [] k
      end.

  Lemma load_sden : forall e s c k, adm e ->
    evalr e (symbolic key val s) (load key val orc s c k) = sden e s c (kden e k).
  Proof.
    intros e s c k He. unfold load, sden. destruct (cid_scalar c).
    - destruct (st_find key val s c) as [[v|ch]|]; try reflexivity.
      destruct (symbolic key val s); reflexivity.
    - destruct (st_find key val s c) as [[v|ch]|]; try reflexivity; apply select_denote; auto.
  Qed.

  Lemma st_find_cons : forall sym c ch m c',
    st_find key val {| symbolic := sym; mapping := (c, ch) :: m |} c' =
    if cid_eqb c c' then Some ch else st_find key val {| symbolic := sym; mapping := m |} c'.
  Proof. intros. unfold st_find. cbn [mapping find fst]. destruct (cid_eqb c c'); reflexivity. Qed.

  Lemma store_sden : forall e s c k v c' k',
    sden e (store key val s c k v) c' k' =
    if cid_eqb c c' && (cid_scalar c || (k' =? kden e k)) then evalv e v else sden e s c' k'.
  Proof.
    intros e s c k v c' k'. destruct s as [sym m]. unfold store, sden. cbn [symbolic mapping].
    destruct (cid_eqb c c') eqn:E.
    - apply cid_eqb_eq in E. subst c'. destruct (cid_scalar c) eqn:Sc; cbn [andb orb].
      + rewrite st_find_cons, cid_eqb_refl. reflexivity.
      + rewrite st_find_cons, cid_eqb_refl. cbn [denote].
        destruct (k' =? kden e k); [reflexivity|].
        destruct (st_find key val {| symbolic := sym; mapping := m |} c) as [[v0|ch]|]; reflexivity.
    - cbn [andb]. destruct (cid_scalar c); rewrite st_find_cons, E; reflexivity.
  Qed.

  Lemma store_symbolic : forall s c k v, symbolic key val (store key val s c k v) = symbolic key val s.
  Proof. intros [sym m] c k v. unfold store. destruct (cid_scalar c); reflexivity. Qed.

  (* last write wins at the level of decoded locations *)
  Lemma raw_chunk : forall e s c k v c' k', adm e ->
    evalr e (symbolic key val s) (load key val orc (store key val s c k v) c' k') =
    if cid_eqb c c' && (cid_scalar c || (kden e k' =? kden e k)) then evalv e v
    else evalr e (symbolic key val s) (load key val orc s c' k').
  Proof.
    intros e s c k v c' k' He.
    rewrite <- (store_symbolic s c k v) at 1.
    rewrite load_sden by auto. rewrite store_sden. rewrite load_sden by auto. reflexivity.
  Qed.

  Lemma load_empty : forall e c k, evalr e false (load key val orc (st_empty key val) c k) = 0.
  Proof. intros e c k. unfold load, st_empty, st_find. cbn. destruct (cid_scalar c); reflexivity. Qed.

  (* transient storage at the start of a transaction *)
  Lemma transient_fresh : forall e ts a s c k,
    In (a, s) (fresh_transient_storage key val ts) ->
    s = st_empty key val /\ evalr e (symbolic key val s) (load key val orc s c k) = 0.
  Proof.
    intros e ts a s c k Hin. unfold fresh_transient_storage in Hin. apply in_map_iff in Hin.
    destruct Hin as [[a0 s0] [Heq _]]. inversion Heq; subst. split; [reflexivity|]. apply load_empty.
  Qed.
  Lemma transient_fresh_accounts : forall ts, map fst (fresh_transient_storage key val ts) = map fst ts.
  Proof. intros ts. unfold fresh_transient_storage. rewrite map_map. reflexivity. Qed.

  (* ---------------- sequences: the model against the flat array, for any decoder that is
     faithful on the family of locations the program uses *)
  Variable H : Z -> Z -> Z.
  Variable decode : loc -> res (chunkid * key).

  Definition dkey_eq (e : env) (d d' : chunkid * key) : bool :=
    cid_eqb (fst d) (fst d') && (cid_scalar (fst d) || (kden e (snd d') =? kden e (snd d))).

  (* faithful on a family: decodable, and same EVM slot <-> same chunk and key *)
  Definition faithful_on (e : env) (fam : list loc) : Prop :=
    forall l l', In l fam -> In l' fam ->
      exists d d', decode l = Ok d /\ decode l' = Ok d' /\
        (dkey_eq e d d' = true <-> eval H e l = eval H e l').

  Fixpoint model_run (e : env) (s : storage key val) (ops : list (op val)) : list Z :=
    match ops with
    | [] => []
    | OStore l v :: r =>
        match decode l with
        | Ok d => model_run e (store key val s (fst d) (snd d) v) r
        | Err _ => []
        end
    | OLoad l :: r =>
        match decode l with
        | Ok d => evalr e (symbolic key val s) (load key val orc s (fst d) (snd d)) :: model_run e s r
        | Err _ => []
        end
    end.

  Definition op_loc (o : op val) : loc := match o with OStore l _ => l | OLoad l => l end.

  Definition sim (e : env) (fam : list loc) (s : storage key val) (f : flat) : Prop :=
    forall l d, In l fam -> decode l = Ok d ->
      evalr e (symbolic key val s) (load key val orc s (fst d) (snd d)) = f (eval H e l).

  Lemma seq_sim : forall e fam ops s f, adm e -> faithful_on e fam ->
    (forall o, In o ops -> In (op_loc o) fam) -> sim e fam s f ->
    model_run e s ops = ref_run H e val evalv f ops.
  Proof.
    intros e fam ops. induction ops as [|o ops IH]; intros s f He Hf Hin Hsim; [reflexivity|].
    assert (Ho : In (op_loc o) fam) by (apply Hin; left; reflexivity).
    assert (Hin' : forall o', In o' ops -> In (op_loc o') fam) by (intros; apply Hin; right; auto).
    destruct o as [l v | l]; cbn [op_loc] in Ho; cbn [model_run ref_run].
    - destruct (Hf l l Ho Ho) as [d [d' [D [D' _]]]]. rewrite D.
      apply IH; auto.
      intros l2 d2 Hl2 D2. rewrite store_symbolic. rewrite raw_chunk by auto.
      destruct (Hf l l2 Ho Hl2) as [dd [dd2 [E1 [E2 Hiff]]]].
      rewrite D in E1. inversion E1; subst dd. rewrite D2 in E2. inversion E2; subst dd2.
      unfold dkey_eq in Hiff. unfold fstore.
      destruct (cid_eqb (fst d) (fst d2) && (cid_scalar (fst d) || (kden e (snd d2) =? kden e (snd d)))) eqn:B.
      + destruct Hiff as [Hi _]. specialize (Hi eq_refl). rewrite Hi, Z.eqb_refl. reflexivity.
      + destruct (eval H e l2 =? eval H e l) eqn:E.
        * apply Z.eqb_eq in E. destruct Hiff as [_ Hi]. symmetry in E. specialize (Hi E). discriminate.
        * apply Hsim; auto.
    - destruct (Hf l l Ho Ho) as [d [d' [D [D' _]]]]. rewrite D. f_equal.
      + apply Hsim; auto.
      + apply IH; auto.
  Qed.

  Lemma sim_empty : forall e fam, sim e fam (st_empty key val) fempty.
  Proof. intros e fam l d _ _. cbn [symbolic st_empty]. apply load_empty. Qed.
End Raw.

(* sequences from the empty storage *)
Lemma seq_from_empty :
  forall (key val : Type) (kden : env -> key -> Z) (evalv : env -> val -> Z) (orc : key -> key -> tri)
         (init : chunkid -> Z -> Z) (adm : env -> Prop),
    (forall a b, orc a b = MustEq -> forall e, adm e -> kden e a = kden e b) ->
    (forall a b, orc a b = MustNeq -> forall e, adm e -> kden e a <> kden e b) ->
    forall (H : Z -> Z -> Z) (decode : loc -> res (chunkid * key)) (e : env) (fam : list loc) (ops : list (op val)),
      adm e -> faithful_on key kden H decode e fam ->
      (forall o, In o ops -> In (op_loc val o) fam) ->
      model_run key val kden evalv orc init decode e (st_empty key val) ops = ref_run H e val evalv fempty ops.
Proof.
  intros. eapply seq_sim; eauto. apply sim_empty.
Qed.

(* ================================================================== the path side: axioms *)
(* The terms load() returns mention array terms (initial arrays, numbered array variables)
   that only ex.path gives a meaning to.  An interpretation I of the array terms is a MODEL
   of the path when every storage axiom holds under it.  Soundness: under every model of the
   path the returned term evaluates to what the chain-level model (Section Raw) computes --
   in particular a never-written location of a non-symbolic account evaluates to 0 under
   EVERY model, which needs the emptiness axiom of exactly that load. *)
Section Path.
  Variables key val : Type.
  Variable kden : env -> key -> Z.
  Variable evalv : env -> val -> Z.
  Variable orc : key -> key -> tri.
  Variable kval : key -> bool.
  Variable emits : bool -> bool -> bool.
  Variable I : aref -> Z -> Z.
  Variable e : env.

  Definition Iinit (c : chunkid) (i : Z) : Z := I (AEmpty c) i.

  Definition holds (ax : axiom key val) : Prop :=
    match ax with
    | AxDef n base k v => forall i, I (AVar n) i = if i =? kden e k then evalv e v else I base i
    | AxEmpty c k => I (AEmpty c) (kden e k) = 0
    end.

  Definition evalp (r : pres key val) : Z :=
    match r with
    | PVal v => evalv e v
    | PZero => 0
    | PInit c => I (AEmpty c) 0
    | PSelect a k => I a (kden e k)
    end.

  (* ---- abstraction to the chain-level model *)
  Fixpoint unroll (st : pdefs key val) (a : aref) {struct st} : chain key val :=
    match st with
    | [] => []
    | (m, (base, k0, v0)) :: rest =>
        match a with
        | AEmpty _ => []
        | AVar n => if (n =? m)%nat then (k0, v0) :: unroll rest base else unroll rest a
        end
    end.

  (* the chain of definitions of `a` ends in the initial array of chunk c *)
  Fixpoint rooted (st : pdefs key val) (a : aref) (c : chunkid) {struct st} : Prop :=
    match st with
    | [] => a = AEmpty c
    | (m, (base, _, _)) :: rest =>
        match a with
        | AEmpty c' => c' = c
        | AVar n => if (n =? m)%nat then rooted rest base c else rooted rest a c
        end
    end.

  Definition abs_chunk (st : pdefs key val) (ch : pchunk val) : chunk key val :=
    match ch with PScalar v => CScalar v | PArr a => CArr (unroll st a) end.
  Definition abs (s : pstate key val) : storage key val :=
    {| symbolic := p_symbolic key val s;
       mapping := map (fun p => (fst p, abs_chunk (p_storages key val s) (snd p))) (p_mapping key val s) |}.

  Definition aref_le (a : aref) (n : nat) : Prop :=
    match a with AEmpty _ => True | AVar m => (m <= n)%nat end.
  Fixpoint pwf_st (st : pdefs key val) : Prop :=
    match st with
    | [] => True
    | (n, (base, _, _)) :: rest => n = S (length rest) /\ aref_le base (length rest) /\ pwf_st rest
    end.
  Record pwf (s : pstate key val) : Prop := {
    wf_st : pwf_st (p_storages key val s);
    wf_map : forall c a, In (c, PArr a) (p_mapping key val s) ->
               aref_le a (length (p_storages key val s)) /\ rooted (p_storages key val s) a c;
    wf_defs : forall n b k v, In (n, (b, k, v)) (p_storages key val s) -> In (AxDef n b k v) (p_path key val s)
  }.

  Lemma rooted_empty : forall st c, rooted st (AEmpty c) c.
  Proof. intros [|[m [[b k0] v0]] rest] c; reflexivity. Qed.
  Lemma unroll_empty : forall st c, unroll st (AEmpty c) = [].
  Proof. intros [|[m [[b k0] v0]] rest] c; reflexivity. Qed.

  (* a definition numbered above everything `a` mentions is invisible from `a` *)
  Lemma unroll_weaken : forall st a n d, aref_le a (length st) -> n = S (length st) ->
    unroll ((n, d) :: st) a = unroll st a.
  Proof. clear kden evalv orc kval emits I e.
    intros st a n [[b k0] v0] Hle Hn. destruct a as [c|m]; cbn [unroll].
    - symmetry. apply unroll_empty.
    - cbn [aref_le] in Hle. destruct (m =? n)%nat eqn:E; [apply Nat.eqb_eq in E; lia | reflexivity].
  Qed.
  Lemma rooted_weaken : forall st a n d c, aref_le a (length st) -> n = S (length st) ->
    (rooted ((n, d) :: st) a c <-> rooted st a c).
  Proof. clear kden evalv orc kval emits I e.
    intros st a n [[b k0] v0] c Hle Hn. destruct a as [c'|m]; cbn [rooted].
    - destruct st as [|[m' [[b' k'] v']] rest]; cbn [rooted]; split; intro Hx; congruence.
    - cbn [aref_le] in Hle. destruct (m =? n)%nat eqn:E; [apply Nat.eqb_eq in E; lia | tauto].
  Qed.

  (* under a model of the definitions, an array term denotes its unrolled chain over the
     interpretation of the initial array it is rooted in *)
  Lemma I_unroll : forall st,
    (forall n b k v, In (n, (b, k, v)) st -> holds (AxDef n b k v)) ->
    forall a c, rooted st a c -> forall i,
      I a i = denote key val kden evalv Iinit e true c (unroll st a) i.
  Proof.
    induction st as [|[m [[b k0] v0]] rest IH]; intros Hd a c Hr i.
    - cbn [rooted] in Hr. subst a. reflexivity.
    - destruct a as [c'|n]; cbn [rooted unroll] in *.
      + subst c'. reflexivity.
      + destruct (n =? m)%nat eqn:E.
        * apply Nat.eqb_eq in E. subst n. cbn [denote].
          pose proof (Hd m b k0 v0 (or_introl eq_refl)) as Hm. cbn [holds] in Hm. rewrite Hm.
          destruct (i =? kden e k0); [reflexivity|].
          apply IH; [intros; apply Hd; right; assumption | exact Hr].
        * apply IH; [intros; apply Hd; right; assumption | exact Hr].
  Qed.

  (* Exec.select on the real data structure = select on the unrolled chain, the bottom being
     read from I *)
  Lemma pselect_sound : forall st,
    (forall n b k v, In (n, (b, k, v)) st -> holds (AxDef n b k v)) ->
    forall sym a c k, rooted st a c ->
      evalp (pselect key val orc st sym a k) =
      evalr key val kden evalv Iinit e true (select key val orc sym c (unroll st a) k).
  Proof.
    induction st as [|[m [[b k0] v0]] rest IH]; intros Hd sym a c k Hr.
    - cbn [rooted] in Hr. subst a. cbn [pselect unroll select]. destruct sym; reflexivity.
    - destruct a as [c'|n].
      + cbn [rooted] in Hr. subst c'. cbn [pselect unroll select]. destruct sym; reflexivity.
      + pose proof (I_unroll _ Hd _ _ Hr (kden e k)) as HI.
        cbn [rooted unroll pselect] in *. destruct (n =? m)%nat eqn:E.
        * cbn [select]. destruct (orc k k0).
          -- reflexivity.
          -- apply IH; [intros; apply Hd; right; assumption | exact Hr].
          -- cbn [evalp evalr]. exact HI.
        * apply IH; [intros; apply Hd; right; assumption | exact Hr].
  Qed.

  Lemma denote_bottom : forall c ch i, Iinit c i = 0 ->
    denote key val kden evalv Iinit e true c ch i = denote key val kden evalv Iinit e false c ch i.
  Proof.
    intros c ch i H0. induction ch as [|[k0 v0] b IH]; cbn [denote]; [exact H0|].
    destruct (i =? kden e k0); [reflexivity | exact IH].
  Qed.

  Lemma select_bottom : forall c ch k, Iinit c (kden e k) = 0 ->
    evalr key val kden evalv Iinit e true (select key val orc false c ch k) =
    evalr key val kden evalv Iinit e false (select key val orc false c ch k).
  Proof.
    intros c ch k H0. induction ch as [|[k0 v0] b IH]; cbn [select]; [reflexivity|].
    destruct (orc k k0); [reflexivity | exact IH |].
    cbn [evalr]. apply denote_bottom. exact H0.
  Qed.

  Lemma st_find_abs : forall s c,
    st_find key val (abs s) c = option_map (abs_chunk (p_storages key val s)) (pfind key val s c).
  Proof.
    intros s c. unfold st_find, pfind, abs. cbn [mapping].
    induction (p_mapping key val s) as [|[c0 ch0] m IH]; [reflexivity|].
    cbn [map find fst snd]. destruct (cid_eqb c0 c); [reflexivity | exact IH].
  Qed.

  Lemma pfind_in : forall s c ch, pfind key val s c = Some ch -> In (c, ch) (p_mapping key val s).
  Proof.
    intros s c ch Hf. unfold pfind in Hf.
    destruct (find (fun p => cid_eqb (fst p) c) (p_mapping key val s)) as [[c0 ch0]|] eqn:F; [|discriminate].
    inversion Hf; subst. apply find_some in F. destruct F as [Hin Heq]. cbn [fst] in Heq.
    apply cid_eqb_eq in Heq. subst. exact Hin.
  Qed.

  Lemma parr_wf : forall s c, pwf s ->
    aref_le (parr key val s c) (length (p_storages key val s)) /\ rooted (p_storages key val s) (parr key val s c) c.
  Proof.
    intros s c W. unfold parr. destruct (pfind key val s c) as [[v|a]|] eqn:F.
    - split; [exact Logic.I | apply rooted_empty].
    - apply pfind_in in F. exact (wf_map s W c a F).
    - split; [exact Logic.I | apply rooted_empty].
  Qed.

  (* the array branch of load on the abstraction *)
  Lemma load_abs : forall s c k, cid_scalar c = false ->
    load key val orc (abs s) c k =
    select key val orc (p_symbolic key val s) c (unroll (p_storages key val s) (parr key val s c)) k.
  Proof.
    intros s c k Hs. unfold load. rewrite Hs, st_find_abs. unfold parr.
    destruct (pfind key val s c) as [[v|a]|]; cbn [option_map abs_chunk abs symbolic];
      rewrite ?unroll_empty; reflexivity.
  Qed.

  (* ---- soundness of one load under every model of the path AFTER the load *)
  Hypothesis emits_complete : forall kv, emits false kv = true.

  Lemma path_load_sound : forall s c k, pwf s ->
    (forall ax, In ax (p_path key val (snd (pload key val orc kval emits s c k))) -> holds ax) ->
    evalp (fst (pload key val orc kval emits s c k)) =
    evalr key val kden evalv Iinit e (p_symbolic key val s) (load key val orc (abs s) c k).
  Proof.
    intros s c k W Hp. unfold pload in *. destruct (cid_scalar c) eqn:Sc; cbn [fst snd] in *.
    - unfold load. rewrite Sc, st_find_abs.
      destruct (pfind key val s c) as [[v|a]|]; cbn [option_map abs_chunk abs symbolic evalp evalr]; try reflexivity.
      destruct (p_symbolic key val s); reflexivity.
    - cbn [p_path] in Hp. rewrite load_abs by exact Sc.
      destruct (parr_wf s c W) as [_ Hr].
      assert (Hd : forall n b k0 v, In (n, (b, k0, v)) (p_storages key val s) -> holds (AxDef n b k0 v)).
      { intros n b k0 v Hin. apply Hp. pose proof (wf_defs s W n b k0 v Hin) as Hi.
        destruct (emits (p_symbolic key val s) (kval k)); [right|]; exact Hi. }
      rewrite (pselect_sound _ Hd _ _ _ k Hr).
      destruct (p_symbolic key val s) eqn:Sy; [reflexivity|].
      apply select_bottom. unfold Iinit.
      assert (Hax : holds (AxEmpty c k)).
      { apply Hp. rewrite emits_complete. left. reflexivity. }
      exact Hax.
  Qed.

  (* ---- store and load preserve the invariant; the abstraction commutes *)
  Lemma pload_abs : forall s c k, abs (snd (pload key val orc kval emits s c k)) = abs s.
  Proof. intros s c k. unfold pload. destruct (cid_scalar c); reflexivity. Qed.
  Lemma pload_symbolic : forall s c k,
    p_symbolic key val (snd (pload key val orc kval emits s c k)) = p_symbolic key val s.
  Proof. intros s c k. unfold pload. destruct (cid_scalar c); reflexivity. Qed.
  Lemma pload_path_incl : forall s c k,
    incl (p_path key val s) (p_path key val (snd (pload key val orc kval emits s c k))).
  Proof.
    intros s c k ax Hin. unfold pload. destruct (cid_scalar c); cbn [snd p_path]; [exact Hin|].
    destruct (emits (p_symbolic key val s) (kval k)); [right|]; exact Hin.
  Qed.
  Lemma pload_wf : forall s c k, pwf s -> pwf (snd (pload key val orc kval emits s c k)).
  Proof.
    intros s c k W. pose proof (pload_path_incl s c k) as Hi. unfold pload in *.
    destruct (cid_scalar c); cbn [snd] in *; [exact W|].
    constructor; cbn [p_storages p_mapping p_path].
    - exact (wf_st s W).
    - exact (wf_map s W).
    - intros n b k0 v Hin. apply Hi. exact (wf_defs s W n b k0 v Hin).
  Qed.

  Lemma pstore_symbolic : forall s c k v, p_symbolic key val (pstore key val s c k v) = p_symbolic key val s.
  Proof. intros s c k v. unfold pstore. destruct (cid_scalar c); reflexivity. Qed.
  Lemma pstore_path_incl : forall s c k v, incl (p_path key val s) (p_path key val (pstore key val s c k v)).
  Proof. intros s c k v ax Hin. unfold pstore. destruct (cid_scalar c); cbn [p_path]; [|right]; exact Hin. Qed.

  Lemma pstore_wf : forall s c k v, pwf s -> pwf (pstore key val s c k v).
  Proof. clear emits_complete. clear kden evalv orc kval emits I e.
    intros s c k v W. unfold pstore. destruct (cid_scalar c) eqn:Sc.
    - constructor; cbn [p_storages p_mapping p_path].
      + exact (wf_st s W).
      + intros c' a [Heq|Hin]; [inversion Heq | exact (wf_map s W c' a Hin)].
      + exact (wf_defs s W).
    - destruct (parr_wf s c W) as [Hle Hr].
      constructor; cbn [p_storages p_mapping p_path].
      + cbn [pwf_st]. split; [reflexivity|]. split; [exact Hle | exact (wf_st s W)].
      + intros c' a [Heq|Hin].
        * inversion Heq; subst c' a. cbn [aref_le length rooted]. split; [lia|].
          rewrite Nat.eqb_refl. exact Hr.
        * destruct (wf_map s W c' a Hin) as [Hle' Hr']. split.
          -- destruct a as [c0|m]; cbn [aref_le length] in *; [exact Logic.I | lia].
          -- apply rooted_weaken; [exact Hle' | reflexivity | exact Hr'].
      + intros n b k0 v0 [Heq|Hin]; [inversion Heq; subst; left; reflexivity | right; exact (wf_defs s W n b k0 v0 Hin)].
  Qed.

  Lemma pstore_abs : forall s c k v, pwf s ->
    abs (pstore key val s c k v) = store key val (abs s) c k v.
  Proof.
    intros s c k v W. unfold pstore, store. destruct (cid_scalar c) eqn:Sc.
    - reflexivity.
    - destruct (parr_wf s c W) as [Hle _].
      unfold abs at 1. cbn [p_symbolic p_mapping p_storages map fst snd abs_chunk unroll].
      rewrite Nat.eqb_refl.
      assert (Hch : match st_find key val (abs s) c with Some (CArr ch) => ch | _ => [] end =
                    unroll (p_storages key val s) (parr key val s c)).
      { rewrite st_find_abs. unfold parr. destruct (pfind key val s c) as [[v0|a]|]; cbn [option_map abs_chunk];
          rewrite ?unroll_empty; reflexivity. }
      rewrite Hch. unfold abs. cbn [symbolic mapping]. f_equal. f_equal.
      apply map_ext_in. intros [c' ch'] Hin. cbn [fst snd]. f_equal.
      destruct ch' as [v0|a]; cbn [abs_chunk]; [reflexivity|]. f_equal.
      apply unroll_weaken; [exact (proj1 (wf_map s W c' a Hin)) | reflexivity].
  Qed.

  (* ---- whole sequences: under every model of the FINAL path, the terms returned by the
     loads evaluate to what the chain-level model computes *)
  Variable decode : loc -> res (chunkid * key).

  Lemma prun_path_incl : forall ops s,
    incl (p_path key val s) (p_path key val (snd (prun key val orc kval emits decode s ops))).
  Proof.
    induction ops as [|o ops IH]; intros s; [apply incl_refl|].
    destruct o as [l v|l]; cbn [prun]; destruct (decode l) as [d|c]; cbn [snd]; try apply incl_refl.
    - eapply incl_tran; [apply pstore_path_incl | apply IH].
    - eapply incl_tran; [apply pload_path_incl | apply IH].
  Qed.

  Lemma path_seq : forall ops s, pwf s ->
    (forall ax, In ax (p_path key val (snd (prun key val orc kval emits decode s ops))) -> holds ax) ->
    map evalp (fst (prun key val orc kval emits decode s ops)) =
    model_run key val kden evalv orc Iinit decode e (abs s) ops.
  Proof.
    induction ops as [|o ops IH]; intros s W Hp; [reflexivity|].
    destruct o as [l v|l]; cbn [prun model_run] in *; destruct (decode l) as [d|c]; try reflexivity.
    - rewrite <- pstore_abs by exact W. apply IH; [apply pstore_wf; exact W | exact Hp].
    - cbn [fst snd map] in *. f_equal.
      + cbn [abs symbolic]. apply path_load_sound; [exact W|].
        intros ax Hin. apply Hp. eapply prun_path_incl. exact Hin.
      + rewrite <- (pload_abs s (fst d) (snd d)). apply IH; [apply pload_wf; exact W | exact Hp].
  Qed.
End Path.

Lemma p_empty_wf : forall key val, pwf key val (p_empty key val).
Proof. intros. constructor; cbn; [exact Logic.I | intros c a [] | intros n b k v []]. Qed.

(* sequences from the empty, non-symbolic storage: under EVERY interpretation of the array
   terms that satisfies the axioms the run left in the path, the returned terms evaluate to
   what the EVM's flat array returns *)
Lemma path_seq_from_empty :
  forall (key val : Type) (kden : env -> key -> Z) (evalv : env -> val -> Z) (orc : key -> key -> tri)
         (kval : key -> bool) (emits : bool -> bool -> bool) (adm : env -> Prop),
    (forall a b, orc a b = MustEq -> forall e, adm e -> kden e a = kden e b) ->
    (forall a b, orc a b = MustNeq -> forall e, adm e -> kden e a <> kden e b) ->
    (forall kv, emits false kv = true) ->
    forall (H : Z -> Z -> Z) (decode : loc -> res (chunkid * key)) (e : env) (fam : list loc) (ops : list (op val)),
      adm e -> faithful_on key kden H decode e fam ->
      (forall o, In o ops -> In (op_loc val o) fam) ->
      forall I : aref -> Z -> Z,
        (forall ax, In ax (p_path key val (snd (prun key val orc kval emits decode (p_empty key val) ops))) ->
           holds key val kden evalv I e ax) ->
        map (evalp key val kden evalv I e) (fst (prun key val orc kval emits decode (p_empty key val) ops)) =
        ref_run H e val evalv fempty ops.
Proof.
  intros key val kden evalv orc kval emits adm Oe On Hem H decode e fam ops He Hf Hin I Hp.
  rewrite (path_seq key val kden evalv orc kval emits I e Hem decode ops (p_empty key val) (p_empty_wf key val) Hp).
  change (abs key val (p_empty key val)) with (st_empty key val).
  eapply seq_from_empty; eauto.
Qed.

(* the guards of the code, as regenerated *)
Lemma sol_emits_complete : forall kv, sol_load_emits_empty false kv = true.
Proof. intros [|]; reflexivity. Qed.
Lemma gen_emits_complete : forall kv, gen_load_emits_empty false kv = true.
Proof. intros [|]; reflexivity. Qed.
Lemma sol_emits_only_nonsymbolic : forall kv, sol_load_emits_empty true kv = false.
Proof. intros [|]; reflexivity. Qed.
Lemma gen_emits_only_nonsymbolic : forall kv, gen_load_emits_empty true kv = false.
Proof. intros [|]; reflexivity. Qed.

(* ---- the axioms never over-constrain: whatever the initial arrays are (symbolic storage),
   or with all-zero initial arrays (non-symbolic storage), the path a run leaves has a model
   that extends them.  So the soundness theorem is not vacuous, a non-symbolic run does not
   make the path unsatisfiable, and symbolic initial storage stays unconstrained. *)
Section PathSat.
  Variables key val : Type.
  Variable kden : env -> key -> Z.
  Variable evalv : env -> val -> Z.
  Variable orc : key -> key -> tri.
  Variable kval : key -> bool.
  Variable emits : bool -> bool -> bool.
  Variable e : env.
  Variable init : chunkid -> Z -> Z.

  (* the interpretation the definitions force on top of `init` *)
  Fixpoint Ival (st : pdefs key val) (a : aref) (i : Z) {struct st} : Z :=
    match st with
    | [] => match a with AEmpty c => init c i | AVar _ => 0 end
    | (m, (base, k0, v0)) :: rest =>
        match a with
        | AEmpty c => init c i
        | AVar n => if (n =? m)%nat then (if i =? kden e k0 then evalv e v0 else Ival rest base i)
                    else Ival rest a i
        end
    end.

  Lemma Ival_empty : forall st c i, Ival st (AEmpty c) i = init c i.
  Proof. intros [|[m [[b k0] v0]] rest] c i; reflexivity. Qed.

  Lemma Ival_weaken : forall st a n d i, aref_le a (length st) -> n = S (length st) ->
    Ival ((n, d) :: st) a i = Ival st a i.
  Proof.
    clear orc kval emits.
    intros st a n [[b k0] v0] i Hle Hn. destruct a as [c|m]; cbn [Ival].
    - symmetry. apply Ival_empty.
    - cbn [aref_le] in Hle. destruct (m =? n)%nat eqn:E; [apply Nat.eqb_eq in E; lia | reflexivity].
  Qed.

  Lemma pwf_st_in : forall st n b k v, pwf_st key val st -> In (n, (b, k, v)) st ->
    (n <= length st)%nat /\ aref_le b (length st).
  Proof.
    clear orc kval emits.
    induction st as [|[m [[b0 k0] v0]] rest IH]; intros n b k v W Hin; [destruct Hin|].
    cbn [pwf_st] in W. destruct W as [Hm [Hb W]]. cbn [length]. destruct Hin as [Heq|Hin].
    - inversion Heq; subst. split; [lia|]. destruct b as [c|x]; cbn [aref_le] in *; [exact Logic.I | lia].
    - destruct (IH n b k v W Hin) as [H1 H2]. split; [lia|].
      destruct b as [c|x]; cbn [aref_le] in *; [exact Logic.I | lia].
  Qed.

  Lemma Ival_defs : forall st, pwf_st key val st -> forall n b k v, In (n, (b, k, v)) st ->
    forall i, Ival st (AVar n) i = if i =? kden e k then evalv e v else Ival st b i.
  Proof.
    clear orc kval emits.
    induction st as [|[m [[b0 k0] v0]] rest IH]; intros W n b k v Hin i; [destruct Hin|].
    pose proof W as W0. cbn [pwf_st] in W. destruct W as [Hm [Hb W]]. destruct Hin as [Heq|Hin].
    - inversion Heq; subst n b0 k0 v0.
      rewrite (Ival_weaken rest b m (b, k, v) i) by auto.
      cbn [Ival]. rewrite Nat.eqb_refl. reflexivity.
    - destruct (pwf_st_in rest n b k v W Hin) as [Hn Hb'].
      rewrite (Ival_weaken rest (AVar n) m (b0, k0, v0) i) by (cbn [aref_le]; auto).
      rewrite (Ival_weaken rest b m (b0, k0, v0) i) by auto.
      apply IH; auto.
  Qed.

  (* the invariant of runs: additionally, every definition in the path is recorded in
     ex.storages, and a symbolic account never gets an emptiness axiom *)
  Record pinv (s : pstate key val) : Prop := {
    inv_wf : pwf key val s;
    inv_defs : forall n b k v, In (AxDef n b k v) (p_path key val s) -> In (n, (b, k, v)) (p_storages key val s);
    inv_sym : p_symbolic key val s = true -> forall c k, ~ In (AxEmpty c k) (p_path key val s)
  }.

  Hypothesis emits_only_nonsymbolic : forall kv, emits true kv = false.

  Lemma pload_inv : forall s c k, pinv s -> pinv (snd (pload key val orc kval emits s c k)).
  Proof.
    intros s c k [W D S]. constructor; [apply pload_wf; exact W | |]; unfold pload in *;
      destruct (cid_scalar c); cbn [snd p_path p_storages p_symbolic]; auto.
    - intros n b k0 v Hin. apply D. destruct (emits (p_symbolic key val s) (kval k)); [|exact Hin].
      destruct Hin as [Heq|Hin]; [discriminate | exact Hin].
    - intros Sy c' k'. rewrite Sy, emits_only_nonsymbolic. apply S. exact Sy.
  Qed.

  Lemma pstore_inv : forall s c k v, pinv s -> pinv (pstore key val s c k v).
  Proof.
    intros s c k v [W D S]. constructor; [apply pstore_wf; exact W | |]; unfold pstore in *;
      destruct (cid_scalar c); cbn [p_path p_storages p_symbolic]; auto.
    - intros n b k0 v0 [Heq|Hin]; [inversion Heq; subst; left; reflexivity | right; apply D; exact Hin].
    - intros Sy c' k' [Heq|Hin]; [discriminate | exact (S Sy c' k' Hin)].
  Qed.

  Variable decode : loc -> res (chunkid * key).
  Lemma prun_inv : forall ops s, pinv s -> pinv (snd (prun key val orc kval emits decode s ops)).
  Proof.
    induction ops as [|o ops IH]; intros s Hi; [exact Hi|].
    destruct o as [l v|l]; cbn [prun]; destruct (decode l) as [d|c]; cbn [snd]; try exact Hi.
    - apply IH. apply pstore_inv. exact Hi.
    - apply IH. apply pload_inv. exact Hi.
  Qed.

  Lemma prun_symbolic : forall ops s,
    p_symbolic key val (snd (prun key val orc kval emits decode s ops)) = p_symbolic key val s.
  Proof.
    induction ops as [|o ops IH]; intros s; [reflexivity|].
    destruct o as [l v|l]; cbn [prun]; destruct (decode l) as [d|c]; cbn [snd]; try reflexivity.
    - rewrite IH. apply pstore_symbolic.
    - rewrite IH. apply pload_symbolic.
  Qed.

  Lemma path_model : forall s, pinv s ->
    (forall c k, In (AxEmpty c k) (p_path key val s) -> init c (kden e k) = 0) ->
    (forall c i, Ival (p_storages key val s) (AEmpty c) i = init c i) /\
    (forall ax, In ax (p_path key val s) -> holds key val kden evalv (Ival (p_storages key val s)) e ax).
  Proof.
    intros s [W D S] H0. split; [intros; apply Ival_empty|].
    intros [n b k v|c k] Hin; cbn [holds].
    - intros i. apply Ival_defs; [exact (wf_st key val s W) | apply D; exact Hin].
    - rewrite Ival_empty. apply H0. exact Hin.
  Qed.
End PathSat.

Definition p_start (key val : Type) (sym : bool) : pstate key val :=
  {| p_symbolic := sym; p_mapping := []; p_storages := []; p_path := [] |}.

Lemma p_start_inv : forall key val sym, pinv key val (p_start key val sym).
Proof.
  intros. constructor; cbn.
  - constructor; cbn; [exact Logic.I | intros c a [] | intros n b k v []].
  - intros n b k v [].
  - intros _ c k [].
Qed.

(* every run from an empty account: for all-zero initial arrays, and -- when the account's
   storage is symbolic -- for ANY initial arrays, the final path has a model extending them *)
Lemma path_run_has_model :
  forall (key val : Type) (kden : env -> key -> Z) (evalv : env -> val -> Z) (orc : key -> key -> tri)
         (kval : key -> bool) (emits : bool -> bool -> bool),
    (forall kv, emits true kv = false) ->
    forall (decode : loc -> res (chunkid * key)) (e : env) (sym : bool) (ops : list (op val))
           (init : chunkid -> Z -> Z),
      (sym = false -> forall c i, init c i = 0) ->
      exists I : aref -> Z -> Z,
        (forall c i, I (AEmpty c) i = init c i) /\
        (forall ax, In ax (p_path key val (snd (prun key val orc kval emits decode (p_start key val sym) ops))) ->
           holds key val kden evalv I e ax).
Proof.
  intros key val kden evalv orc kval emits Hem decode e sym ops init H0.
  pose proof (prun_inv key val orc kval emits Hem decode ops _ (p_start_inv key val sym)) as Hi.
  exists (Ival key val kden evalv e init (p_storages key val (snd (prun key val orc kval emits decode (p_start key val sym) ops)))).
  apply path_model; [exact Hi|].
  intros c k Hin. destruct sym.
  - exfalso. refine (inv_sym _ _ _ Hi _ c k Hin).
    rewrite (prun_symbolic key val orc kval emits decode). reflexivity.
  - apply H0. reflexivity.
Qed.

(* ---- the statements of Props/C08.v about the path side, for the guards of either layout *)
Definition code_guard (emits : bool -> bool -> bool) : Prop :=
  emits = sol_load_emits_empty \/ emits = gen_load_emits_empty.

Lemma code_guard_ok : forall emits, code_guard emits ->
  (forall kv, emits false kv = true) /\ (forall kv, emits true kv = false).
Proof.
  intros emits [->| ->]; split.
  - exact sol_emits_complete. - exact sol_emits_only_nonsymbolic.
  - exact gen_emits_complete. - exact gen_emits_only_nonsymbolic.
Qed.

Lemma path_load_code :
  forall (key val : Type) (kden : env -> key -> Z) (evalv : env -> val -> Z) (orc : key -> key -> tri)
         (kval : key -> bool) (emits : bool -> bool -> bool) (I : aref -> Z -> Z) (e : env),
    emits = sol_load_emits_empty \/ emits = gen_load_emits_empty ->
    forall (s : pstate key val) (c : chunkid) (k : key), pwf key val s ->
      (forall ax, In ax (p_path key val (snd (pload key val orc kval emits s c k))) -> holds key val kden evalv I e ax) ->
      evalp key val kden evalv I e (fst (pload key val orc kval emits s c k)) =
      evalr key val kden evalv (fun c i => I (AEmpty c) i) e (p_symbolic key val s) (load key val orc (abs key val s) c k).
Proof.
  intros key val kden evalv orc kval emits I e Hg s c k W Hp.
  exact (path_load_sound key val kden evalv orc kval emits I e (proj1 (code_guard_ok emits Hg)) s c k W Hp).
Qed.

Lemma path_seq_code :
  forall (key val : Type) (kden : env -> key -> Z) (evalv : env -> val -> Z) (orc : key -> key -> tri)
         (kval : key -> bool) (emits : bool -> bool -> bool) (adm : env -> Prop),
    emits = sol_load_emits_empty \/ emits = gen_load_emits_empty ->
    (forall a b, orc a b = MustEq -> forall e, adm e -> kden e a = kden e b) ->
    (forall a b, orc a b = MustNeq -> forall e, adm e -> kden e a <> kden e b) ->
    forall (H : Z -> Z -> Z) (decode : loc -> res (chunkid * key)) (e : env) (fam : list loc) (ops : list (op val)),
      adm e -> faithful_on key kden H decode e fam ->
      (forall o, In o ops -> In (op_loc val o) fam) ->
      forall I : aref -> Z -> Z,
        (forall ax, In ax (p_path key val (snd (prun key val orc kval emits decode (p_empty key val) ops))) ->
           holds key val kden evalv I e ax) ->
        map (evalp key val kden evalv I e) (fst (prun key val orc kval emits decode (p_empty key val) ops)) =
        ref_run H e val evalv fempty ops.
Proof.
  intros key val kden evalv orc kval emits adm Hg Oe On.
  exact (path_seq_from_empty key val kden evalv orc kval emits adm Oe On (proj1 (code_guard_ok emits Hg))).
Qed.

Lemma path_model_code :
  forall (key val : Type) (kden : env -> key -> Z) (evalv : env -> val -> Z) (orc : key -> key -> tri)
         (kval : key -> bool) (emits : bool -> bool -> bool),
    emits = sol_load_emits_empty \/ emits = gen_load_emits_empty ->
    forall (decode : loc -> res (chunkid * key)) (e : env) (sym : bool) (ops : list (op val))
           (init : chunkid -> Z -> Z),
      (sym = false -> forall c i, init c i = 0) ->
      exists I : aref -> Z -> Z,
        (forall c i, I (AEmpty c) i = init c i) /\
        (forall ax, In ax (p_path key val (snd (prun key val orc kval emits decode (p_start key val sym) ops))) ->
           holds key val kden evalv I e ax).
Proof.
  intros key val kden evalv orc kval emits Hg.
  exact (path_run_has_model key val kden evalv orc kval emits (proj2 (code_guard_ok emits Hg))).
Qed.

(* ================================================================== concrete instances (real Keccak) *)
(* stored values are plain numbers; keys denote concat(keys) under the real hash *)
Definition evalZ (e : env) (v : Z) : Z := v.
Definition init0 (c : chunkid) (k : Z) : Z := 0.
Definition sol_kden (e : env) (ks : list kt) : Z := keys_val Hkeccak e ks.
Definition sol_evalr (e : env) (sym : bool) (r : lres (list kt) Z) : Z := evalr (list kt) Z sol_kden evalZ init0 e sym r.

Definition env1 : env := fun _ => 1.
Definition h100000 : Z := 33885368203429628458171302236189054551285805512406199895980978075809688476599.
Definition h4 : Z := 62514009886607029107290561805838585334079798074568712924583230797734656856475.
Definition slot_hi : Z := 17573.   (* keccak(slot_hi) mod 2^16 = 0xffff *)

(* F4: store through the constant keccak(100000) before the hash is registered, register it
   (a run-time SHA3 of 100000), load the same constant: the model -- like the code -- answers 0 *)
Definition f4_entry : rentry := {| r_hash := h100000; r_bits := 256; r_pre := 100000 |}.
Definition f4_after (orc : list kt -> list kt -> tri) : res Z :=
  bind (sol_store Z reg_empty (st_empty (list kt) Z) (K h100000) 66)
    (fun s => bind (register reg_empty f4_entry)
      (fun R' => bind (sol_load Z orc R' s (K h100000)) (fun r => Ok (sol_evalr env1 false r)))).

Lemma f4_witness :
  Hkeccak 256 100000 = h100000 /\
  sol_decode reg_empty (K h100000) = Ok ((h100000, 0, 0), []) /\
  (forall R', register reg_empty f4_entry = Ok R' -> sol_decode R' (K h100000) = Ok ((100000, 1, 256), [KW [K 0]])) /\
  (forall orc, f4_after orc = Ok 0) /\
  ref_run Hkeccak env1 Z evalZ fempty [OStore (K h100000) 66; OLoad (K h100000)] = [66].
Proof.
  split; [vm_compute; reflexivity|]. split; [vm_compute; reflexivity|].
  split; [intros R' E; vm_compute in E; inversion E; subst; vm_compute; reflexivity|].
  split; [intros orc; vm_compute; reflexivity|]. vm_compute. reflexivity.
Qed.

(* bucket crossing: keccak(slot_hi) ends in 0xffff, so keccak(slot_hi)+1 written as a constant
   is not found although the hash is registered: element 1 of the array at slot_hi has two
   decodings *)
Definition hi_entry : rentry := {| r_hash := Hkeccak 256 slot_hi; r_bits := 256; r_pre := slot_hi |}.
Lemma bucket_witness :
  exists R, register reg_empty hi_entry = Ok R /\
    eval Hkeccak env1 (K (Hkeccak 256 slot_hi + 1)) = eval Hkeccak env1 (Add [Sha256 (K slot_hi); V 0]) /\
    sol_decode R (Add [Sha256 (K slot_hi); V 0]) = Ok ((slot_hi, 1, 256), [KW [K 0; V 0]]) /\
    sol_decode R (K (Hkeccak 256 slot_hi)) = Ok ((slot_hi, 1, 256), [KW [K 0]]) /\
    sol_decode R (K (Hkeccak 256 slot_hi + 1)) = Ok ((Hkeccak 256 slot_hi + 1, 0, 0), []).
Proof.
  destruct (register reg_empty hi_entry) as [R|c] eqn:E; [|vm_compute in E; discriminate].
  exists R. split; [reflexivity|]. vm_compute in E. inversion E; subst.
  repeat split; vm_compute; reflexivity.
Qed.

(* generic layout: (keccak(4) - 1) + n with n = 1 is the slot keccak(4), but the decoded
   513-bit terms differ (the 256-bit addend 2^256-1 is zero-extended, the carry is kept) *)
Lemma generic_negative_witness :
  eval Hkeccak env1 (K h4) = eval Hkeccak env1 (Add [K (h4 - 1); V 0]) /\
  decode_gen precomputed reg_empty env1 FUEL (K h4) = Ok (513, 4 * 2 ^ 257) /\
  decode_gen precomputed reg_empty env1 FUEL (Add [K (h4 - 1); V 0]) = Ok (513, 4 * 2 ^ 257 + 2 ^ 256).
Proof. repeat split; vm_compute; reflexivity. Qed.

(* the same spelling is fine in the solidity layout (keys are added modulo 2^256) *)
Lemma solidity_negative_ok :
  sol_decode reg_empty (Add [K (h4 - 1); V 0]) = Ok ((4, 1, 256), [KW [K 0; K (2 ^ 256 - 1); V 0]]) /\
  sol_kden env1 [KW [K 0; K (2 ^ 256 - 1); V 0]] = 0.
Proof. split; vm_compute; reflexivity. Qed.

(* ================================================================== hash range vs array bound *)
(* the range sha3_data enforces on concrete hashes / assumes for symbolic ones leaves room for
   every offset below the dynamic-array bound: hash + offset neither wraps nor is 0 *)
Lemma pow256_lit : 2 ^ 256 = 115792089237316195423570985008687907853269984665640564039457584007913129639936.
Proof. reflexivity. Qed.
Lemma pow64_lit : 2 ^ 64 = 18446744073709551616.
Proof. reflexivity. Qed.

Lemma range_no_wrap : forall h off,
  0 <= h -> sha3_hash_out_of_range h = false -> 0 <= off < dyn_array_max_offset ->
  0 < h + off < 2 ^ 256.
Proof.
  intros h off Hh Hr Ho. unfold sha3_hash_out_of_range, dyn_array_max_offset in *.
  rewrite ?pow256_lit, ?pow64_lit in *. lia.
Qed.

Lemma sym_range_no_wrap : forall h off,
  0 < h <= sha3_sym_upper -> 0 <= off < dyn_array_max_offset -> 0 < h + off < 2 ^ 256.
Proof.
  intros h off Hh Ho. unfold sha3_sym_upper, dyn_array_max_offset in *.
  rewrite ?pow256_lit, ?pow64_lit in *. lia.
Qed.

(* ================================================================== mixed key widths alias *)
(* mapping(bytes => mapping(bytes => uint)) m at slot 1:  m[hex"ab"][hex"00cd"]  and
   m[hex"ab00"][hex"cd"] are different EVM slots, but decode to the same chunk
   (1, 4 keys, 536 bits) with the same concatenated key *)
Definition env_mixed : env := fun i => match i with 0%nat => 171 | 1%nat => 205 | 2%nat => 43776 | _ => 205 end.
Definition mixed1 : loc := ShaN 16 (NKv 1) (ShaN 8 (NKv 0) (K 1)).
Definition mixed2 : loc := ShaN 8 (NKv 3) (ShaN 16 (NKv 2) (K 1)).
Lemma mixed_width_witness :
  exists k1 k2,
    sol_decode reg_empty mixed1 = Ok ((1, 4, 536), k1) /\
    sol_decode reg_empty mixed2 = Ok ((1, 4, 536), k2) /\
    sol_kden env_mixed k1 = sol_kden env_mixed k2 /\
    eval Hkeccak env_mixed mixed1 <> eval Hkeccak env_mixed mixed2.
Proof.
  eexists. eexists. split; [vm_compute; reflexivity|]. split; [vm_compute; reflexivity|].
  split; [vm_compute; reflexivity|]. vm_compute. discriminate.
Qed.

(* ================================================================== a concrete faithful family *)
(* scalar slot 0, mapping element m[v0] (m at slot 1) with a struct offset, array element
   a[v1] (a at slot 2) spelled through the precomputed constant keccak(2), and the same
   array element spelled through the run-time hash *)
Definition h2 : Z := 29102676481673041902632991033461445430619272659676223336789171408008386403022.
Definition fam_ex : list loc :=
  [K 0; Add [Sha512 (V 0) (K 1); K 1]; Add [K h2; V 1]; Add [V 1; Sha256 (K 2)]].
Definition orc_ex (a b : list kt) : tri := if sol_kden env1 a =? sol_kden env1 b then MustEq else MustNeq.
Definition adm_ex (e : env) : Prop := e = env1.

Lemma orc_ex_eq : forall a b, orc_ex a b = MustEq -> forall e, adm_ex e -> sol_kden e a = sol_kden e b.
Proof.
  intros a b O e ->. unfold orc_ex in O.
  destruct (sol_kden env1 a =? sol_kden env1 b) eqn:E; [apply Z.eqb_eq in E; exact E | discriminate].
Qed.
Lemma orc_ex_neq : forall a b, orc_ex a b = MustNeq -> forall e, adm_ex e -> sol_kden e a <> sol_kden e b.
Proof.
  intros a b O e ->. unfold orc_ex in O.
  destruct (sol_kden env1 a =? sol_kden env1 b) eqn:E; [discriminate | apply Z.eqb_neq in E; exact E].
Qed.

Ltac faithful_pair :=
  eexists; eexists; split; [vm_compute; reflexivity|]; split; [vm_compute; reflexivity|];
  vm_compute; split; (let E := fresh "E" in intro E; first [reflexivity | discriminate E]).

Lemma fam_ex_faithful : faithful_on (list kt) sol_kden Hkeccak (sol_decode reg_empty) env1 fam_ex.
Proof.
  intros l l' Hl Hl'. unfold fam_ex in Hl, Hl'. cbn [In] in Hl, Hl'.
  destruct Hl as [<-|[<-|[<-|[<-|[]]]]]; destruct Hl' as [<-|[<-|[<-|[<-|[]]]]]; faithful_pair.
Qed.

Lemma seq_example :
  model_run (list kt) Z sol_kden evalZ orc_ex init0 (sol_decode reg_empty) env1 (st_empty (list kt) Z)
    [OStore (Add [K h2; V 1]) 7; OStore (K 0) 8; OLoad (Add [V 1; Sha256 (K 2)]);
     OStore (Add [Sha512 (V 0) (K 1); K 1]) 9; OLoad (K 0); OLoad (Add [K h2; V 1]); OLoad (Add [Sha512 (V 0) (K 1); K 1])]
  = [7; 8; 7; 9].
Proof.
  rewrite (seq_from_empty (list kt) Z sol_kden evalZ orc_ex init0 adm_ex orc_ex_eq orc_ex_neq Hkeccak
             (sol_decode reg_empty) env1 fam_ex).
  - vm_compute. reflexivity.
  - reflexivity.
  - exact fam_ex_faithful.
  - intros o Ho. cbn [In] in Ho. unfold fam_ex.
    repeat (destruct Ho as [<-|Ho]; [cbn [op_loc In]; tauto|]). destruct Ho.
Qed.

(* the same program at the path level, through the real solidity decoder and the code's guard:
   whatever interpretation of the array terms satisfies the path the run leaves, the returned
   terms evaluate to the EVM's answers *)
Definition ops_ex : list (op Z) :=
  [OStore (Add [K h2; V 1]) 7; OStore (K 0) 8; OLoad (Add [V 1; Sha256 (K 2)]);
   OStore (Add [Sha512 (V 0) (K 1); K 1]) 9; OLoad (K 0); OLoad (Add [K h2; V 1]); OLoad (Add [Sha512 (V 0) (K 1); K 1])].
Lemma ops_ex_in_fam : forall o, In o ops_ex -> In (op_loc Z o) fam_ex.
Proof.
  intros o Ho. unfold ops_ex in Ho. cbn [In] in Ho. unfold fam_ex.
  repeat (destruct Ho as [<-|Ho]; [cbn [op_loc In]; tauto|]). destruct Ho.
Qed.
Lemma path_seq_example : forall I : aref -> Z -> Z,
  (forall ax, In ax (p_path (list kt) Z (snd (sol_prun Z orc_ex reg_empty (p_empty (list kt) Z) ops_ex))) ->
     holds (list kt) Z sol_kden evalZ I env1 ax) ->
  map (evalp (list kt) Z sol_kden evalZ I env1) (fst (sol_prun Z orc_ex reg_empty (p_empty (list kt) Z) ops_ex)) = [7; 8; 7; 9].
Proof.
  intros I Hp. unfold sol_prun in *.
  rewrite (path_seq_code (list kt) Z sol_kden evalZ orc_ex sol_key_is_value sol_load_emits_empty adm_ex
             (or_introl eq_refl) orc_ex_eq orc_ex_neq Hkeccak (sol_decode reg_empty) env1 fam_ex ops_ex
             eq_refl fam_ex_faithful ops_ex_in_fam I Hp).
  vm_compute. reflexivity.
Qed.

(* ================================================================== narrow constant keys *)
(* mapping(bytes => uint) m at slot 5: m[hex"0000"] computed concretely is the constant
   keccak(0x0000 . 5); its registered term f_sha3_272(const) is not decoded (no Concat left),
   int_of substitutes the hash back, and the location becomes a scalar slot; the same element
   reached with a symbolic key (v1 = 0) is (5, [k16; 0]) *)
Definition narrow_pre : Z := 5.   (* 0x0000 . uint256(5) *)
Definition narrow_entry : rentry := {| r_hash := Hkeccak 272 narrow_pre; r_bits := 272; r_pre := narrow_pre |}.
Definition env0 : env := fun _ => 0.
Lemma narrow_constant_witness :
  exists R, register reg_empty narrow_entry = Ok R /\
    eval Hkeccak env0 (K (Hkeccak 272 narrow_pre)) = eval Hkeccak env0 (ShaN 16 (NKv 1) (K 5)) /\
    sol_decode R (K (Hkeccak 272 narrow_pre)) = Ok ((Hkeccak 272 narrow_pre, 0, 0), []) /\
    sol_decode R (ShaN 16 (NKv 1) (K 5)) = Ok ((5, 2, 272), [KN 16 (NKv 1); KW [K 0]]).
Proof.
  destruct (register reg_empty narrow_entry) as [R|c] eqn:E; [|vm_compute in E; discriminate].
  exists R. split; [reflexivity|]. vm_compute in E. inversion E; subst.
  repeat split; vm_compute; reflexivity.
Qed.

(* ================================================================== generic layout: hash-valued keys *)
(* mapping(bytes32 => uint[]) m at slot 0: the length slot of m[keccak(2)] and element 0 of
   m[2] are different EVM slots with the same generic encoding (1026 bits, 2 * 2^770) *)
Lemma generic_hash_key_witness :
  eval Hkeccak env0 (Sha512 (Sha256 (K 2)) (K 0)) <> eval Hkeccak env0 (Sha256 (Sha512 (K 2) (K 0))) /\
  decode_gen precomputed reg_empty env0 FUEL (Sha512 (Sha256 (K 2)) (K 0)) = Ok (1026, 2 * 2 ^ 770) /\
  decode_gen precomputed reg_empty env0 FUEL (Sha256 (Sha512 (K 2) (K 0))) = Ok (1026, 2 * 2 ^ 770).
Proof. split; [vm_compute; discriminate|]. split; vm_compute; reflexivity. Qed.

(* ================================================================== the undecided store *)
(* m[v0] = 7 (m at slot 1), then a load of m[5], the solver not deciding v0 = 5: select stops
   at the store and the load returns Select(<array variable 1>, key 5); its value for
   v0 <> 5 comes from the two axioms the run left in the path *)
Definition orc_unknown (a b : list kt) : tri := Unknown.
Definition key_m (t : loc) : list kt := [KW [t]; KW [K 0]].
Lemma undecided_example :
  sol_prun Z orc_unknown reg_empty (p_empty (list kt) Z)
    [OStore (Sha512 (V 0) (K 1)) 7; OLoad (Sha512 (K 5) (K 1))] =
  ([PSelect (AVar 1) (key_m (K 5))],
   {| p_symbolic := false; p_mapping := [((1, 2, 512), PArr (AVar 1))];
      p_storages := [(1%nat, (AEmpty (1, 2, 512), key_m (V 0), 7))];
      p_path := [AxEmpty (1, 2, 512) (key_m (K 5)); AxDef 1 (AEmpty (1, 2, 512)) (key_m (V 0)) 7] |}).
Proof. vm_compute. reflexivity. Qed.
