(* Proofs about Model/ForkModel.v: the state cheatcodes are confined to the path that
   executed them, for every program tree. *)
From Coq Require Import ZArith NArith List Bool Lia.
From HV Require Import Gen.GenCheatSelectors Gen.GenCopies Model.CheatModel Model.ForkModel.
Import ListNotations.
Open Scope Z_scope.

(* ---------------------------------------------------------------- the regenerated table *)
(* what SEVM.create_branch does with the four components the state cheatcodes act on *)
Lemma kinds_ok : copied block_kind && deep_copied storage_kind && copied code_kind = true.
Proof. vm_compute. reflexivity. Qed.

Lemma block_copied : copied block_kind = true.
Proof. pose proof kinds_ok as H. repeat (apply andb_true_iff in H; destruct H as [H ?]). assumption. Qed.
Lemma storage_deep : deep_copied storage_kind = true.
Proof. pose proof kinds_ok as H. apply andb_true_iff in H. destruct H as [H _].
  apply andb_true_iff in H. destruct H as [_ H]. exact H. Qed.
Lemma code_copied : copied code_kind = true.
Proof. pose proof kinds_ok as H. apply andb_true_iff in H. destruct H as [_ H]. exact H. Qed.

(* ---------------------------------------------------------------- lists as heaps *)
Lemma upd_length : forall A (l : list A) n a, length (upd l n a) = length l.
Proof. induction l as [|x t IH]; intros [|n] a; cbn; auto. Qed.

Lemma nth_upd_same : forall A (l : list A) n a d, (n < length l)%nat -> nth n (upd l n a) d = a.
Proof.
  induction l as [|x t IH]; intros [|n] a d H; cbn in *; try lia; auto. apply IH. lia.
Qed.

Lemma nth_upd_other : forall A (l : list A) n m a d, n <> m -> nth m (upd l n a) d = nth m l d.
Proof.
  induction l as [|x t IH]; intros [|n] [|m] a d H; cbn; auto; try congruence.
Qed.

Lemma nth_snoc_old : forall A (l : list A) a i d, (i < length l)%nat -> nth i (l ++ [a]) d = nth i l d.
Proof. intros. apply app_nth1. assumption. Qed.

Lemma nth_snoc_new : forall A (l : list A) a d, nth (length l) (l ++ [a]) d = a.
Proof. intros. rewrite app_nth2 by lia. rewrite Nat.sub_diag. reflexivity. Qed.

(* ---------------------------------------------------------------- views *)
Definition wfx (h : heaps) (x : exec) : Prop :=
  (xb x < length (hb h))%nat /\ (xs x < length (hs h))%nat /\ (xc x < length (hc h))%nat.

Lemma view_blk : forall h x, blk_of (view h x) = nth (xb x) (hb h) zero_block.
Proof. intros h x. unfold view. destruct (nth (xb x) (hb h) zero_block) as [[[[[a b] c] d] e] f]. reflexivity. Qed.
Lemma view_storage : forall h x, mw_storage (view h x) = nth (xs x) (hs h) [].
Proof. intros h x. unfold view. destruct (nth (xb x) (hb h) zero_block) as [[[[[a b] c] d] e] f]. reflexivity. Qed.
Lemma view_code : forall h x, mw_code (view h x) = nth (xc x) (hc h) [].
Proof. intros h x. unfold view. destruct (nth (xb x) (hb h) zero_block) as [[[[[a b] c] d] e] f]. reflexivity. Qed.
Lemma view_balance : forall h x, mw_balance (view h x) = xbal x.
Proof. intros h x. unfold view. destruct (nth (xb x) (hb h) zero_block) as [[[[[a b] c] d] e] f]. reflexivity. Qed.

Lemma world_eq : forall w w',
  blk_of w = blk_of w' -> mw_storage w = mw_storage w' -> mw_code w = mw_code w' ->
  mw_balance w = mw_balance w' -> w = w'.
Proof.
  intros [] [] Hb Hs Hc Hl. unfold blk_of in Hb. cbn in *. inversion Hb. subst. reflexivity.
Qed.

Lemma view_eq : forall h x w,
  nth (xb x) (hb h) zero_block = blk_of w -> nth (xs x) (hs h) [] = mw_storage w ->
  nth (xc x) (hc h) [] = mw_code w -> xbal x = mw_balance w -> view h x = w.
Proof.
  intros h x w Hb Hs Hc Hl. apply world_eq.
  - rewrite view_blk. exact Hb.
  - rewrite view_storage. exact Hs.
  - rewrite view_code. exact Hc.
  - rewrite view_balance. exact Hl.
Qed.

(* two states of the object store: it only grows, and below the old size only the objects
   (b, s, c) may differ *)
Definition ext (h h' : heaps) (b s c : nat) : Prop :=
  (length (hb h) <= length (hb h'))%nat /\ (length (hs h) <= length (hs h'))%nat /\
  (length (hc h) <= length (hc h'))%nat /\
  (forall i, i <> b -> (i < length (hb h))%nat -> nth i (hb h') zero_block = nth i (hb h) zero_block) /\
  (forall i, i <> s -> (i < length (hs h))%nat -> nth i (hs h') [] = nth i (hs h) []) /\
  (forall i, i <> c -> (i < length (hc h))%nat -> nth i (hc h') [] = nth i (hc h) []).

Lemma ext_refl : forall h b s c, ext h h b s c.
Proof. intros. unfold ext. repeat split; auto. Qed.

Lemma ext_trans : forall h1 h2 h3 b s c, ext h1 h2 b s c -> ext h2 h3 b s c -> ext h1 h3 b s c.
Proof.
  intros h1 h2 h3 b s c (A1 & A2 & A3 & A4 & A5 & A6) (B1 & B2 & B3 & B4 & B5 & B6).
  unfold ext. repeat split; try lia.
  - intros i Hi Hl. rewrite B4 by (auto; lia). apply A4; auto.
  - intros i Hi Hl. rewrite B5 by (auto; lia). apply A5; auto.
  - intros i Hi Hl. rewrite B6 by (auto; lia). apply A6; auto.
Qed.

(* an Exec whose objects are not (b, s, c) reads the same before and after *)
Lemma view_ext : forall h h' b s c y,
  ext h h' b s c -> wfx h y -> xb y <> b -> xs y <> s -> xc y <> c -> view h' y = view h y.
Proof.
  intros h h' b s c y (A1 & A2 & A3 & A4 & A5 & A6) (W1 & W2 & W3) Nb Ns Nc.
  apply view_eq.
  - rewrite view_blk. apply A4; auto.
  - rewrite view_storage. apply A5; auto.
  - rewrite view_code. apply A6; auto.
  - rewrite view_balance. reflexivity.
Qed.

Lemma wfx_ext : forall h h' b s c y, ext h h' b s c -> wfx h y -> wfx h' y.
Proof. intros h h' b s c y (A1 & A2 & A3 & _) (W1 & W2 & W3). unfold wfx. lia. Qed.

(* ---------------------------------------------------------------- one item, in place *)
(* which components a cheatcode leaves alone *)
Lemma do_cheat_frame : forall w c w' r, do_cheat w c = SDone w' r ->
  match c with
  | Deal _ _ => blk_of w' = blk_of w /\ mw_storage w' = mw_storage w /\ mw_code w' = mw_code w
  | Store _ _ _ => blk_of w' = blk_of w /\ mw_balance w' = mw_balance w /\ mw_code w' = mw_code w
  | Load _ _ => w' = w
  | Etch _ _ => blk_of w' = blk_of w /\ mw_balance w' = mw_balance w /\ mw_storage w' = mw_storage w
  | _ => mw_balance w' = mw_balance w /\ mw_storage w' = mw_storage w /\ mw_code w' = mw_code w
  end.
Proof.
  intros w c w' r H. destruct c; unfold do_cheat in H;
    repeat match type of H with context [if ?b then _ else _] => destruct b end;
    try discriminate; inversion H; subst; repeat split.
Qed.

(* reads return the world unchanged *)
Lemma item_fun_read : forall w i w' o, item_fun w i = IOk w' o ->
  match i with ICheat _ => True | _ => w' = w end.
Proof.
  intros w i w' o H. destruct i; cbn in H; auto; try (inversion H; subst; reflexivity).
  destruct (read_balance_checked w a); inversion H; subst; reflexivity.
Qed.

Lemma commit_ok : forall h x i w' o h' x',
  wfx h x -> item_fun (view h x) i = IOk w' o -> commit h x i w' = (h', x') ->
  view h' x' = w' /\ wfx h' x' /\ ext h h' (xb x) (xs x) (xc x) /\
  xb x' = xb x /\ xs x' = xs x /\ xc x' = xc x.
Proof.
  intros h x i w' o h' x' (W1 & W2 & W3) Hi Hc.
  destruct i as [c|a|a s|a| | | | | | |v];
    try (apply item_fun_read in Hi; cbn in Hc; inversion Hc; subst;
         repeat split; auto; apply ext_refl).
  cbn in Hi. destruct (do_cheat (view h x) c) as [| |w1 r] eqn:Ed; try discriminate.
  assert (w1 = w') by (destruct r; inversion Hi; reflexivity). subst w1. clear Hi.
  pose proof (do_cheat_frame _ _ _ _ Ed) as Hf.
  destruct c; cbn in Hc; inversion Hc; subst; clear Hc.
  (* warp roll fee chainId coinbase difficulty: the Block object, in place *)
  5-10: solve [ destruct Hf as (Fl & Fs & Fc); (split; [|split; [|split; [|auto]]]);
      [ apply view_eq; cbn;
        [ apply nth_upd_same; exact W1
        | rewrite Fs; symmetry; apply view_storage
        | rewrite Fc; symmetry; apply view_code
        | rewrite Fl; symmetry; apply view_balance ]
      | unfold wfx; cbn; rewrite upd_length; auto
      | unfold ext; cbn; rewrite upd_length; repeat split; auto;
        intros i Hne Hl; apply nth_upd_other; congruence ] ].
  - (* deal: rebinding *)
    destruct Hf as (Fb & Fs & Fc). split; [|repeat split; auto; apply ext_refl].
    apply view_eq; cbn.
    + rewrite Fb. symmetry. apply view_blk.
    + rewrite Fs. symmetry. apply view_storage.
    + rewrite Fc. symmetry. apply view_code.
    + reflexivity.
  - (* store: the storage object, in place *)
    destruct Hf as (Fb & Fl & Fc). split; [|split; [|split; [|auto]]].
    + apply view_eq; cbn.
      * rewrite Fb. symmetry. apply view_blk.
      * apply nth_upd_same. exact W2.
      * rewrite Fc. symmetry. apply view_code.
      * rewrite Fl. symmetry. apply view_balance.
    + unfold wfx; cbn. rewrite upd_length. auto.
    + unfold ext; cbn. rewrite upd_length. repeat split; auto.
      intros i Hne Hl. apply nth_upd_other. congruence.
  - (* load *)
    repeat split; auto; apply ext_refl.
  - (* etch: the code dict, in place *)
    destruct Hf as (Fb & Fl & Fs). split; [|split; [|split; [|auto]]].
    + apply view_eq; cbn.
      * rewrite Fb. symmetry. apply view_blk.
      * rewrite Fs. symmetry. apply view_storage.
      * apply nth_upd_same. exact W3.
      * rewrite Fl. symmetry. apply view_balance.
    + unfold wfx; cbn. rewrite upd_length. auto.
    + unfold ext; cbn. rewrite upd_length. repeat split; auto.
      intros i Hne Hl. apply nth_upd_other. congruence.
Qed.

(* every arm of hevm_cheat_code.handle listed in the regenerated table does what the model's
   cheat for that selector does: exactly that attribute of the Block becomes the supplied word
   (its low 160 bits where the source says uint160), nothing else of the world changes *)
Theorem block_handlers_in_place : forall sel f trunc, In (sel, f, trunc) block_handlers -> forall w x,
  exists c w' i,
    cheat_of_selector sel x = Some c /\ do_cheat w c = SDone w' None /\ field_index f = Some i /\
    blk_list w' = upd (blk_list w) i (if trunc then u160 x else x) /\
    mw_balance w' = mw_balance w /\ mw_storage w' = mw_storage w /\ mw_code w' = mw_code w.
Proof.
  intros sel f trunc Hin w x. unfold block_handlers in Hin. cbn [In] in Hin.
  (* six arms (block_handlers_cover); a [reflexivity] that fails here names the arm of
     hevm_cheat_code.handle that no longer assigns the attribute the model's cheat sets *)
  destruct Hin as [Hin|[Hin|[Hin|[Hin|[Hin|[Hin|[]]]]]]];
    inversion Hin; subst; clear Hin; eexists; eexists; eexists;
    (split; [reflexivity|split; [reflexivity|split; [reflexivity|split; [reflexivity|repeat split]]]]).
Qed.

Lemma block_handlers_cover :
  forallb (fun s => existsb (fun e => N.eqb (fst (fst e)) s) block_handlers)
          [fee_sig; chainid_sig; coinbase_sig; difficulty_sig; roll_sig; warp_sig] = true /\
  length block_handlers = 6%nat.
Proof. split; vm_compute; reflexivity. Qed.

(* ---------------------------------------------------------------- create_branch *)
Section Kinds.
Variables kb ks kc : copykind.
Hypothesis Hkb : copied kb = true.
Hypothesis Hks : deep_copied ks = true.
Hypothesis Hkc : copied kc = true.

Lemma branch_ok : forall h x h1 y, wfx h x -> branch_with kb ks kc h x = (h1, y) ->
  view h1 y = view h x /\ view h1 x = view h x /\ wfx h1 x /\ wfx h1 y /\
  (length (hb h) <= xb y)%nat /\ (length (hs h) <= xs y)%nat /\ (length (hc h) <= xc y)%nat /\
  (forall b s c, ext h h1 b s c).
Proof.
  intros h x h1 y (W1 & W2 & W3) Hbr. unfold branch_with in Hbr.
  rewrite Hkb, Hks, Hkc in Hbr. inversion Hbr; subst; clear Hbr.
  assert (E : forall b s c, ext h {| hb := hb h ++ [nth (xb x) (hb h) zero_block];
                                     hs := hs h ++ [nth (xs x) (hs h) []];
                                     hc := hc h ++ [nth (xc x) (hc h) []] |} b s c).
  { intros b s c. unfold ext; cbn. rewrite !app_length; cbn. repeat split; try lia.
    - intros i _ Hl. apply nth_snoc_old. exact Hl.
    - intros i _ Hl. apply nth_snoc_old. exact Hl.
    - intros i _ Hl. apply nth_snoc_old. exact Hl. }
  split; [|split; [|split; [|split]]].
  - apply view_eq; cbn.
    + rewrite nth_snoc_new. symmetry. apply view_blk.
    + rewrite nth_snoc_new. symmetry. apply view_storage.
    + rewrite nth_snoc_new. symmetry. apply view_code.
    + symmetry. apply view_balance.
  - apply view_eq; cbn.
    + rewrite nth_snoc_old by exact W1. symmetry. apply view_blk.
    + rewrite nth_snoc_old by exact W2. symmetry. apply view_storage.
    + rewrite nth_snoc_old by exact W3. symmetry. apply view_code.
    + symmetry. apply view_balance.
  - unfold wfx; cbn. rewrite !app_length; cbn. lia.
  - unfold wfx; cbn. rewrite !app_length; cbn. lia.
  - split; [cbn; lia|split; [cbn; lia|split; [cbn; lia|exact E]]].
Qed.

(* ---------------------------------------------------------------- the whole tree *)
Lemma run_sound : forall t h x acc h' outs,
  wfx h x -> run_with kb ks kc h x t acc = (h', outs) ->
  outs = spec_run (view h x) t acc /\ ext h h' (xb x) (xs x) (xc x).
Proof.
  induction t as [|i k IH|a IHa b IHb]; intros h x acc h' outs W Hr; cbn [run_with] in Hr.
  - inversion Hr; subst. split; [reflexivity|apply ext_refl].
  - cbn [spec_run]. destruct (item_fun (view h x) i) as [o|w' o] eqn:Ei.
    + inversion Hr; subst. split; [reflexivity|apply ext_refl].
    + destruct (commit h x i w') as [h1 x1] eqn:Ec.
      destruct (commit_ok _ _ _ _ _ _ _ W Ei Ec) as (Hv & W1 & E1 & Rb & Rs & Rc).
      destruct (IH _ _ _ _ _ W1 Hr) as [Ho E2]. rewrite Hv in Ho. split; [exact Ho|].
      rewrite Rb, Rs, Rc in E2. eapply ext_trans; eassumption.
  - destruct (branch_with kb ks kc h x) as [h1 y] eqn:Eb.
    destruct (run_with kb ks kc h1 x a acc) as [h2 oa] eqn:Ea.
    destruct (run_with kb ks kc h2 y b acc) as [h3 ob] eqn:Eob.
    inversion Hr; subst; clear Hr.
    destruct (branch_ok _ _ _ _ W Eb) as (Vy & Vx & Wx1 & Wy1 & Lb & Ls & Lc & E01).
    destruct W as (W1 & W2 & W3).
    destruct (IHa _ _ _ _ _ Wx1 Ea) as [Hoa E12].
    assert (Wy2 : wfx h2 y) by (eapply wfx_ext; eassumption).
    destruct (IHb _ _ _ _ _ Wy2 Eob) as [Hob E23].
    assert (Vy2 : view h2 y = view h x).
    { rewrite <- Vy. eapply view_ext; [exact E12|exact Wy1| | |]; lia. }
    cbn [spec_run]. split.
    + rewrite Hoa, Hob, Vx, Vy2. reflexivity.
    + (* below the old size the jump side's objects do not exist: nothing old changed but x's *)
      destruct (E01 (xb x) (xs x) (xc x)) as (B1 & B2 & B3 & B4 & B5 & B6).
      destruct E12 as (C1 & C2 & C3 & C4 & C5 & C6).
      destruct E23 as (A1 & A2 & A3 & A4 & A5 & A6).
      unfold ext. repeat split; try lia.
      * intros i Hne Hl. rewrite A4 by lia. rewrite C4 by (auto; lia). apply B4; auto.
      * intros i Hne Hl. rewrite A5 by lia. rewrite C5 by (auto; lia). apply B5; auto.
      * intros i Hne Hl. rewrite A6 by lia. rewrite C6 by (auto; lia). apply B6; auto.
Qed.

(* isolation for ANY create_branch that gives the jump side a new Block object, a deep copy
   of the storage and a new code dict *)
Theorem fork_isolation_kinds : forall t h x,
  wfx h x -> snd (run_with kb ks kc h x t []) = spec_run (view h x) t [].
Proof.
  intros t h x W. destruct (run_with kb ks kc h x t []) as [h' outs] eqn:E.
  destruct (run_sound _ _ _ _ _ _ W E) as [H _]. exact H.
Qed.
End Kinds.

(* THE ISOLATION THEOREM for halmos as it is: for every program tree, every heap and every
   Exec whose references are valid, the outputs of the paths of the worklist run -- objects with
   identity, in-place mutation, create_branch as regenerated from sevm.py -- are those of the
   value semantics, in which a side of a branch cannot see what the other side does *)
Theorem fork_isolation : forall t h x,
  wfx h x -> snd (run h x t []) = spec_run (view h x) t [].
Proof.
  intros t h x W. unfold run.
  apply fork_isolation_kinds; [exact block_copied|exact storage_deep|exact code_copied|exact W].
Qed.

Lemma init_wfx : forall w, wfx (init_heaps w) (init_exec w).
Proof. intros w. unfold wfx; cbn. lia. Qed.

Lemma init_view : forall w, view (init_heaps w) (init_exec w) = w.
Proof. intros w. apply view_eq; reflexivity. Qed.

Theorem fork_isolation_init : forall t w,
  snd (run (init_heaps w) (init_exec w) t []) = spec_run w t [].
Proof. intros t w. rewrite fork_isolation by apply init_wfx. rewrite init_view. reflexivity. Qed.

(* ---------------------------------------------------------------- value semantics = every
   path on its own: each output is the straight-line run of a root-to-leaf item sequence,
   and every root-to-leaf sequence is represented *)
Lemma lin_run_app_ok : forall w i w' o r,
  item_fun w i = IOk w' o -> lin_run w (i :: r) = o ++ lin_run w' r.
Proof. intros w i w' o r H. cbn. rewrite H. reflexivity. Qed.

Lemma paths_nonempty : forall t, paths t <> [].
Proof.
  induction t as [|i k IH|a IHa b IHb]; cbn.
  - discriminate.
  - destruct (paths k); [congruence|discriminate].
  - destruct (paths a); [congruence|discriminate].
Qed.

(* every output is the straight-line run of some root-to-leaf sequence ... *)
Theorem spec_run_sound : forall t w acc out,
  In out (spec_run w t acc) -> exists p, In p (paths t) /\ out = acc ++ lin_run w p.
Proof.
  induction t as [|i k IH|a IHa b IHb]; intros w acc out Hin; cbn in Hin.
  - destruct Hin as [<-|[]]. exists []. split; [left; reflexivity|]. cbn. rewrite app_nil_r. reflexivity.
  - destruct (item_fun w i) as [o|w' o] eqn:Ei.
    + destruct Hin as [<-|[]]. destruct (paths k) as [|p0 ps] eqn:Ep; [exfalso; eapply paths_nonempty; eauto|].
      exists (i :: p0). split; [cbn; rewrite Ep; left; reflexivity|]. cbn. rewrite Ei. reflexivity.
    + destruct (IH _ _ _ Hin) as [p [Hp Ho]]. exists (i :: p). split.
      * cbn. apply in_map. exact Hp.
      * rewrite Ho. cbn. rewrite Ei. rewrite app_assoc. reflexivity.
  - apply in_app_or in Hin. destruct Hin as [Hin|Hin].
    + destruct (IHa _ _ _ Hin) as [p [Hp Ho]]. exists p. split; [cbn; apply in_or_app; left; exact Hp|exact Ho].
    + destruct (IHb _ _ _ Hin) as [p [Hp Ho]]. exists p. split; [cbn; apply in_or_app; right; exact Hp|exact Ho].
Qed.

(* ... and every root-to-leaf sequence is represented by its straight-line run *)
Theorem spec_run_complete : forall t w acc p,
  In p (paths t) -> In (acc ++ lin_run w p) (spec_run w t acc).
Proof.
  induction t as [|i k IH|a IHa b IHb]; intros w acc p Hin; cbn in Hin.
  - destruct Hin as [<-|[]]. cbn. rewrite app_nil_r. left. reflexivity.
  - apply in_map_iff in Hin. destruct Hin as [p' [<- Hp']]. cbn.
    destruct (item_fun w i) as [o|w' o] eqn:Ei.
    + left. reflexivity.
    + rewrite app_assoc. apply IH. exact Hp'.
  - cbn. apply in_or_app. apply in_app_or in Hin. destruct Hin as [Hin|Hin]; [left; apply IHa|right; apply IHb]; exact Hin.
Qed.

(* ---------------------------------------------------------------- and the copies are NEEDED:
   a create_branch that hands one of the three mutable components over by reference (or, for
   the storage, copies only the outer dict) lets the jump side read what the fall-through side
   wrote.  One account (1) with code. *)
Definition w0 : mworld :=
  {| mw_balance := []; mw_storage := []; mw_code := [(1, [0])]; mw_basefee := 0; mw_chainid := 0;
     mw_coinbase := 0; mw_difficulty := 0; mw_number := 0; mw_timestamp := 0 |}.

(* vm.warp(100); if (c) { log block.timestamp } else { vm.warp(300) } *)
Definition leak_block_tree : ftree :=
  FItem (ICheat (Warp 100)) (FFork (FItem (ICheat (Warp 300)) FEnd) (FItem ITimestamp FEnd)).
(* vm.store(1, 5, 7); if (c) { log sload(5) of 1 } else { vm.store(1, 5, 9) } *)
Definition leak_storage_tree : ftree :=
  FItem (ICheat (Store 1 5 7)) (FFork (FItem (ICheat (Store 1 5 9)) FEnd) (FItem (ISload 1 5) FEnd)).
(* if (c) { log extcodesize(2) } else { vm.etch(2, [1;2;3]) } *)
Definition leak_code_tree : ftree :=
  FFork (FItem (ICheat (Etch 2 [1; 2; 3])) FEnd) (FItem (IExtcodesize 2) FEnd).

Definition run0 (kb ks kc : copykind) (t : ftree) : list (list Z) :=
  snd (run_with kb ks kc (init_heaps w0) (init_exec w0) t []).

Theorem shared_block_leaks : forall kb ks kc, copied kb = false ->
  run0 kb ks kc leak_block_tree = [[1; 1]; [1; 300]] /\ spec_run w0 leak_block_tree [] = [[1; 1]; [1; 100]].
Proof. intros kb ks kc H. destruct kb; try discriminate; destruct ks, kc; split; vm_compute; reflexivity. Qed.

Theorem shared_storage_leaks : forall kb ks kc, deep_copied ks = false ->
  run0 kb ks kc leak_storage_tree = [[1; 1]; [1; 9]] /\ spec_run w0 leak_storage_tree [] = [[1; 1]; [1; 7]].
Proof. intros kb ks kc H. destruct ks; try discriminate; destruct kb, kc; split; vm_compute; reflexivity. Qed.

Theorem shared_code_leaks : forall kb ks kc, copied kc = false ->
  run0 kb ks kc leak_code_tree = [[1]; [3]] /\ spec_run w0 leak_code_tree [] = [[1]; [-1]].
Proof. intros kb ks kc H. destruct kc; try discriminate; destruct kb, ks; split; vm_compute; reflexivity. Qed.

(* isolation of the state cheatcodes between sibling paths holds for every program EXACTLY
   when create_branch gives the new Exec its own Block, a deep copy of the storage and its
   own code dict *)
Theorem fork_isolation_iff : forall kb ks kc,
  (forall t w, snd (run_with kb ks kc (init_heaps w) (init_exec w) t []) = spec_run w t []) <->
  copied kb && deep_copied ks && copied kc = true.
Proof.
  intros kb ks kc. split.
  - intros H.
    destruct (copied kb) eqn:Eb.
    2:{ exfalso. destruct (shared_block_leaks kb ks kc Eb) as [A B].
        specialize (H leak_block_tree w0). unfold run0 in A. rewrite A, B in H. discriminate. }
    destruct (deep_copied ks) eqn:Es.
    2:{ exfalso. destruct (shared_storage_leaks kb ks kc Es) as [A B].
        specialize (H leak_storage_tree w0). unfold run0 in A. rewrite A, B in H. discriminate. }
    destruct (copied kc) eqn:Ec; [reflexivity|].
    exfalso. destruct (shared_code_leaks kb ks kc Ec) as [A B].
    specialize (H leak_code_tree w0). unfold run0 in A. rewrite A, B in H. discriminate.
  - intros H t w. apply andb_true_iff in H. destruct H as [H Hc].
    apply andb_true_iff in H. destruct H as [Hb Hs].
    rewrite (fork_isolation_kinds kb ks kc Hb Hs Hc) by apply init_wfx.
    rewrite init_view. reflexivity.
Qed.
