"""T-preregistry: utils.py mk_precomputed_keccak_registry() -> coq/Gen/GenPreRegistry.v

How the OffsetMap that KeccakRegistry.reverse_lookup falls back to is built from the two
tables of hashes.py: for each table, under which key an entry is stored, which hash function
symbol (f_sha3_<N>: preimage width N) is applied, and which PREIMAGE constant it is applied to
(`con(v)` / `con((v1 << 256) + v2, size_bits=512)`: order of the two words, width).
The model's `pre_entries` is built from these definitions, so Props/C08.v (C08_tables_entries:
Keccak-256 of every registry preimage = its key, recomputed in the kernel) speaks about the
code's own assembly of the preimages.

Fail-closed: the function body must be exactly
    m = OffsetMap()
    for <k>, <v-pattern> in <table>.items():  m[<key expr>] = f_sha3_<N>(con(<expr>[, size_bits=<N>]))
    (one such loop per table, any order)
    return m
and the module must bind `precomputed_keccak_registry` to one call of it; sevm.py's
KeccakRegistry.reverse_lookup must fall back to exactly that object.

selfcheck: the IMPORTED registry is recomputed entry by entry with the real Keccak-256
(eth_hash): every bucket holds f_sha3_N(<N-bit constant>) whose Keccak-256 (as N/8 big-endian
bytes) is the bucket's key; every table key is present with delta 0 and its preimage equals the
translated expression evaluated on the table row; a real KeccakRegistry().reverse_lookup of
every table constant (+ small in-bucket offsets) returns a term that denotes the constant.
"""
import ast

from .pyexpr import TranslateError, Translator, find_function, strip_docstring

NAME = "T-preregistry"
SRC = "utils.py"
OUT = "GenPreRegistry.v"

TABLES = {"keccak256_256": ("pre256", 1), "keccak256_512": ("pre512", 2)}


def _target_names(t, table):
    """for k, v in ... / for k, (v1, v2) in ...  -> [k, v...]"""
    n = TABLES[table][1]
    if not (isinstance(t, ast.Tuple) and len(t.elts) == 2 and isinstance(t.elts[0], ast.Name)):
        raise TranslateError(f"{table} loop: expected `for k, <values> in`")
    k = t.elts[0].id
    v = t.elts[1]
    if n == 1:
        if not isinstance(v, ast.Name):
            raise TranslateError(f"{table} loop: expected a single value name")
        vs = [v.id]
    else:
        if not (isinstance(v, ast.Tuple) and len(v.elts) == n and all(isinstance(x, ast.Name) for x in v.elts)):
            raise TranslateError(f"{table} loop: expected a {n}-tuple of names")
        vs = [x.id for x in v.elts]
    names = [k] + vs
    if len(set(names)) != len(names):
        raise TranslateError(f"{table} loop: repeated name in the loop target")
    return names


def _lit_int(node, what):
    if isinstance(node, ast.Constant) and isinstance(node.value, int) and not isinstance(node.value, bool):
        return node.value
    raise TranslateError(f"{what}: expected an integer literal, got {ast.unparse(node)!r}")


def parse(utils_tree):
    fn = find_function(utils_tree, "mk_precomputed_keccak_registry")
    if fn.args.args or fn.args.vararg or fn.args.kwarg or fn.args.kwonlyargs or fn.decorator_list:
        raise TranslateError("mk_precomputed_keccak_registry: expected no parameters / decorators")
    body = strip_docstring(fn.body)
    if len(body) < 3:
        raise TranslateError("mk_precomputed_keccak_registry: body too short")
    first, loops, last = body[0], body[1:-1], body[-1]
    if not (isinstance(first, ast.Assign) and len(first.targets) == 1 and isinstance(first.targets[0], ast.Name)
            and ast.unparse(first.value) == "OffsetMap()"):
        raise TranslateError("mk_precomputed_keccak_registry: expected `m = OffsetMap()` first")
    mname = first.targets[0].id
    if not (isinstance(last, ast.Return) and ast.unparse(last.value) == mname):
        raise TranslateError(f"mk_precomputed_keccak_registry: expected `return {mname}` last")
    out = {}
    for lp in loops:
        if not isinstance(lp, ast.For) or lp.orelse:
            raise TranslateError(f"mk_precomputed_keccak_registry: unexpected statement {ast.unparse(lp)[:60]!r}")
        it = lp.iter
        if not (isinstance(it, ast.Call) and not it.args and not it.keywords and isinstance(it.func, ast.Attribute)
                and it.func.attr == "items" and isinstance(it.func.value, ast.Name) and it.func.value.id in TABLES):
            raise TranslateError(f"loop over {ast.unparse(it)!r}: expected <table>.items()")
        table = it.func.value.id
        if table in out:
            raise TranslateError(f"two loops over {table}")
        names = _target_names(lp.target, table)
        if mname in names:
            raise TranslateError("loop variable shadows the map")
        if len(lp.body) != 1 or not isinstance(lp.body[0], ast.Assign) or len(lp.body[0].targets) != 1:
            raise TranslateError(f"{table} loop: expected exactly one assignment `m[key] = f_sha3_N(con(...))`")
        asg = lp.body[0]
        tgt = asg.targets[0]
        if not (isinstance(tgt, ast.Subscript) and isinstance(tgt.value, ast.Name) and tgt.value.id == mname):
            raise TranslateError(f"{table} loop: assignment target is not {mname}[...]")
        key_node = tgt.slice
        val = asg.value
        if not (isinstance(val, ast.Call) and isinstance(val.func, ast.Name) and val.func.id.startswith("f_sha3_")
                and len(val.args) == 1 and not val.keywords):
            raise TranslateError(f"{table} loop: expected f_sha3_<N>(<one argument>)")
        try:
            bits = int(val.func.id[len("f_sha3_"):])
        except ValueError as e:
            raise TranslateError(f"{table} loop: hash function {val.func.id!r}") from e
        c = val.args[0]
        if not (isinstance(c, ast.Call) and isinstance(c.func, ast.Name) and c.func.id == "con" and len(c.args) == 1):
            raise TranslateError(f"{table} loop: expected con(<expr>[, size_bits=<N>])")
        size = 256  # con's default, checked by selfcheck against the imported function
        if c.keywords:
            if len(c.keywords) != 1 or c.keywords[0].arg != "size_bits":
                raise TranslateError(f"{table} loop: unexpected keyword of con")
            size = _lit_int(c.keywords[0].value, "size_bits")
        if size != bits:
            raise TranslateError(f"{table} loop: con(..., size_bits={size}) passed to f_sha3_{bits}")
        tr = Translator(names={n: n for n in names})
        out[table] = {
            "names": names, "bits": bits, "size": size,
            "key": tr.tr(key_node).as_Z(), "pre": tr.tr(c.args[0]).as_Z(),
            "key_py": ast.unparse(key_node), "pre_py": ast.unparse(c.args[0]),
        }
    for t in TABLES:
        if t not in out:
            raise TranslateError(f"no loop over {t}")
    # module level: precomputed_keccak_registry[: OffsetMap] = mk_precomputed_keccak_registry()
    binds = []
    for n in utils_tree.body:
        tg = None
        if isinstance(n, ast.AnnAssign) and isinstance(n.target, ast.Name):
            tg, v = n.target.id, n.value
        elif isinstance(n, ast.Assign) and len(n.targets) == 1 and isinstance(n.targets[0], ast.Name):
            tg, v = n.targets[0].id, n.value
        if tg == "precomputed_keccak_registry":
            binds.append(ast.unparse(v) if v is not None else None)
    if binds != ["mk_precomputed_keccak_registry()"]:
        raise TranslateError(f"precomputed_keccak_registry must be bound once to mk_precomputed_keccak_registry(): {binds}")
    for n in ast.walk(utils_tree):
        if isinstance(n, (ast.Name, ast.Attribute)) and isinstance(getattr(n, "ctx", None), (ast.Store, ast.Del)):
            nm = n.id if isinstance(n, ast.Name) else n.attr
            if nm in TABLES:
                raise TranslateError(f"utils.py rebinds {nm}")
    return out


def check_reverse_lookup(sevm_tree):
    """KeccakRegistry.reverse_lookup: own map first, then precomputed_keccak_registry[hash_value],
    both returning `expr + delta if delta else expr`"""
    fn = find_function(sevm_tree, "reverse_lookup", cls="KeccakRegistry")
    if [a.arg for a in fn.args.args] != ["self", "hash_value"]:
        raise TranslateError("reverse_lookup: expected (self, hash_value)")
    body = strip_docstring(fn.body)
    src = [ast.unparse(s) for s in body]
    expect = [
        "expr, delta = self._hash_values[hash_value]",
        "if expr is not None:\n    return expr + delta if delta else expr",
        "expr, delta = precomputed_keccak_registry[hash_value]",
        "if expr is not None:\n    return expr + delta if delta else expr",
        "return None",
    ]
    if src != expect:
        raise TranslateError(f"KeccakRegistry.reverse_lookup: unexpected body {src}")


def translate(src_text):
    from pathlib import Path

    from harness.common import SRC as SRCDIR

    utils = ast.parse(src_text)
    info = parse(utils)
    check_reverse_lookup(ast.parse((Path(SRCDIR) / "sevm.py").read_text()))
    lines = [
        "(* GENERATED by translate/t_preregistry.py from src/halmos/utils.py (mk_precomputed_keccak_registry) -- do not edit *)",
        "From Coq Require Import ZArith.",
        "Open Scope Z_scope.",
        "",
    ]
    for table, (pfx, _) in TABLES.items():
        d = info[table]
        args = " ".join(d["names"])
        lines += [
            f"(* for {', '.join(d['names'])} in {table}.items(): m[{d['key_py']}] = f_sha3_{d['bits']}(con({d['pre_py']}, size_bits={d['size']})) *)",
            f"Definition {pfx}_bits : Z := {d['bits']}.",
            f"Definition {pfx}_size : Z := {d['size']}.",
            f"Definition {pfx}_key ({args} : Z) : Z := {d['key']}.",
            f"Definition {pfx}_pre ({args} : Z) : Z := {d['pre']}.",
            "",
        ]
    return "\n".join(lines), info


def selfcheck(info):
    import z3
    from eth_hash.auto import keccak

    import halmos.hashes as hs
    import halmos.utils as hu
    from halmos.sevm import KeccakRegistry

    bad = []

    def kint(bits, x):
        return int.from_bytes(keccak(x.to_bytes(bits // 8, "big")), "big")

    def entry(expr):
        """f_sha3_N(<constant>) -> (N, value) or None"""
        if not (z3.is_app(expr) and expr.num_args() == 1 and z3.is_bv_value(expr.arg(0))):
            return None
        name = expr.decl().name()
        for n in (256, 512):
            if name == hu.f_sha3_name(n) and expr.arg(0).size() == n:
                return n, expr.arg(0).as_long()
        return None

    if hu.con(5).size() != 256:
        bad.append("con(n) is not 256 bits wide by default")
    for table, (pfx, _) in TABLES.items():
        f = getattr(hu, f"f_sha3_{info[table]['bits']}", None)
        if f is None or f.domain(0).size() != info[table]["bits"] or f.name() != hu.f_sha3_name(info[table]["bits"]):
            bad.append(f"f_sha3_{info[table]['bits']} is not the {info[table]['bits']}-bit hash symbol")
    if bad:
        return bad

    for which, reg in (("precomputed_keccak_registry", hu.precomputed_keccak_registry), ("mk_precomputed_keccak_registry()", hu.mk_precomputed_keccak_registry())):
        ob = reg._offset_bits
        n = 0
        for raw, (expr, off) in reg._map.items():
            n += 1
            key = (raw << ob) | off
            en = entry(expr)
            if en is None:
                bad.append(f"{which}: entry for {hex(key)} is not f_sha3_N(<N-bit constant>): {str(expr)[:80]}")
            elif kint(*en) != key:
                bad.append(f"{which}: key {hex(key)} is NOT the Keccak-256 of its preimage ({en[0]} bits, {hex(en[1])}); keccak = {hex(kint(*en))}")
            if len(bad) > 4:
                return bad
        if n != len(hs.keccak256_256) + len(hs.keccak256_512):
            bad.append(f"{which}: {n} entries, tables have {len(hs.keccak256_256)} + {len(hs.keccak256_512)}")
    reg = hu.precomputed_keccak_registry
    kr = KeccakRegistry()
    for table in TABLES:
        d = info[table]
        for k, v in getattr(hs, table).items():
            vs = [v] if isinstance(v, int) else list(v)
            envp = dict(zip(d["names"], [k] + vs))
            key = eval(d["key_py"], {"__builtins__": {}}, dict(envp))
            pre = eval(d["pre_py"], {"__builtins__": {}}, dict(envp)) % (1 << d["size"])
            expr, delta = reg[key]
            en = entry(expr) if expr is not None else None
            if en != (d["bits"], pre) or delta != 0:
                bad.append(f"{table}[{hex(k)}]: registry holds {en} (delta {delta}), translated expression gives ({d['bits']}, {hex(pre)})")
            if kint(d["bits"], pre) != k:
                bad.append(f"{table}[{hex(k)}] = {vs}: the preimage {hex(pre)} built by `{d['pre_py']}` does not hash to the table key")
            for dlt in (0, 1, -1, 7):
                c = k + dlt
                if c >> reg._offset_bits != k >> reg._offset_bits:
                    continue
                t = kr.reverse_lookup(c)
                ok = False
                if t is not None:
                    base, add = (t, 0)
                    if entry(t) is None and z3.is_app(t) and t.decl().kind() == z3.Z3_OP_BADD and t.num_args() == 2 and z3.is_bv_value(t.arg(1)):
                        base, add = t.arg(0), t.arg(1).as_long()
                    e2 = entry(base)
                    ok = e2 is not None and (kint(*e2) + add) % (1 << 256) == c
                if not ok:
                    bad.append(f"KeccakRegistry().reverse_lookup({hex(c)}) = {str(t)[:100]} does not denote that constant ({table} entry {vs}, offset {dlt})")
            if len(bad) > 4:
                return bad
    return bad
