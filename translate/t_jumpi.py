"""T-jumpi: the decision part of SEVM.jumpi (src/halmos/sevm.py) -> coq/Gen/GenJumpi.v

Translates, statement by statement, the boolean bookkeeping between the two
`ex.check(...)` calls and the creation of the successor states:
    potential_*, must_*, is_symbolic_cond, follow_*, unroll_limit_reached_*, and the
    guard of `self.logs.bounded_loops.append(jid)`
into   jumpi_decide (check_true check_false visited_true visited_false loop : Z)
         : bool * bool * bool      (follow_true, follow_false, logged)
Solver answers are encoded sat = 1, unsat = 0, unknown = 2.  Fail-closed: every
statement must have one of the whitelisted shapes.
"""
import ast

from .pyexpr import TranslateError, Translator, find_function

NAME = "T-jumpi"
SRC = "sevm.py"
OUT = "GenJumpi.v"

SKIP_TARGETS = {"cond_z3", "cond_true", "cond_false", "jid", "visited"}
INPUTS = {"check_true": "check_true", "check_false": "check_false"}
BOOL_VARS = {
    "potential_true", "potential_false", "must_true", "must_false", "is_symbolic_cond",
    "follow_true", "follow_false", "unroll_limit_reached_true", "unroll_limit_reached_false",
}


class _Norm(ast.NodeTransformer):
    """visited[True] -> visited_true ; self.options.loop -> loop"""

    def visit_Subscript(self, node):
        if isinstance(node.value, ast.Name) and node.value.id == "visited" and isinstance(node.slice, ast.Constant) and isinstance(node.slice.value, bool):
            return ast.copy_location(ast.Name(id="visited_true" if node.slice.value else "visited_false", ctx=ast.Load()), node)
        raise TranslateError(f"unsupported subscript {ast.unparse(node)}")

    def visit_Attribute(self, node):
        if ast.unparse(node) == "self.options.loop":
            return ast.copy_location(ast.Name(id="loop", ctx=ast.Load()), node)
        raise TranslateError(f"unsupported attribute {ast.unparse(node)}")


def _is_call_to(node, dotted):
    return isinstance(node, ast.Expr) and isinstance(node.value, ast.Call) and ast.unparse(node.value.func) == dotted


class Exec:
    def __init__(self):
        self.lets = []          # (gallina name, text)
        self.env = {}           # python var -> current gallina name
        self.version = {}
        self.logged = "false"

    def tr(self):
        names = {"check_true": "check_true", "check_false": "check_false", "visited_true": "visited_true",
                 "visited_false": "visited_false", "loop": "loop"}
        names.update(self.env)
        return Translator(names=names, bool_names=set(self.env), consts={"sat": 1, "unsat": 0, "unknown": 2})

    def bind(self, var, text):
        self.version[var] = self.version.get(var, 0) + 1
        g = var if self.version[var] == 1 else f"{var}_{self.version[var]}"
        self.lets.append((g, text))
        self.env[var] = g

    def assign(self, var, value):
        if var not in BOOL_VARS:
            raise TranslateError(f"assignment to unexpected variable {var}")
        e = self.tr().tr(_Norm().visit(value))
        self.bind(var, e.as_bool())

    def run(self, stmts):
        for st in stmts:
            if isinstance(st, ast.AnnAssign) and isinstance(st.target, ast.Name) and st.value is not None:
                if st.target.id in SKIP_TARGETS:
                    continue
                self.assign(st.target.id, st.value)
            elif isinstance(st, ast.Assign) and len(st.targets) == 1 and isinstance(st.targets[0], ast.Name):
                t = st.targets[0].id
                if t in SKIP_TARGETS:
                    continue
                if t in INPUTS:
                    if not (isinstance(st.value, ast.Call) and ast.unparse(st.value.func) == "ex.check"):
                        raise TranslateError(f"{t}: expected ex.check(...)")
                    continue
                self.assign(t, st.value)
            elif isinstance(st, ast.If):
                self.run_if(st)
            elif _is_call_to(st, "self.logs.bounded_loops.append"):
                self.logged = "true"
            elif _is_call_to(st, "debug"):
                continue
            elif isinstance(st, ast.Expr) and isinstance(st.value, ast.Constant) and isinstance(st.value.value, str):
                continue
            else:
                raise TranslateError(f"unsupported statement in jumpi: {ast.unparse(st)[:80]!r}")

    def run_if(self, st):
        src = ast.unparse(st.test)
        if src == "self.options.debug":
            for b in st.body:
                if not _is_call_to(b, "debug"):
                    raise TranslateError("debug block contains something else than debug(...)")
            if st.orelse:
                raise TranslateError("debug block with else")
            return
        cond = self.tr().tr(_Norm().visit(st.test)).as_bool()
        a, b = self.fork(), self.fork()
        a.run(st.body)
        b.run(st.orelse)
        # `lets` and `version` are shared (all lets are pure, names unique); merge envs with phi nodes
        for v in sorted(set(a.env) | set(b.env)):
            ga, gb = a.env.get(v), b.env.get(v)
            if ga == gb:
                self.env[v] = ga
                continue
            if ga is None or gb is None:
                # branch-local variable: out of scope after the if (a later use fails closed)
                self.env.pop(v, None)
                continue
            self.bind(v, f"(if {cond} then {ga} else {gb})")
        if a.logged != b.logged:
            self.logged = f"(if {cond} then {a.logged} else {b.logged})"
        else:
            self.logged = a.logged

    def fork(self):
        f = Exec()
        f.lets = self.lets          # shared
        f.version = self.version    # shared
        f.env = dict(self.env)
        f.logged = self.logged
        return f


# The successor-building tail of jumpi is hand-modelled (Model/SymExec.v sexec, SBranch case; Model/SymCalls.v
# local_step): which states are created, under which condition, at which pc, with which visit counters, and what
# happens when the destination is invalid.  It is pinned statement by statement (comments and layout are free);
# any other tail fails closed, and the hand model has to be re-read against the new code.
TAIL = [
    "new_ex_true = None",
    "new_ex_false = None",
    """if follow_true and target not in ex.pgm.valid_jumpdests():
    if not is_symbolic_cond:
        ex.path.append(cond_true, branching=True)
        raise InvalidJumpDestError(f'Invalid jump destination: 0x{target:X}')
    bad_ex = self.create_branch(ex, cond_true, ex.pc)
    bad_ex.st.push(ONE)
    bad_ex.st.push(BV(target))
    stack.push(bad_ex)
    follow_true = False""",
    """if follow_true:
    if follow_false:
        new_ex_true = self.create_branch(ex, cond_true, target)
    else:
        new_ex_true = ex
        new_ex_true.path.append(cond_true, branching=True)
        new_ex_true.advance(pc=target + 1)""",
    """if follow_false:
    new_ex_false = ex
    new_ex_false.path.append(cond_false, branching=True)
    new_ex_false.advance()""",
    """if new_ex_true:
    if is_symbolic_cond:
        new_ex_true.jumpis[jid] = {True: visited[True] + 1, False: visited[False]}
    stack.push(new_ex_true)""",
    """if new_ex_false:
    if is_symbolic_cond:
        new_ex_false.jumpis[jid] = {True: visited[True], False: visited[False] + 1}
    stack.push(new_ex_false)""",
]


def _check_tail(stmts):
    stmts = [s for s in stmts if not (isinstance(s, ast.Expr) and isinstance(s.value, ast.Constant) and isinstance(s.value.value, str))]
    got = [ast.unparse(s) for s in stmts]
    want = [ast.unparse(ast.parse(t)) for t in TAIL]
    if len(got) != len(want):
        raise TranslateError(f"jumpi: the successor-building tail has {len(got)} statements, the modelled one {len(want)}")
    for i, (g, w) in enumerate(zip(got, want)):
        if g != w:
            raise TranslateError(f"jumpi: statement {i} of the successor-building tail is not the modelled one: {g[:120]!r}")


def translate(src_text):
    tree = ast.parse(src_text)
    fn = find_function(tree, "jumpi", cls="SEVM")
    body = [s for s in fn.body]
    # the decision part ends where the successor states start being built
    end = None
    for i, st in enumerate(body):
        if isinstance(st, ast.Assign) and len(st.targets) == 1 and isinstance(st.targets[0], ast.Name) and st.targets[0].id == "new_ex_true":
            end = i
            break
    if end is None:
        raise TranslateError("jumpi: `new_ex_true = None` marker not found")
    _check_tail(body[end:])
    ex = Exec()
    # branches of an if may assign versions independently; keep version numbers unique
    ex.run(body[:end])
    for v in ("follow_true", "follow_false", "potential_true", "potential_false", "must_true", "must_false", "is_symbolic_cond"):
        if v not in ex.env:
            raise TranslateError(f"jumpi: variable {v} not defined")
    seen = set()
    lets = []
    for g, text in ex.lets:
        if g in seen:
            raise TranslateError(f"internal: duplicate let {g}")
        seen.add(g)
        lets.append(f"  let {g} := {text} in")
    lines = [
        "(* GENERATED by translate/t_jumpi.py from SEVM.jumpi in src/halmos/sevm.py -- do not edit *)",
        "From Coq Require Import ZArith Bool.",
        "Open Scope Z_scope.",
        "",
        "Definition R_UNSAT : Z := 0.  Definition R_SAT : Z := 1.  Definition R_UNKNOWN : Z := 2.",
        "",
        "Record decision := mkDecision {",
        "  d_follow_true : bool; d_follow_false : bool; d_logged : bool;",
        "  d_potential_true : bool; d_potential_false : bool; d_symbolic : bool }.",
        "",
        "Definition jumpi_decide (check_true check_false visited_true visited_false loop : Z) : decision :=",
        *lets,
        f"  mkDecision {ex.env['follow_true']} {ex.env['follow_false']} {ex.logged} {ex.env['potential_true']} {ex.env['potential_false']} {ex.env['is_symbolic_cond']}.",
        "",
    ]
    return "\n".join(lines), {"lets": ex.lets}


def selfcheck(info):
    return []
