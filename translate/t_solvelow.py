"""T-solvelow: /repo/src/halmos/solve.py -> coq/Gen/GenSolveLow.v

Emits, as Gallina definitions over Spec.ExecSpec.{answer, verdict}:
  gen_timeout_verdict   what solve_low_level returns from its
                        `except subprocess.TimeoutExpired:` handler around future.result()
  gen_first_line        SolverOutput.from_result's `match first_line` dispatch
Fail-closed: the statement shapes of solve_low_level (PopenFuture construction, submit,
try/result/except TimeoutExpired, final from_result) and of from_result (first-line
extraction, match arms) are whitelisted; anything else raises TranslateError.
"""
import ast

from .pyexpr import TranslateError, find_function

NAME = "T-solvelow"
SRC = "solve.py"
OUT = "GenSolveLow.v"

VERDICT = {"unsat": "VUnsat", "sat": "VSat", "unknown": "VUnknown", "err": "VErr"}
ANSWERS = [("AUnsat", "unsat"), ("ASat", "sat"), ("AUnknown", "unknown"), ("AGarbage", None)]


def _result_of_solver_output_call(call, where):
    """SolverOutput(<result>, ...) or SolverOutput(result=<result>, ...) -> verdict name"""
    if not (isinstance(call, ast.Call) and isinstance(call.func, ast.Name) and call.func.id == "SolverOutput"):
        raise TranslateError(f"{where}: expected a SolverOutput(...) call, got {ast.unparse(call)!r}")
    arg = None
    for kw in call.keywords:
        if kw.arg == "result":
            arg = kw.value
    if arg is None:
        if not call.args:
            raise TranslateError(f"{where}: SolverOutput call without a result")
        arg = call.args[0]
    if isinstance(arg, ast.Name) and arg.id in ("unsat", "sat", "unknown"):
        return arg.id
    if isinstance(arg, ast.Constant) and arg.value == "err":
        return "err"
    raise TranslateError(f"{where}: unexpected result expression {ast.unparse(arg)!r}")


def _find_class_function(tree, cls, name):
    for node in tree.body:
        if isinstance(node, ast.ClassDef) and node.name == cls:
            for f in node.body:
                if isinstance(f, ast.FunctionDef) and f.name == name:
                    return f
    raise TranslateError(f"{cls}.{name} not found")


def translate(src_text):
    tree = ast.parse(src_text)
    info = {}

    # the z3 names must be the z3 constants (from z3 import ... sat, unsat, unknown)
    imported = set()
    for node in tree.body:
        if isinstance(node, ast.ImportFrom) and node.module == "z3":
            imported |= {a.asname or a.name for a in node.names}
    for n in ("sat", "unsat", "unknown"):
        if n not in imported:
            raise TranslateError(f"`{n}` is not imported from z3 in solve.py")
    for node in ast.walk(tree):
        if isinstance(node, (ast.Assign, ast.AugAssign, ast.AnnAssign)):
            tgts = node.targets if isinstance(node, ast.Assign) else [node.target]
            for t in tgts:
                if isinstance(t, ast.Name) and t.id in ("sat", "unsat", "unknown"):
                    raise TranslateError(f"`{t.id}` is re-bound at line {node.lineno}")

    # ---- solve_low_level
    fn = find_function(tree, "solve_low_level")
    body = [s for s in fn.body if not (isinstance(s, ast.Expr) and isinstance(s.value, ast.Constant))]
    tries = [s for s in body if isinstance(s, ast.Try)]
    if len(tries) != 1:
        raise TranslateError(f"solve_low_level: expected exactly one try statement, found {len(tries)}")
    t = tries[0]
    idx = body.index(t)
    if t.finalbody or t.orelse:
        raise TranslateError("solve_low_level: try statement has else/finally")
    # try body: `<a>, <b>, <c> = <F>.result()` (names are free)
    tb = t.body[0] if len(t.body) == 1 else None
    if not (isinstance(tb, ast.Assign) and len(tb.targets) == 1 and isinstance(tb.targets[0], ast.Tuple)
            and len(tb.targets[0].elts) == 3 and all(isinstance(e, ast.Name) for e in tb.targets[0].elts)
            and isinstance(tb.value, ast.Call) and isinstance(tb.value.func, ast.Attribute) and tb.value.func.attr == "result"
            and isinstance(tb.value.func.value, ast.Name) and not tb.value.args and not tb.value.keywords):
        raise TranslateError(f"solve_low_level: unexpected try body {ast.unparse(t.body[0])!r}")
    outs = [e.id for e in tb.targets[0].elts]
    fut = tb.value.func.value.id
    if len(t.handlers) != 1:
        raise TranslateError(f"solve_low_level: expected one except clause, found {len(t.handlers)}")
    h = t.handlers[0]
    if h.type is None or ast.unparse(h.type) != "subprocess.TimeoutExpired":
        raise TranslateError(f"solve_low_level: except clause catches {ast.unparse(h.type) if h.type else 'everything'}")
    if len(h.body) != 1 or not isinstance(h.body[0], ast.Return):
        raise TranslateError("solve_low_level: the TimeoutExpired handler is not a single return")
    info["timeout"] = _result_of_solver_output_call(h.body[0].value, "TimeoutExpired handler")
    # before the try: `<F> = PopenFuture(<cmd>, timeout=<expr>)`, then `<...>.submit(<F>)`
    made = submitted = None
    for i, st in enumerate(body[:idx]):
        if (isinstance(st, ast.Assign) and len(st.targets) == 1 and isinstance(st.targets[0], ast.Name) and st.targets[0].id == fut
                and isinstance(st.value, ast.Call) and isinstance(st.value.func, ast.Name) and st.value.func.id == "PopenFuture"):
            if not any(kw.arg == "timeout" for kw in st.value.keywords) and len(st.value.args) < 2:
                raise TranslateError("solve_low_level: PopenFuture is created without a timeout argument")
            made = i
        if (isinstance(st, ast.Expr) and isinstance(st.value, ast.Call) and isinstance(st.value.func, ast.Attribute)
                and st.value.func.attr == "submit" and len(st.value.args) == 1 and isinstance(st.value.args[0], ast.Name)
                and st.value.args[0].id == fut):
            submitted = i
    if made is None or submitted is None or submitted < made:
        raise TranslateError("solve_low_level: `F = PopenFuture(...)` followed by `executor.submit(F)` not found before the try")
    last = body[-1]
    if not (isinstance(last, ast.Return) and isinstance(last.value, ast.Call)
            and ast.unparse(last.value.func) == "SolverOutput.from_result"
            and [ast.unparse(x) for x in last.value.args[:3]] == outs):
        raise TranslateError(f"solve_low_level: unexpected final statement {ast.unparse(last)!r}")
    for st in body[idx + 1:-1]:
        for n in ast.walk(st):
            if isinstance(n, ast.Return):
                raise TranslateError("solve_low_level: extra return between result() and from_result")
            if isinstance(n, ast.Name) and isinstance(n.ctx, ast.Store) and n.id in outs:
                raise TranslateError(f"solve_low_level: `{n.id}` is re-assigned before from_result")

    # ---- SolverOutput.from_result
    fr = _find_class_function(tree, "SolverOutput", "from_result")
    import re as _re

    stmts = [ast.unparse(s) for s in fr.body]
    arg0 = fr.args.args[0].arg
    m1 = [m for m in (_re.fullmatch(r"(\w+) = (\w+)\.find\('\\n'\)", x) for x in stmts) if m]
    if len(m1) != 1 or m1[0].group(2) != arg0:
        raise TranslateError("from_result: `<i> = <stdout>.find('\\n')` not found")
    iv = m1[0].group(1)
    m2 = [m for m in (_re.fullmatch(r"(\w+) = (\w+)\[:(\w+)\] if (\w+) != -1 else (\w+)", x) for x in stmts) if m]
    if len(m2) != 1 or m2[0].groups()[1:] != (arg0, iv, iv, arg0):
        raise TranslateError("from_result: `<line> = <stdout>[:<i>] if <i> != -1 else <stdout>` not found")
    first_line_var = m2[0].group(1)
    matches = [s for s in fr.body if isinstance(s, ast.Match)]
    if len(matches) != 1 or fr.body[-1] is not matches[0]:
        raise TranslateError("from_result: expected a single, final match statement")
    m = matches[0]
    if ast.unparse(m.subject) != first_line_var:
        raise TranslateError(f"from_result: match subject is {ast.unparse(m.subject)!r}")
    arms = []      # (string or None for wildcard, verdict)
    for case in m.cases:
        if case.guard is not None:
            raise TranslateError("from_result: guarded case")
        rets = [s for s in case.body if isinstance(s, ast.Return)]
        if len(rets) != 1 or case.body[-1] is not rets[0]:
            raise TranslateError("from_result: a case does not end in its only return")
        v = _result_of_solver_output_call(rets[0].value, "from_result case")
        p = case.pattern
        if isinstance(p, ast.MatchValue) and isinstance(p.value, ast.Constant) and isinstance(p.value.value, str):
            arms.append((p.value.value, v))
        elif isinstance(p, ast.MatchAs) and p.pattern is None and p.name is None:
            arms.append((None, v))
        else:
            raise TranslateError(f"from_result: unsupported pattern {ast.unparse(p)!r}")
    if not arms or arms[-1][0] is not None:
        raise TranslateError("from_result: no final wildcard case")
    info["arms"] = arms

    def dispatch(line):
        for s, v in arms:
            if s is None or s == line:
                return v
        raise TranslateError("unreachable")

    # AGarbage stands for every first line that is none of the three words; it must
    # be dispatched like a line that matches no literal arm
    table = {}
    for a, line in ANSWERS:
        table[a] = dispatch(line if line is not None else "\x00no-such-line")
    for s, _ in arms:
        if s is not None and s not in ("unsat", "sat", "unknown"):
            raise TranslateError(f"from_result: literal arm {s!r} has no counterpart in the model's answer type")
    info["table"] = table

    lines = [
        "(* GENERATED by translate/t_solvelow.py from src/halmos/solve.py -- do not edit *)",
        "From HV Require Import Spec.ExecSpec.",
        "",
        "(* solve_low_level: `except subprocess.TimeoutExpired: return SolverOutput(result=...)` *)",
        f"Definition gen_timeout_verdict : verdict := {VERDICT[info['timeout']]}.",
        "",
        "(* SolverOutput.from_result: `match first_line` *)",
        "Definition gen_first_line (a : answer) : verdict :=",
        "  match a with",
    ]
    for a, _ in ANSWERS:
        lines.append(f"  | {a} => {VERDICT[table[a]]}")
    lines += ["  end.", ""]
    return "\n".join(lines), info


def selfcheck(info):
    """Run the real from_result on sample outputs and compare with the emitted table."""
    import types

    import z3

    import halmos.solve as hs

    def name(r):
        if isinstance(r, str):
            return r
        for z, n in ((z3.unsat, "unsat"), (z3.sat, "sat"), (z3.unknown, "unknown")):
            if r == z:
                return n
        return "?"

    ctx = types.SimpleNamespace(
        args=types.SimpleNamespace(verbose=0, cache_solver=False), path_id=1, dump_file="/nonexistent/q.smt2")
    samples = {
        "AUnsat": ["unsat", "unsat\n", "unsat\n(error)"],
        "ASat": ["sat\n", "sat\n(\n  (define-fun x () (_ BitVec 256) #x01)\n)\n"],
        "AUnknown": ["unknown", "unknown\n"],
        "AGarbage": ["", "\n", "unsat ", " unsat\n", "error\nunsat\n", "sat\r\n", "timeout\n", "UNSAT\n"],
    }
    bad = []
    for a, outs in samples.items():
        for o in outs:
            try:
                got = name(hs.SolverOutput.from_result(o, "", 0, ctx).result)
            except Exception as e:  # noqa: BLE001
                got = f"EXC {type(e).__name__}"
            if got != info["table"][a]:
                bad.append(f"from_result({o!r}) = {got}, translated table says {info['table'][a]}")
    return bad
