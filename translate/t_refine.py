"""T-refine: /repo/src/halmos/solve.py -> coq/Gen/GenRefine.v

Re-emits as Coq data, on every run:
  * `solve.refine`: for each `smtlib = re.sub(PATTERN, REPLACEMENT, smtlib)` the op
    alternation of group 1, the declaration matched by PATTERN and the REPLACEMENT, both
    as s-expression templates with holes for group 1 (the op) and group 2 (the width);
  * `solve.dump`: the two `write_text` f-strings (plain / --cache-solver) as piece lists,
    the named-assertion f-string, and the same literals parsed into s-expression commands;
  * `solve.is_model_valid`: the substring and the polarity of the test;
  * `solve.halmos_var_pattern`: the name prefixes and the value syntaxes of the (verbose)
    regular expression, after checking the rest of it against the expected skeleton;
  * `solve.parse_const_value`: the two-character prefixes and the radix of each arm.
Fail-closed: any other shape raises TranslateError.
"""
import ast
import re

from .pyexpr import TranslateError, find_function, strip_docstring

NAME = "T-refine"
SRC = "solve.py"
OUT = "GenRefine.v"


# ----------------------------------------------------------------------------- helpers

def coq_str(s):
    """Coq string literal; newline is written through the `nl` constant."""
    if any(ord(c) < 32 and c != "\n" for c in s) or any(ord(c) > 126 for c in s):
        raise TranslateError(f"unexpected character in literal {s!r}")
    parts = s.split("\n")
    lits = ['"' + p.replace('"', '""') + '"' for p in parts]
    out = lits[0]
    for p in lits[1:]:
        out = f"({out} ++ nl ++ {p})"
    return out


def const_str(node, what):
    if isinstance(node, ast.Constant) and isinstance(node.value, str):
        return node.value
    raise TranslateError(f"{what}: expected a string literal at line {getattr(node, 'lineno', '?')}")


LIT_OK = set("abcdefghijklmnopqrstuvwxyzABCDEFGHIJKLMNOPQRSTUVWXYZ0123456789_- =")


def regex_to_pieces(pat):
    """The declaration pattern of refine: literal text with `\\(` `\\)` escapes, one
    alternation group `(a|b|c)` of lower-case words (group 1), one `([0-9]+)` (group 2)
    and back-references `\\2`.  Returns (pieces, ops) with pieces over
    ('lit', text) | ('g1',) | ('g2',)."""
    pieces, ops, ngroups, i = [], None, 0, 0

    def lit(c):
        if pieces and pieces[-1][0] == "lit":
            pieces[-1] = ("lit", pieces[-1][1] + c)
        else:
            pieces.append(("lit", c))

    while i < len(pat):
        c = pat[i]
        if c == "\\":
            if i + 1 >= len(pat):
                raise TranslateError("refine pattern: dangling backslash")
            d = pat[i + 1]
            if d in "()":
                lit(d)
            elif d == "2":
                if ngroups < 2:
                    raise TranslateError("refine pattern: back-reference before group 2")
                pieces.append(("g2",))
            else:
                raise TranslateError(f"refine pattern: unsupported escape \\{d}")
            i += 2
        elif c == "(":
            j = pat.find(")", i)
            if j < 0:
                raise TranslateError("refine pattern: unclosed group")
            body = pat[i + 1:j]
            ngroups += 1
            if ngroups == 1:
                alts = body.split("|")
                if not alts or not all(re.fullmatch(r"[a-z]+", a) for a in alts):
                    raise TranslateError(f"refine pattern: group 1 is not an alternation of words: {body!r}")
                if len(set(alts)) != len(alts):
                    raise TranslateError("refine pattern: duplicate alternative")
                ops = alts
                pieces.append(("g1",))
            elif ngroups == 2:
                if body != "[0-9]+":
                    raise TranslateError(f"refine pattern: group 2 is not [0-9]+: {body!r}")
                pieces.append(("g2",))
            else:
                raise TranslateError("refine pattern: more than two groups")
            i = j + 1
        elif c in LIT_OK:
            lit(c)
            i += 1
        else:
            raise TranslateError(f"refine pattern: unsupported regex character {c!r}")
    if ops is None or ngroups != 2:
        raise TranslateError("refine pattern: expected exactly two groups")
    return pieces, ops


def template_to_pieces(rep):
    pieces, i = [], 0

    def lit(c):
        if pieces and pieces[-1][0] == "lit":
            pieces[-1] = ("lit", pieces[-1][1] + c)
        else:
            pieces.append(("lit", c))

    while i < len(rep):
        c = rep[i]
        if c == "\\":
            d = rep[i + 1:i + 2]
            if d == "1":
                pieces.append(("g1",))
            elif d == "2":
                pieces.append(("g2",))
            else:
                raise TranslateError(f"refine replacement: unsupported escape \\{d}")
            i += 2
        elif c in LIT_OK or c in "()":
            lit(c)
            i += 1
        else:
            raise TranslateError(f"refine replacement: unsupported character {c!r}")
    return pieces


def pieces_to_tsx(pieces, what):
    """Parse a piece list as ONE s-expression template.  Atoms are separated by single
    spaces / parentheses exactly as `render` prints them (so that text = render(sexp))."""
    toks = []  # '(' | ')' | ' ' | ('atom', [pieces])
    for p in pieces:
        if p[0] == "lit":
            for ch in p[1]:
                if ch in "() ":
                    toks.append(ch)
                elif toks and isinstance(toks[-1], tuple) and toks[-1][1] and toks[-1][1][-1][0] == "lit":
                    toks[-1][1][-1] = ("lit", toks[-1][1][-1][1] + ch)
                elif toks and isinstance(toks[-1], tuple):
                    toks[-1][1].append(("lit", ch))
                else:
                    toks.append(("atom", [("lit", ch)]))
        else:
            if toks and isinstance(toks[-1], tuple):
                toks[-1][1].append(p)
            else:
                toks.append(("atom", [p]))
    pos = 0

    def parse():
        nonlocal pos
        if pos >= len(toks):
            raise TranslateError(f"{what}: unexpected end")
        t = toks[pos]
        if t == "(":
            pos += 1
            items = []
            first = True
            while True:
                if pos >= len(toks):
                    raise TranslateError(f"{what}: unbalanced parentheses")
                if toks[pos] == ")":
                    pos += 1
                    return ("list", items)
                if not first:
                    if toks[pos] != " ":
                        raise TranslateError(f"{what}: items not separated by a single space")
                    pos += 1
                items.append(parse())
                first = False
        if isinstance(t, tuple):
            pos += 1
            return ("atom", t[1])
        raise TranslateError(f"{what}: unexpected token {t!r}")

    sx = parse()
    if pos != len(toks):
        raise TranslateError(f"{what}: trailing text after the s-expression")
    return sx


def tsx_coq(sx):
    if sx[0] == "atom":
        ps = []
        for p in sx[1]:
            ps.append(f"PLit {coq_str(p[1])}" if p[0] == "lit" else ("PG1" if p[0] == "g1" else "PG2"))
        return "TAtom [" + "; ".join(ps) + "]"
    return "TList [" + "; ".join(tsx_coq(x) for x in sx[1]) + "]"


def render_pieces(pieces, g1, g2):
    return "".join(p[1] if p[0] == "lit" else (g1 if p[0] == "g1" else g2) for p in pieces)


def parse_plain_sexps(text, what):
    """A literal chunk of dump(): a sequence of `(...)\\n` commands, each printed exactly
    as `render` would print it."""
    cmds = []
    for line in text.split("\n"):
        if line == "":
            continue
        cmds.append(pieces_to_tsx([("lit", line)], what))
    return cmds


def sexp_coq(sx):
    if sx[0] == "atom":
        if len(sx[1]) != 1 or sx[1][0][0] != "lit":
            raise TranslateError("plain s-expression expected")
        return f"Atom {coq_str(sx[1][0][1])}"
    return "SList [" + "; ".join(sexp_coq(x) for x in sx[1]) + "]"


# ----------------------------------------------------------------------------- refine

def tr_refine(tree):
    fn = find_function(tree, "refine")
    if [a.arg for a in fn.args.args] != ["query"]:
        raise TranslateError("refine: expected a single parameter `query`")
    body = strip_docstring(fn.body)
    if len(body) < 3:
        raise TranslateError("refine: body too short")
    first, last = body[0], body[-1]
    ok = (
        isinstance(first, ast.Assign) and len(first.targets) == 1 and isinstance(first.targets[0], ast.Name)
        and ast.unparse(first.value) == "query.smtlib"
    )
    if not ok:
        raise TranslateError(f"refine: expected `<var> = query.smtlib` first, got {ast.unparse(first)!r}")
    var = first.targets[0].id
    if ast.unparse(last) != f"return SMTQuery({var}, query.assertions)":
        raise TranslateError(f"refine: expected `return SMTQuery({var}, query.assertions)` last, got {ast.unparse(last)!r}")
    rules = []
    for st in body[1:-1]:
        ok = (
            isinstance(st, ast.Assign) and len(st.targets) == 1 and isinstance(st.targets[0], ast.Name)
            and st.targets[0].id == var and isinstance(st.value, ast.Call)
            and ast.unparse(st.value.func) == "re.sub" and len(st.value.args) == 3 and not st.value.keywords
            and isinstance(st.value.args[2], ast.Name) and st.value.args[2].id == var
        )
        if not ok:
            raise TranslateError(f"refine: unexpected statement {ast.unparse(st)[:80]!r} at line {st.lineno}")
        pat = const_str(st.value.args[0], "refine pattern")
        rep = const_str(st.value.args[1], "refine replacement")
        ppieces, ops = regex_to_pieces(pat)
        rpieces = template_to_pieces(rep)
        decl = pieces_to_tsx(ppieces, "refine pattern")
        repl = pieces_to_tsx(rpieces, "refine replacement")
        rules.append({"pattern": pat, "replacement": rep, "ops": ops, "decl": decl, "repl": repl,
                      "ppieces": ppieces, "rpieces": rpieces})
    if not rules:
        raise TranslateError("refine: no re.sub rule found")
    return rules


# ----------------------------------------------------------------------------- dump

def joined_pieces(node, what, names):
    """f-string / literal -> [('lit', s) | ('hole', key)], holes restricted to `names`
    (source text -> key)."""
    if isinstance(node, ast.Constant) and isinstance(node.value, str):
        return [("lit", node.value)]
    if not isinstance(node, ast.JoinedStr):
        raise TranslateError(f"{what}: expected an f-string at line {getattr(node, 'lineno', '?')}")
    out = []
    for v in node.values:
        if isinstance(v, ast.Constant) and isinstance(v.value, str):
            if out and out[-1][0] == "lit":
                out[-1] = ("lit", out[-1][1] + v.value)
            else:
                out.append(("lit", v.value))
        elif isinstance(v, ast.FormattedValue) and v.conversion == -1 and v.format_spec is None:
            src = ast.unparse(v.value)
            if src not in names:
                raise TranslateError(f"{what}: unexpected interpolation {{{src}}}")
            out.append(("hole", names[src]))
        else:
            raise TranslateError(f"{what}: unsupported f-string component")
    return out


def find_write_text(stmts, what):
    calls = [s for s in stmts if isinstance(s, ast.Expr) and isinstance(s.value, ast.Call)
             and ast.unparse(s.value.func) == "dump_file.write_text"]
    if len(calls) != 1 or len(calls[0].value.args) != 1 or calls[0].value.keywords:
        raise TranslateError(f"dump: expected exactly one dump_file.write_text(...) in the {what} branch")
    return calls[0].value.args[0]


def tr_dump(tree):
    fn = find_function(tree, "dump")
    ifs = [s for s in fn.body if isinstance(s, ast.If)]
    target = [s for s in ifs if ast.unparse(s.test) == "args.cache_solver"]
    if len(target) != 1:
        raise TranslateError("dump: expected exactly one `if args.cache_solver:`")
    top_writes = [s for s in fn.body if isinstance(s, ast.Expr) and "write_text" in ast.unparse(s)]
    if top_writes:
        raise TranslateError("dump: unexpected write_text outside the cache_solver branches")
    st = target[0]
    # named assertions: named_assertions = "".join([f"..." for assert_id in query.assertions])
    assigns = [s for s in st.body if isinstance(s, ast.Assign)]
    if len(assigns) != 1 or len(assigns[0].targets) != 1 or not isinstance(assigns[0].targets[0], ast.Name):
        raise TranslateError("dump: expected a single assignment (the named assertions) in the cache_solver branch")
    named_var = assigns[0].targets[0].id
    v = assigns[0].value
    ok = (
        isinstance(v, ast.Call) and isinstance(v.func, ast.Attribute) and v.func.attr == "join"
        and isinstance(v.func.value, ast.Constant) and v.func.value.value == "" and len(v.args) == 1
        and isinstance(v.args[0], (ast.ListComp, ast.GeneratorExp)) and len(v.args[0].generators) == 1
    )
    if not ok:
        raise TranslateError("dump: named_assertions is not ''.join([... for ... in ...])")
    gen = v.args[0].generators[0]
    if gen.ifs or ast.unparse(gen.iter) != "query.assertions" or not isinstance(gen.target, ast.Name):
        raise TranslateError("dump: named assertions must range over query.assertions without filter")
    named = joined_pieces(v.args[0].elt, "dump named assertion", {gen.target.id: "id"})
    others = [s for s in st.body if s is not assigns[0] and not (isinstance(s, ast.Expr) and "write_text" in ast.unparse(s))]
    if others:
        raise TranslateError(f"dump: unexpected statement in the cache_solver branch: {ast.unparse(others[0])[:60]!r}")
    names = {"query.smtlib": "smtlib", named_var: "named"}
    cached = joined_pieces(find_write_text(st.body, "cache_solver"), "dump (cached)", names)
    if len(st.orelse) != 1:
        raise TranslateError("dump: unexpected statements in the plain branch")
    plain = joined_pieces(find_write_text(st.orelse, "plain"), "dump (plain)", {"query.smtlib": "smtlib"})
    for nm, ps, need in (("plain", plain, ["smtlib"]), ("cached", cached, ["smtlib", "named"])):
        holes = [p[1] for p in ps if p[0] == "hole"]
        if holes != need:
            raise TranslateError(f"dump ({nm}): expected the interpolations {need} once each in this order, found {holes}")
    return {"plain": plain, "cached": cached, "named": named}


def dpieces_coq(ps):
    out = []
    for p in ps:
        if p[0] == "lit":
            out.append(f"DLit {coq_str(p[1])}")
        else:
            out.append({"smtlib": "DSmtlib", "named": "DNamed", "id": "DId"}[p[1]])
    return "[" + "; ".join(out) + "]"


def split_dump(ps, what):
    """-> (commands before the query, separator after {query.smtlib}, [middle literal], commands after)."""
    if ps[0][0] != "lit":
        raise TranslateError(f"dump ({what}): expected literal text before the query")
    pre = ps[0][1]
    if not pre.endswith("\n"):
        raise TranslateError(f"dump ({what}): text before the query must end with a newline")
    lits_after = [p[1] for p in ps[2:] if p[0] == "lit"]
    return pre, lits_after


# ----------------------------------------------------------------------------- validity / model parsing

def tr_is_model_valid(tree):
    fn = find_function(tree, "is_model_valid")
    body = strip_docstring(fn.body)
    if len(body) != 1 or not isinstance(body[0], ast.Return):
        raise TranslateError("is_model_valid: expected a single return")
    e = body[0].value
    want_op = ast.NotIn
    if isinstance(e, ast.UnaryOp) and isinstance(e.op, ast.Not):  # not (<literal> in x)
        e, want_op = e.operand, ast.In
    ok = (
        isinstance(e, ast.Compare) and len(e.ops) == 1 and isinstance(e.ops[0], want_op)
        and isinstance(e.left, ast.Constant) and isinstance(e.left.value, str)
        and isinstance(e.comparators[0], ast.Name) and e.comparators[0].id == fn.args.args[0].arg
    )
    if not ok:
        raise TranslateError(f"is_model_valid: expected `<literal> not in {fn.args.args[0].arg}`, got {ast.unparse(body[0].value)!r}")
    return e.left.value


def strip_verbose(pat):
    out, i, in_class = [], 0, False
    while i < len(pat):
        c = pat[i]
        if c == "\\":
            out.append(pat[i:i + 2])
            i += 2
            continue
        if in_class:
            out.append(c)
            if c == "]":
                in_class = False
        elif c == "[":
            in_class = True
            out.append(c)
        elif c == "#":
            while i < len(pat) and pat[i] != "\n":
                i += 1
            continue
        elif c in " \t\n\r":
            pass
        else:
            out.append(c)
        i += 1
    return "".join(out)


VAR_SKELETON = re.compile(
    r"^\\\(\\s\*define-fun\\s\+\\\|\?\(\(\?:(?P<prefixes>[a-z_|]+)\)\[\^ \|\]\+\)\\\|\?\\s\+\\\(\\\)\\s\+\\\(_\\s\+\(\[\^ \]\+\)\\s\+\(\\d\+\)\\\)\\s\+\((?P<values>.*)\)$"
)
VALUE_FORMS = {
    r"\#b[01]+": "VBin",
    r"\#x[0-9a-fA-F]+": "VHex",
    r"\(_\s+bv\d+\s+\d+\)": "VDec",
}


def tr_var_pattern(tree):
    node = None
    for n in tree.body:
        if isinstance(n, ast.Assign) and len(n.targets) == 1 and isinstance(n.targets[0], ast.Name) and n.targets[0].id == "halmos_var_pattern":
            node = n.value
    if node is None:
        raise TranslateError("halmos_var_pattern not found")
    ok = (
        isinstance(node, ast.Call) and ast.unparse(node.func) == "re.compile" and len(node.args) == 2
        and ast.unparse(node.args[1]) == "re.VERBOSE" and not node.keywords
    )
    if not ok:
        raise TranslateError("halmos_var_pattern: expected re.compile(<literal>, re.VERBOSE)")
    flat = strip_verbose(const_str(node.args[0], "halmos_var_pattern"))
    m = VAR_SKELETON.match(flat)
    if not m:
        raise TranslateError(f"halmos_var_pattern: does not fit the expected skeleton: {flat!r}")
    prefixes = m.group("prefixes").split("|")
    if not all(re.fullmatch(r"[a-z]+_", p) for p in prefixes):
        raise TranslateError(f"halmos_var_pattern: unexpected name prefixes {prefixes}")
    forms = []
    for alt in m.group("values").split("|"):
        if alt not in VALUE_FORMS:
            raise TranslateError(f"halmos_var_pattern: unknown value syntax {alt!r}")
        forms.append(VALUE_FORMS[alt])
    return {"flat": flat, "prefixes": prefixes, "forms": forms}


def tr_parse_const_value(tree):
    """match value[:2]: case "#b": return int(value[2:], 2) ... -> [(prefix, radix)] + fallback token prefix."""
    fn = find_function(tree, "parse_const_value")
    body = strip_docstring(fn.body)
    if len(body) != 2 or not isinstance(body[0], ast.Match) or not isinstance(body[1], ast.Raise):
        raise TranslateError("parse_const_value: expected `match ...` followed by `raise`")
    m = body[0]
    if ast.unparse(m.subject) != "value[:2]":
        raise TranslateError("parse_const_value: expected `match value[:2]`")
    arms, fallback = [], None
    for case in m.cases:
        if case.guard is not None:
            raise TranslateError("parse_const_value: guards not supported")
        pat = case.pattern
        if isinstance(pat, ast.MatchValue) and isinstance(pat.value, ast.Constant) and isinstance(pat.value.value, str):
            if len(case.body) != 1 or not isinstance(case.body[0], ast.Return):
                raise TranslateError("parse_const_value: arm is not a single return")
            src = ast.unparse(case.body[0].value)
            mm = re.fullmatch(r"int\(value\[2:\](?:, (\d+))?\)", src)
            if not mm:
                raise TranslateError(f"parse_const_value: unexpected arm {src!r}")
            arms.append((pat.value.value, int(mm.group(1) or 10)))
        elif isinstance(pat, ast.MatchAs) and pat.pattern is None and pat.name is None:
            src = "\n".join(ast.unparse(s) for s in case.body)
            expect = "tokens = value.split()\nfor token in tokens:\n    if token.startswith('bv'):\n        return int(token[2:])"
            if src != expect:
                raise TranslateError(f"parse_const_value: unexpected fallback arm {src!r}")
            fallback = "bv"
        else:
            raise TranslateError("parse_const_value: unexpected case pattern")
    if fallback is None:
        raise TranslateError("parse_const_value: no wildcard arm")
    return {"arms": arms, "fallback": fallback}


# ----------------------------------------------------------------------------- main

def translate(src_text):
    tree = ast.parse(src_text)
    rules = tr_refine(tree)
    d = tr_dump(tree)
    sub = tr_is_model_valid(tree)
    vp = tr_var_pattern(tree)
    pc = tr_parse_const_value(tree)

    L = [
        "(* GENERATED by translate/t_refine.py from src/halmos/solve.py -- do not edit *)",
        "From Coq Require Import ZArith List String.",
        "From HV Require Import Model.SexpDefs.",
        "Import ListNotations.",
        "Open Scope string_scope.",
        "",
        "(* solve.refine: one rule per re.sub, in source order *)",
    ]
    for k, r in enumerate(rules):
        L.append(f"Definition rule{k}_ops : list string := [" + "; ".join(coq_str(o) for o in r["ops"]) + "].")
        L.append(f"Definition rule{k}_decl : tsx := {tsx_coq(r['decl'])}.")
        L.append(f"Definition rule{k}_repl : tsx := {tsx_coq(r['repl'])}.")
    L.append("Definition refine_rules : list rule := [" + "; ".join(
        f"mkRule rule{k}_ops rule{k}_decl rule{k}_repl" for k in range(len(rules))) + "].")
    L.append("")
    L.append("(* solve.dump: the f-strings *)")
    L.append(f"Definition dump_plain : list dpiece := {dpieces_coq(d['plain'])}.")
    L.append(f"Definition dump_cached : list dpiece := {dpieces_coq(d['cached'])}.")
    L.append(f"Definition named_assertion : list dpiece := {dpieces_coq(d['named'])}.")
    # structured view of the same literals
    named_text = "".join(p[1] if p[0] == "lit" else "@ID@" for p in d["named"])
    if not named_text.endswith("\n") or named_text.count("\n") != 1:
        raise TranslateError("dump: the named assertion must be exactly one line")
    nline = named_text[:-1]
    # parse with the id holes as G1 pieces
    npieces = []
    for p in d["named"]:
        if p[0] == "lit":
            npieces.append(("lit", p[1].rstrip("\n")) if p is d["named"][-1] else p)
        else:
            npieces.append(("g1",))
    for p in npieces:
        if p[0] == "lit" and not set(p[1]) <= (LIT_OK | set("()!|:<>")):
            raise TranslateError(f"dump: unexpected character in the named assertion {p[1]!r}")
    named_tsx = pieces_to_tsx(npieces, "named assertion")
    L.append(f"Definition named_assertion_sx : tsx := {tsx_coq(named_tsx)}.")
    for nm in ("plain", "cached"):
        pre, lits_after = split_dump(d[nm], nm)
        pre_cmds = parse_plain_sexps_ext(pre, f"dump ({nm}) header")
        post_all = "".join(lits_after)
        post_cmds = parse_plain_sexps_ext(post_all, f"dump ({nm}) trailer")
        L.append(f"Definition dump_{nm}_pre_sx : list sexp := [" + "; ".join(sexp_coq(c) for c in pre_cmds) + "].")
        L.append(f"Definition dump_{nm}_post_sx : list sexp := [" + "; ".join(sexp_coq(c) for c in post_cmds) + "].")
        d[nm + "_pre_cmds"] = pre_cmds
        d[nm + "_post_cmds"] = post_cmds
    L.append("")
    L.append("(* solve.is_model_valid: valid iff this substring does NOT occur in the solver output *)")
    L.append(f"Definition invalid_marker : string := {coq_str(sub)}.")
    L.append("")
    L.append("(* solve.halmos_var_pattern *)")
    L.append("Definition var_prefixes : list string := [" + "; ".join(coq_str(p) for p in vp["prefixes"]) + "].")
    L.append("Definition value_forms : list vform := [" + "; ".join(vp["forms"]) + "].")
    L.append("")
    L.append("(* solve.parse_const_value: (two-character prefix, radix) per arm; fallback token prefix *)")
    L.append("Definition const_arms : list (string * Z) := [" + "; ".join(f"({coq_str(p)}, {r}%Z)" for p, r in pc["arms"]) + "].")
    L.append(f"Definition const_fallback_prefix : string := {coq_str(pc['fallback'])}.")
    L.append("")
    info = {"rules": rules, "dump": d, "marker": sub, "var_pattern": vp, "const": pc}
    return "\n".join(L), info


def parse_plain_sexps_ext(text, what):
    for ch in text:
        if ch not in LIT_OK and ch not in "()\n:":
            raise TranslateError(f"{what}: unexpected character {ch!r}")
    return parse_plain_sexps(text, what)


def selfcheck(info):
    """Cross-check against the imported module: the translated rules must rewrite a
    declaration exactly as the real refine does; the dump pieces must reproduce the file
    written by the real dump; the marker must flip the real is_model_valid."""
    import tempfile
    from pathlib import Path as P
    from types import SimpleNamespace as NS

    import halmos.solve as S
    from halmos.sevm import SMTQuery

    bad = []
    for r in info["rules"]:
        for op in r["ops"] + ["exp", "bvadd"]:
            for n in ("256", "264", "512", "8"):
                decl = render_pieces(r["ppieces"], op, n)
                want = render_pieces(r["rpieces"], op, n) if op in r["ops"] else decl
                got = S.refine(SMTQuery(decl, []))
                # another rule may legitimately rewrite it
                other = any(op in r2["ops"] for r2 in info["rules"] if r2 is not r)
                if not other and got.smtlib != want:
                    bad.append(f"refine({decl!r}) = {got.smtlib!r}, translated rule gives {want!r}")
    d = info["dump"]
    with tempfile.TemporaryDirectory() as td:
        for cached in (False, True):
            q = SMTQuery("(assert true)\n", ["7", "11"])
            ctx = S.PathContext(args=NS(verbose=0, cache_solver=cached), path_id=3,
                                solving_ctx=NS(dump_dir=P(td)), query=q)
            S.dump(ctx)
            text = ctx.dump_file.read_text()
            named = "".join("".join(p[1] if p[0] == "lit" else i for p in d["named"]) for i in q.assertions)
            want = "".join(p[1] if p[0] == "lit" else (q.smtlib if p[1] == "smtlib" else named)
                           for p in (d["cached"] if cached else d["plain"]))
            if text != want:
                bad.append(f"dump(cache_solver={cached}) wrote {text!r}, translated pieces give {want!r}")
    m = info["marker"]
    if S.is_model_valid("sat\n" + m + "x") or not S.is_model_valid("sat\n" + m[:-1]):
        bad.append("is_model_valid does not behave as `marker not in stdout`")
    vp = info["var_pattern"]
    for p in vp["prefixes"]:
        if not S.halmos_var_pattern.search(f"(define-fun {p}x_uint8_00 () (_ BitVec 8) #x05)"):
            bad.append(f"halmos_var_pattern does not accept prefix {p}")
    if S.halmos_var_pattern.search("(define-fun q_x_uint8_00 () (_ BitVec 8) #x05)"):
        bad.append("halmos_var_pattern accepts an unknown prefix")
    for p, radix in info["const"]["arms"]:
        if p != "bv" and S.parse_const_value(p + "10") != int("10", radix):
            bad.append(f"parse_const_value arm {p}")
    return bad
