"""T-dumpfs: /repo/src/halmos/solve.py -> coq/Gen/GenDumpFs.v

The dump / solve protocol of C11 (which bytes does the solver process read?), as programs
in the statement language of coq/Model/DumpFsDefs.v:

  gen_dump        solve.dump: which file is written, HOW (write_text / open(.., "w") replace
                  the content, open(.., "a") appends to what is there), under which guards,
                  with which of the two texts (named assertions or not)
  gen_low_level   solve.solve_low_level: under which guards dump(path_ctx) is called, on WHICH
                  file the solver process is started, which files receive stdout / stderr
  gen_e2e_first / gen_e2e_second
                  solve.solve_end_to_end: the PathContext handed to the first and to the
                  second invocation of solve_low_level (ctx / ctx.refine())
  gen_fs_refined_infix / gen_fs_plain_infix / gen_fs_ext
                  the literals of PathContext.dump_file
  (PathContext.refine is checked to keep args / path_id / solving_ctx, to refine the query
   with solve.refine and to set is_refined=True; nothing is emitted for it)

Guards are translated, not rejected, when they are built from `<file>.exists()`,
`os.path.exists(<file>)`, `path_ctx.is_refined`, `args.cache_solver`, truthiness of the
solver's stderr and `not`; write modes "w" and "a" are translated: the theorems of
Props/C11.v then decide whether the program still makes the solver read the text of the
query of the path being solved for EVERY initial content of the file system.  Every other
shape raises TranslateError (fail-closed).  The statement walkers follow translate/t_solvefs.py
(C04, which models the outcome side of the same functions).
"""
import ast

from .pyexpr import TranslateError, find_function, strip_docstring

NAME = "T-dumpfs"
SRC = "solve.py"
OUT = "GenDumpFs.v"

SUFFIX_OK = set("abcdefghijklmnopqrstuvwxyzABCDEFGHIJKLMNOPQRSTUVWXYZ0123456789._-")
MODES = {"w": "MTrunc", "a": "MAppend"}
LOGGERS = {"print", "debug", "verbose", "info"}


def _src(n):
    try:
        return ast.unparse(n)
    except Exception:  # noqa: BLE001
        return repr(n)


def _fail(where, node, why):
    raise TranslateError(f"{where}: {why}: {_src(node)[:90]!r} at line {getattr(node, 'lineno', '?')}")


def coq_str(s):
    if not set(s) <= SUFFIX_OK:
        raise TranslateError(f"unexpected character in file-name literal {s!r}")
    return '"' + s + '"'


class Env:
    def __init__(self, where, ctx):
        self.where = where
        self.ctx = ctx          # name of the PathContext parameter
        self.args = set()       # names bound to <ctx>.args
        self.query = set()      # names bound to <ctx>.query
        self.files = {}         # name -> suffix (a file of the dump directory)
        self.cmds = {}          # name -> suffix of the file the command is given
        self.futures = {}       # name -> suffix
        self.scalars = set()    # names bound to call-free expressions / texts
        self.outs = None        # (stdout, stderr, returncode)
        self.submitted = None   # future name that was submitted

    def tracked(self, name):
        return (name in self.args or name in self.query or name in self.files or name in self.cmds
                or name in self.futures or (self.outs and name in self.outs) or name == self.ctx)

    # ---- expressions
    def is_ctx_attr(self, n, attr):
        return isinstance(n, ast.Attribute) and n.attr == attr and isinstance(n.value, ast.Name) and n.value.id == self.ctx

    def is_args(self, n):
        return (isinstance(n, ast.Name) and n.id in self.args) or self.is_ctx_attr(n, "args")

    def fexpr(self, n):
        """-> suffix if n denotes a file of the dump directory, else None"""
        if isinstance(n, ast.Name) and n.id in self.files:
            return self.files[n.id]
        if self.is_ctx_attr(n, "dump_file"):
            return ""
        if (isinstance(n, ast.Call) and isinstance(n.func, ast.Name) and n.func.id in ("str", "Path")
                and len(n.args) == 1 and not n.keywords):
            return self.fexpr(n.args[0])
        if isinstance(n, ast.JoinedStr) and n.values:
            v0 = n.values[0]
            if isinstance(v0, ast.FormattedValue) and v0.conversion == -1 and v0.format_spec is None:
                base = self.fexpr(v0.value)
                if base is None:
                    return None
                rest = ""
                for v in n.values[1:]:
                    if not (isinstance(v, ast.Constant) and isinstance(v.value, str)):
                        return None
                    rest += v.value
                return base + rest
            return None
        if isinstance(n, ast.BinOp) and isinstance(n.op, ast.Add) and isinstance(n.right, ast.Constant) and isinstance(n.right.value, str):
            base = self.fexpr(n.left)
            return None if base is None else base + n.right.value
        return None

    def pure(self, n):
        """call-free expression over untracked-effect names (may read tracked scalars)"""
        for x in ast.walk(n):
            if isinstance(x, (ast.Call, ast.Await, ast.Yield, ast.YieldFrom, ast.Lambda, ast.Subscript, ast.Starred)):
                return False
        return True

    def cond(self, n):
        if isinstance(n, ast.UnaryOp) and isinstance(n.op, ast.Not):
            return f"(KNot {self.cond(n.operand)})"
        if isinstance(n, ast.Call) and isinstance(n.func, ast.Attribute) and n.func.attr == "exists" and not n.args and not n.keywords:
            s = self.fexpr(n.func.value)
            if s is not None:
                return f"(KExists (FQ {coq_str(s)}))"
        if isinstance(n, ast.Call) and _src(n.func) in ("os.path.exists", "exists", "os.path.isfile", "isfile") and len(n.args) == 1 and not n.keywords:
            s = self.fexpr(n.args[0])
            if s is not None:
                return f"(KExists (FQ {coq_str(s)}))"
        if self.is_ctx_attr(n, "is_refined"):
            return "KRefined"
        if isinstance(n, ast.Attribute) and n.attr == "cache_solver" and self.is_args(n.value):
            return "KCache"
        if self.outs and isinstance(n, ast.Name) and n.id == self.outs[1]:
            return "KStderr"
        # equivalent spellings: bool(x), x != "", x == "", len(x) > 0 / != 0, x is True ...
        if isinstance(n, ast.Call) and isinstance(n.func, ast.Name) and n.func.id == "bool" and len(n.args) == 1 and not n.keywords:
            return self.cond(n.args[0])
        if isinstance(n, ast.Compare) and len(n.ops) == 1:
            l, op, rr = n.left, n.ops[0], n.comparators[0]
            if self.outs and isinstance(l, ast.Name) and l.id == self.outs[1] and isinstance(rr, ast.Constant) and rr.value == "":
                if isinstance(op, ast.NotEq):
                    return "KStderr"
                if isinstance(op, ast.Eq):
                    return "(KNot KStderr)"
            if (self.outs and isinstance(l, ast.Call) and _src(l) == f"len({self.outs[1]})" and isinstance(rr, ast.Constant)
                    and rr.value == 0 and isinstance(op, (ast.Gt, ast.NotEq))):
                return "KStderr"
            if isinstance(rr, ast.Constant) and isinstance(rr.value, bool) and isinstance(op, (ast.Is, ast.Eq, ast.IsNot, ast.NotEq)):
                inner = self.cond(l)
                if "KStderr" in inner:
                    _fail(self.where, n, "a text compared with a bool")
                pos = rr.value == isinstance(op, (ast.Is, ast.Eq))
                return inner if pos else f"(KNot {inner})"
        _fail(self.where, n, "unsupported guard")

    def is_verbose_test(self, n):
        return (isinstance(n, ast.Compare) and len(n.ops) == 1 and isinstance(n.left, ast.Attribute)
                and n.left.attr == "verbose" and self.is_args(n.left.value)
                and isinstance(n.comparators[0], ast.Constant) and isinstance(n.comparators[0].value, int))

    def is_log_stmt(self, st):
        if not (isinstance(st, ast.Expr) and isinstance(st.value, ast.Call) and isinstance(st.value.func, ast.Name)
                and st.value.func.id in LOGGERS):
            return False
        for a in list(st.value.args) + [k.value for k in st.value.keywords]:
            for x in ast.walk(a):
                if isinstance(x, ast.Call):
                    ok = (_src(x.func) == "shlex.join" and len(x.args) == 1 and isinstance(x.args[0], ast.Name)
                          and x.args[0].id in self.cmds)
                    if not ok:
                        return False
                if isinstance(x, (ast.NamedExpr, ast.Await, ast.Yield, ast.YieldFrom, ast.Lambda)):
                    return False
        return True


def _bind(env, target, value, nested):
    where = env.where
    if not isinstance(target, ast.Name):
        _fail(where, target, "unsupported assignment target")
    name = target.id
    if env.tracked(name):
        _fail(where, target, "a tracked name is re-bound")
    if nested:
        _fail(where, target, "assignment inside a guarded block")
    for x in ast.walk(value):
        if isinstance(x, ast.NamedExpr) and env.tracked(x.target.id):
            _fail(where, x, "a tracked name is re-bound by `:=`")
    if env.is_ctx_attr(value, "args"):
        env.args.add(name)
        return
    if env.is_ctx_attr(value, "query"):
        env.query.add(name)
        return
    s = env.fexpr(value)
    if s is not None:
        env.files[name] = s
        return
    # <args>.resolved_solver_command + [<file>]
    if (isinstance(value, ast.BinOp) and isinstance(value.op, ast.Add) and isinstance(value.left, ast.Attribute)
            and value.left.attr == "resolved_solver_command" and env.is_args(value.left.value)
            and isinstance(value.right, ast.List) and len(value.right.elts) == 1):
        s = env.fexpr(value.right.elts[0])
        if s is None:
            _fail(where, value.right, "the solver command's file argument is not a file of the dump directory")
        env.cmds[name] = s
        return
    # PopenFuture(<cmd>, timeout=<pure>)
    if isinstance(value, ast.Call) and isinstance(value.func, ast.Name) and value.func.id == "PopenFuture":
        if not (len(value.args) == 1 and isinstance(value.args[0], ast.Name) and value.args[0].id in env.cmds
                and [k.arg for k in value.keywords] == ["timeout"] and env.pure(value.keywords[0].value)):
            _fail(where, value, "expected PopenFuture(<solver command>, timeout=<expression>)")
        env.futures[name] = env.cmds[value.args[0].id]
        return
    if env.pure(value):
        env.scalars.add(name)
        return
    _fail(where, value, "unsupported right-hand side")


def _tr_low(env, stmts, nested):
    """-> list of Gallina lstmt texts"""
    where = env.where
    out = []
    i = 0
    while i < len(stmts):
        st = stmts[i]
        i += 1
        if isinstance(st, ast.Assign) and len(st.targets) == 1:
            t, v = st.targets[0], st.value
            if isinstance(t, ast.Tuple):
                if not (isinstance(v, ast.Tuple) and len(v.elts) == len(t.elts)):
                    _fail(where, st, "unsupported tuple assignment")
                names = {e.id for e in t.elts if isinstance(e, ast.Name)}
                for x in ast.walk(v):
                    if isinstance(x, ast.Name) and x.id in names:
                        _fail(where, st, "tuple assignment reads its own targets")
                for te, ve in zip(t.elts, v.elts):
                    _bind(env, te, ve, nested)
            else:
                _bind(env, t, v, nested)
            continue
        if isinstance(st, ast.Expr) and isinstance(st.value, ast.Call):
            c = st.value
            if (isinstance(c.func, ast.Name) and c.func.id == "dump" and len(c.args) == 1 and not c.keywords
                    and isinstance(c.args[0], ast.Name) and c.args[0].id == env.ctx):
                if env.submitted is not None and env.outs is None:
                    _fail(where, st, "dump while the solver is running")
                out.append("SDump")
                continue
            if (_src(c.func) == f"{env.ctx}.solving_ctx.executor.submit" and len(c.args) == 1 and not c.keywords
                    and isinstance(c.args[0], ast.Name) and c.args[0].id in env.futures):
                if nested or env.submitted is not None:
                    _fail(where, st, "the solver must be started exactly once, unconditionally")
                # the next statement must be the try that waits for it
                if i >= len(stmts) or not isinstance(stmts[i], ast.Try):
                    _fail(where, st, "submit is not followed by try: <...> = future.result()")
                fut = c.args[0].id
                env.submitted = fut
                _tr_try(env, stmts[i], fut)
                i += 1
                out.append(f"SStart (FQ {coq_str(env.futures[fut])})")
                continue
            if env.is_log_stmt(st):
                continue
            _fail(where, st, "unsupported call statement")
        if isinstance(st, ast.If):
            if env.is_verbose_test(st.test) and not st.orelse and all(env.is_log_stmt(s) for s in st.body):
                continue
            c = env.cond(st.test)
            th = _tr_low(env, st.body, True)
            el = _tr_low(env, st.orelse, True)
            out.append(f"SIf {c} [{'; '.join(th)}] [{'; '.join(el)}]")
            continue
        if isinstance(st, ast.With):
            out.append(_tr_with(env, st))
            continue
        if isinstance(st, ast.Return):
            if nested or i != len(stmts):
                _fail(where, st, "return is not the last top-level statement")
            v = st.value
            if not (isinstance(v, ast.Call) and _src(v.func) == "SolverOutput.from_result" and env.outs
                    and [_src(a) for a in v.args] == [*env.outs, env.ctx] and not v.keywords):
                _fail(where, st, "expected return SolverOutput.from_result(stdout, stderr, returncode, path_ctx)")
            out.append("SReturn")
            continue
        if isinstance(st, ast.Pass):
            continue
        _fail(where, st, "unsupported statement")
    return out


def _tr_try(env, t, fut):
    where = env.where
    if t.finalbody or t.orelse or len(t.body) != 1 or len(t.handlers) != 1:
        _fail(where, t, "unexpected try shape")
    tb = t.body[0]
    if not (isinstance(tb, ast.Assign) and len(tb.targets) == 1 and isinstance(tb.targets[0], ast.Tuple)
            and len(tb.targets[0].elts) == 3 and all(isinstance(e, ast.Name) for e in tb.targets[0].elts)
            and _src(tb.value) == f"{fut}.result()"):
        _fail(where, tb, "expected <stdout>, <stderr>, <returncode> = <future>.result()")
    outs = tuple(e.id for e in tb.targets[0].elts)
    if len(set(outs)) != 3 or any(env.tracked(n) for n in outs):
        _fail(where, tb, "result names clash")
    h = t.handlers[0]
    if h.type is None or _src(h.type) != "subprocess.TimeoutExpired" or len(h.body) != 1 or not isinstance(h.body[0], ast.Return):
        _fail(where, t, "expected a single `except subprocess.TimeoutExpired: return SolverOutput(...)`")
    call = h.body[0].value
    if not (isinstance(call, ast.Call) and _src(call.func) == "SolverOutput"):
        _fail(where, h.body[0], "expected SolverOutput(...)")
    # which result the handler reports is the subject of C04 (T-solvefs); here it only matters
    # that it returns without touching a file
    for x in ast.walk(call):
        if isinstance(x, ast.Call) and x is not call and not (isinstance(x.func, ast.Name) and x.func.id == "str"):
            _fail(where, call, "unexpected call in the timeout result")
    env.outs = outs


def _query_flag(env, a, text_vars):
    """the f-string of dump -> 'true' (named assertions interpolated) / 'false'"""
    where = env.where
    if not isinstance(a, ast.JoinedStr):
        _fail(where, a, "expected an f-string")
    holes = []
    for v in a.values:
        if isinstance(v, ast.FormattedValue):
            if v.conversion != -1 or v.format_spec is not None:
                _fail(where, a, "formatted interpolation")
            holes.append(_src(v.value))
    smt = [h for h in holes if h.endswith(".smtlib")]
    if len(smt) != 1 or not (smt[0].split(".")[0] in env.query or smt[0] == f"{env.ctx}.query.smtlib"):
        _fail(where, a, "the query text is not interpolated exactly once")
    rest = [h for h in holes if h not in smt]
    if any(h not in text_vars for h in rest) or len(rest) > 1:
        _fail(where, a, "unexpected interpolation")
    return "true" if rest else "false"


def _tr_with(env, st, text_vars=None):
    """with open(<file>, "w" | "a") as h: h.write(<text>)  ->  SWrite <file> <mode> <text>"""
    where = env.where
    if len(st.items) != 1 or st.items[0].optional_vars is None or not isinstance(st.items[0].optional_vars, ast.Name):
        _fail(where, st, "unsupported with statement")
    h = st.items[0].optional_vars.id
    if env.tracked(h):
        _fail(where, st, "a tracked name is re-bound by `with`")
    c = st.items[0].context_expr
    ok = isinstance(c, ast.Call) and not c.keywords and c.args and isinstance(c.args[-1], ast.Constant) and c.args[-1].value in MODES
    if ok and isinstance(c.func, ast.Name) and c.func.id == "open" and len(c.args) == 2:
        target = c.args[0]
    elif ok and isinstance(c.func, ast.Attribute) and c.func.attr == "open" and len(c.args) == 1:
        target = c.func.value
    else:
        _fail(where, st, 'expected with open(<file>, "w" | "a") as <h>')
    mode = MODES[c.args[-1].value]
    s = env.fexpr(target)
    if s is None:
        _fail(where, c, "not a file of the dump directory")
    if len(st.body) != 1:
        _fail(where, st, "expected a single write in the with block")
    b = st.body[0]
    if not (isinstance(b, ast.Expr) and isinstance(b.value, ast.Call) and _src(b.value.func) == f"{h}.write"
            and len(b.value.args) == 1 and not b.value.keywords):
        _fail(where, b, "expected <h>.write(<text>)")
    a = b.value.args[0]
    if text_vars is not None:  # inside dump: the text of the query
        return f"SWrite (FQ {coq_str(s)}) {mode} (TQuery {_query_flag(env, a, text_vars)})"
    if not (isinstance(a, ast.Name) and env.outs):
        _fail(where, b, "expected <h>.write(<stdout|stderr>)")
    if a.id == env.outs[0]:
        return f"SWrite (FQ {coq_str(s)}) {mode} TStdout"
    if a.id == env.outs[1]:
        return f"SWrite (FQ {coq_str(s)}) {mode} TStderr"
    _fail(where, b, "writes something other than the solver's stdout / stderr")


# ----------------------------------------------------------------------------- dump

def _tr_dump(env, stmts, nested, text_vars):
    where = env.where
    out = []
    for st in stmts:
        if isinstance(st, ast.Assign) and len(st.targets) == 1:
            t, v = st.targets[0], st.value
            if isinstance(t, ast.Tuple):
                if nested or not (isinstance(v, ast.Tuple) and len(v.elts) == len(t.elts)):
                    _fail(where, st, "unsupported tuple assignment")
                for te, ve in zip(t.elts, v.elts):
                    _bind(env, te, ve, nested)
                continue
            if isinstance(t, ast.Name) and not env.tracked(t.id):
                # a text built from query.assertions (shape pinned by T-refine): no file access allowed in it
                for x in ast.walk(v):
                    if isinstance(x, ast.Call) and not (isinstance(x.func, ast.Attribute) and x.func.attr == "join"
                                                        and isinstance(x.func.value, ast.Constant)):
                        _fail(where, x, "unexpected call in a text assignment")
                    if isinstance(x, ast.Attribute) and x.attr not in ("join", "assertions", "smtlib"):
                        _fail(where, x, "unexpected attribute in a text assignment")
                text_vars.add(t.id)
                continue
            _fail(where, st, "unsupported assignment")
        if isinstance(st, ast.If):
            if env.is_verbose_test(st.test) and not st.orelse and all(env.is_log_stmt(s) for s in st.body):
                continue
            c = env.cond(st.test)
            th = _tr_dump(env, st.body, True, text_vars)
            el = _tr_dump(env, st.orelse, True, text_vars)
            out.append(f"SIf {c} [{'; '.join(th)}] [{'; '.join(el)}]")
            continue
        if isinstance(st, ast.Expr) and isinstance(st.value, ast.Call):
            c = st.value
            if isinstance(c.func, ast.Attribute) and c.func.attr == "write_text" and len(c.args) == 1 and not c.keywords:
                s = env.fexpr(c.func.value)
                if s is None:
                    _fail(where, st, "write_text on something other than a file of the dump directory")
                out.append(f"SWrite (FQ {coq_str(s)}) MTrunc (TQuery {_query_flag(env, c.args[0], text_vars)})")
                continue
            if env.is_log_stmt(st):
                continue
            _fail(where, st, "unsupported call statement")
        if isinstance(st, ast.With):
            out.append(_tr_with(env, st, text_vars))
            continue
        if isinstance(st, ast.Pass):
            continue
        _fail(where, st, "unsupported statement")
    return out


# ----------------------------------------------------------------------------- solve_end_to_end

def _tr_e2e(tree):
    """Which PathContext each invocation of solve_low_level in solve_end_to_end receives.
    Expected skeleton (guards are free: they are the subject of C04 / T-solvedispatch):
        <ctx-free prologue, the unsat-core shortcut returning without a solver run>
        <out> = solve_low_level(<ctx>)
        if <guard>:
            <r> = <ctx>.refine()
            if <guard>: return solve_low_level(<r>)   [else: log]
        return <out>
    -> (first target, second target) in {ESelf, ERefinedCtx}"""
    where = "solve_end_to_end"
    fn = find_function(tree, "solve_end_to_end")
    if len(fn.args.args) != 1 or fn.args.vararg or fn.args.kwarg or fn.args.kwonlyargs or fn.decorator_list:
        raise TranslateError("solve_end_to_end: unexpected signature")
    ctx = fn.args.args[0].arg
    calls = []          # (call node, enclosing statement kind)
    refined_names = set()

    def target(arg):
        if isinstance(arg, ast.Name) and arg.id == ctx:
            return "ESelf"
        if isinstance(arg, ast.Name) and arg.id in refined_names:
            return "ERefinedCtx"
        if _src(arg) == f"{ctx}.refine()":
            return "ERefinedCtx"
        _fail(where, arg, "solve_low_level is handed something other than ctx / ctx.refine()")

    def walk(stmts, depth):
        for st in stmts:
            if isinstance(st, ast.Assign) and len(st.targets) == 1 and isinstance(st.targets[0], ast.Name):
                nm, v = st.targets[0].id, st.value
                if nm == ctx or nm in refined_names:
                    _fail(where, st, "the context is re-bound")
                if _src(v) == f"{ctx}.refine()":
                    refined_names.add(nm)
                    continue
                if isinstance(v, ast.Call) and _src(v.func) == "solve_low_level":
                    if len(v.args) != 1 or v.keywords:
                        _fail(where, v, "unexpected arguments of solve_low_level")
                    calls.append((target(v.args[0]), depth))
                    continue
                for x in ast.walk(v):
                    if isinstance(x, ast.Call) and _src(x.func) in ("solve_low_level", "dump", "refine", f"{ctx}.refine"):
                        _fail(where, st, "solver / dump / refine call inside an expression")
                continue
            if isinstance(st, ast.Assign):
                for x in ast.walk(st):
                    if isinstance(x, ast.Call) and _src(x.func) in ("solve_low_level", "dump", "refine", f"{ctx}.refine"):
                        _fail(where, st, "solver / dump / refine call inside an expression")
                    if isinstance(x, ast.Name) and isinstance(x.ctx, ast.Store) and (x.id == ctx or x.id in refined_names):
                        _fail(where, st, "the context is re-bound")
                continue
            if isinstance(st, ast.Return):
                v = st.value
                if isinstance(v, ast.Call) and _src(v.func) == "solve_low_level":
                    if len(v.args) != 1 or v.keywords:
                        _fail(where, v, "unexpected arguments of solve_low_level")
                    calls.append((target(v.args[0]), depth))
                    continue
                for x in ast.walk(st):
                    if isinstance(x, ast.Call) and _src(x.func) in ("solve_low_level", "dump", "refine", f"{ctx}.refine"):
                        _fail(where, st, "solver / dump / refine call inside an expression")
                continue
            if isinstance(st, ast.If):
                for x in ast.walk(st.test):
                    if isinstance(x, ast.Call) and _src(x.func) != "check_unsat_cores":
                        _fail(where, st.test, "unexpected call in a guard")
                walk(st.body, depth + 1)
                walk(st.orelse, depth + 1)
                continue
            if isinstance(st, ast.Expr) and isinstance(st.value, ast.Call):
                f = _src(st.value.func)
                if f in ("verbose", "print", "debug", "info", "warn"):
                    for x in ast.walk(st.value):
                        if isinstance(x, ast.Call) and x is not st.value:
                            _fail(where, st, "call inside a log statement")
                    continue
                _fail(where, st, "unsupported call statement")
            if isinstance(st, ast.Expr) and isinstance(st.value, ast.Constant):
                continue
            if isinstance(st, ast.Pass):
                continue
            _fail(where, st, "unsupported statement")

    walk(strip_docstring(fn.body), 0)
    if len(calls) != 2:
        raise TranslateError(f"solve_end_to_end: expected two invocations of solve_low_level, found {len(calls)}")
    (t1, d1), (t2, d2) = calls
    if d1 != 0 or d2 == 0:
        raise TranslateError("solve_end_to_end: expected the first solve_low_level unconditional and the second one guarded")
    # dump / write calls anywhere else in the function would bypass the protocol
    for x in ast.walk(fn):
        if isinstance(x, ast.Attribute) and x.attr in ("write_text", "write", "open", "unlink", "rename", "replace", "dump_file"):
            if not (x.attr == "dump_file" and _src(x) == f"{ctx}.dump_file"):
                raise TranslateError(f"solve_end_to_end: unexpected file access {_src(x)!r}")
    return t1, t2


# ----------------------------------------------------------------------------- PathContext

def _tr_pathcontext(tree):
    fn = find_function(tree, "dump_file", cls="PathContext")
    if [_src(d) for d in fn.decorator_list] != ["property"]:
        raise TranslateError("PathContext.dump_file is not a property")
    body = strip_docstring(fn.body)
    if len(body) != 3:
        raise TranslateError("PathContext.dump_file: expected three statements")
    a, b, r = body
    ok = (isinstance(a, ast.Assign) and len(a.targets) == 1 and isinstance(a.targets[0], ast.Name)
          and isinstance(a.value, ast.IfExp) and _src(a.value.test) == "self.is_refined"
          and isinstance(a.value.body, ast.Constant) and isinstance(a.value.body.value, str)
          and isinstance(a.value.orelse, ast.Constant) and isinstance(a.value.orelse.value, str))
    if not ok:
        raise TranslateError(f"PathContext.dump_file: unexpected {_src(a)!r}")
    rv = a.targets[0].id
    refined, plain = a.value.body.value, a.value.orelse.value
    ok = (isinstance(b, ast.Assign) and len(b.targets) == 1 and isinstance(b.targets[0], ast.Name)
          and isinstance(b.value, ast.JoinedStr) and len(b.value.values) == 3
          and isinstance(b.value.values[0], ast.FormattedValue) and _src(b.value.values[0].value) == "self.path_id"
          and b.value.values[0].conversion == -1 and b.value.values[0].format_spec is None
          and isinstance(b.value.values[1], ast.FormattedValue) and _src(b.value.values[1].value) == rv
          and b.value.values[1].conversion == -1 and b.value.values[1].format_spec is None
          and isinstance(b.value.values[2], ast.Constant) and isinstance(b.value.values[2].value, str))
    if not ok:
        raise TranslateError(f"PathContext.dump_file: unexpected {_src(b)!r}")
    fv = b.targets[0].id
    ext = b.value.values[2].value
    if not (isinstance(r, ast.Return) and _src(r.value) == f"Path(dirname(self.solving_ctx.dump_dir)) / {fv}"):
        raise TranslateError(f"PathContext.dump_file: unexpected {_src(r)!r}")
    rf = find_function(tree, "refine", cls="PathContext")
    rb = strip_docstring(rf.body)
    want = {"args": "self.args", "path_id": "self.path_id", "solving_ctx": "self.solving_ctx",
            "query": "refine(self.query)", "is_refined": "True"}
    ok = (len(rb) == 1 and isinstance(rb[0], ast.Return) and isinstance(rb[0].value, ast.Call)
          and _src(rb[0].value.func) == "PathContext" and not rb[0].value.args
          and {k.arg: _src(k.value) for k in rb[0].value.keywords} == want)
    if not ok:
        raise TranslateError("PathContext.refine: expected PathContext(args=self.args, path_id=self.path_id, solving_ctx=self.solving_ctx, query=refine(self.query), is_refined=True)")
    return {"refined": refined, "plain": plain, "ext": ext}


# ----------------------------------------------------------------------------- entry points

def translate(src_text):
    tree = ast.parse(src_text)
    imported = set()
    for node in tree.body:
        if isinstance(node, ast.ImportFrom) and node.module == "z3":
            imported |= {a.asname or a.name for a in node.names}
    for n in ("sat", "unsat", "unknown"):
        if n not in imported:
            raise TranslateError(f"`{n}` is not imported from z3 in solve.py")

    fn = find_function(tree, "solve_low_level")
    if len(fn.args.args) != 1 or fn.args.vararg or fn.args.kwarg or fn.args.kwonlyargs or fn.decorator_list:
        raise TranslateError("solve_low_level: unexpected signature")
    env = Env("solve_low_level", fn.args.args[0].arg)
    low = _tr_low(env, strip_docstring(fn.body), False)
    if not low or low[-1] != "SReturn":
        raise TranslateError("solve_low_level does not end in return SolverOutput.from_result(...)")
    if sum(1 for s in low if s.startswith("SStart")) != 1:
        raise TranslateError("solve_low_level: the solver is not started exactly once at top level")

    fd = find_function(tree, "dump")
    if len(fd.args.args) != 1 or fd.args.vararg or fd.args.kwarg or fd.args.kwonlyargs or fd.decorator_list:
        raise TranslateError("dump: unexpected signature")
    denv = Env("dump", fd.args.args[0].arg)
    dmp = _tr_dump(denv, strip_docstring(fd.body), False, set())
    for n in ast.walk(fd):
        if isinstance(n, (ast.Return, ast.Raise, ast.Try, ast.While, ast.For)) :
            raise TranslateError(f"dump: unsupported control flow at line {n.lineno}")

    pc = _tr_pathcontext(tree)
    e1, e2 = _tr_e2e(tree)
    info = {"low": low, "dump": dmp, "pc": pc, "e2e": [e1, e2]}
    lines = [
        "(* GENERATED by translate/t_dumpfs.py from src/halmos/solve.py -- do not edit *)",
        "From Coq Require Import List String Bool.",
        "From HV Require Import Model.DumpFsDefs.",
        "Import ListNotations.",
        "Open Scope string_scope.",
        "",
        "(* solve.dump *)",
        "Definition gen_dump : list fstmt :=",
        "  [ " + ";\n    ".join(dmp) + " ].",
        "",
        "(* solve.solve_low_level *)",
        "Definition gen_low_level : list fstmt :=",
        "  [ " + ";\n    ".join(low) + " ].",
        "",
        "(* solve.solve_end_to_end: the context of the first / second solve_low_level *)",
        f"Definition gen_e2e_first : etarget := {e1}.",
        f"Definition gen_e2e_second : etarget := {e2}.",
        "",
        "(* PathContext.dump_file: f\"{path_id}{infix}{ext}\" inside dirname(solving_ctx.dump_dir) *)",
        f"Definition gen_fs_refined_infix : string := {coq_str(pc['refined'])}.",
        f"Definition gen_fs_plain_infix : string := {coq_str(pc['plain'])}.",
        f"Definition gen_fs_ext : string := {coq_str(pc['ext'])}.",
        "",
    ]
    return "\n".join(lines), info


def selfcheck(info):
    """The emitted literals against the real PathContext.dump_file (the behaviour of the
    emitted programs is compared with the real functions, through the extracted interpreter
    of Model/DumpFsModel.v, by the X-dumpfs run of harness/props/C11.py on every run)."""
    import tempfile
    from pathlib import Path as P
    from types import SimpleNamespace as NS

    import halmos.solve as S
    from halmos.sevm import SMTQuery

    bad = []
    pc = info["pc"]
    with tempfile.TemporaryDirectory(prefix="t_dumpfs_") as td:
        for d in (P(td), tempfile.TemporaryDirectory(dir=td)):
            for refined in (False, True):
                ctx = S.PathContext(args=NS(verbose=0, cache_solver=False), path_id=7, solving_ctx=NS(dump_dir=d),
                                    query=SMTQuery("(assert true)", ["3"]), is_refined=refined)
                want = P(d if isinstance(d, P) else d.name) / ("7" + (pc["refined"] if refined else pc["plain"]) + pc["ext"])
                if ctx.dump_file != want:
                    bad.append(f"dump_file = {ctx.dump_file}, emitted literals give {want}")
                r = ctx.refine()
                if not r.is_refined or r.dump_file.parent != want.parent or r.path_id != 7:
                    bad.append("PathContext.refine does not keep the directory / path id or does not set is_refined")
    return bad

