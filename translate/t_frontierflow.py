"""T-frontierflow: /repo/src/halmos/__main__.py -> coq/Gen/GenFrontierFlow.v

What reaches the contract-level frontier cache?  `ContractContext.frontier_states` is filled lazily by
the first invariant test that needs a depth and is then reused by every later invariant test of the
contract, so everything the cached computation depends on must either be contract-level or be part of
the cache key.  This translator follows the values handed down the call chain

    run_message(ctx: FunctionContext, ...)            everything here belongs to the RUNNING TEST
      -> get_frontier(...)                            cache lookup  X.frontier_states.get(KEY)
        -> _compute_frontier(...)                     cache store   frontier_states[KEY] = next_exs
          -> run_target_contract(...)
            -> run_target_function(args, ex, ...)     explores one target transaction under `args`

by a flow-insensitive provenance analysis (labels: T = derived from the running test's FunctionContext,
C = derived from the shared ContractContext, D = the depth loop variable).  The provenance of an
expression is the union of the provenances of the names in it; `<test ctx>.contract_ctx` is the one place
where a test-level object hands out the contract-level one.  Emitted:

    explore_cfg_src      : cfg_src       SrcContract | SrcTest -- whose config explores the target transactions
    frontier_test_inputs : list string   every parameter / local of get_frontier, _compute_frontier,
                                         run_target_contract (and argument of run_target_function) that
                                         carries T
    cache_key_depth_only : bool          lookup key and store key are exactly the depth

Fail-closed: each link of the chain must be called exactly once in the module, by name, with plain
positional / keyword arguments; run_tests must build the test's FunctionContext from the single
`with_devdoc(BASE, ...)` and the shared `ctx`, where BASE starts as `ctx.args` and is either never reassigned
(`test_cfg_base_src := SrcContract`) or is the loop-carried result of with_devdoc itself (`SrcTest`); run_tests / run_test / run_message must not store into
the ContractContext; run_contract initialises the frontier with the post-setUp state alone
(`ctx.frontier_states[0] = [setup_ex]`) and either leaves `ctx.visited` empty or registers exactly that state
(`ctx.visited.add(get_state_id(setup_ex))`): emitted as `setup_state_visited : bool` (Model.init_ctx) -- before
its single call of run_tests.
"""
import ast

from .pyexpr import TranslateError, find_function

NAME = "T-frontierflow"
SRC = "__main__.py"
OUT = "GenFrontierFlow.v"

CHAIN = ["run_message", "get_frontier", "_compute_frontier", "run_target_contract", "run_target_function"]
T, C, D = "T", "C", "D"


def _src(node):
    try:
        return ast.unparse(node)
    except Exception:  # noqa: BLE001
        return repr(node)


def _fail(why, node=None):
    at = f" at line {getattr(node, 'lineno', '?')}: {_src(node)[:120]!r}" if node is not None else ""
    raise TranslateError(f"T-frontierflow: {why}{at}")


def _walk(node):
    """all nodes of a function body, not descending into nested function / class definitions"""
    yield node
    for ch in ast.iter_child_nodes(node):
        if isinstance(ch, (ast.FunctionDef, ast.AsyncFunctionDef, ast.ClassDef)):
            _fail("nested definition inside a function of the frontier chain", ch)
        yield from _walk(ch)


def prov(e, env):
    """provenance labels of an expression"""
    if isinstance(e, ast.Name):
        return env.get(e.id, frozenset())
    if isinstance(e, ast.Attribute) and e.attr == "contract_ctx":
        base = prov(e.value, env)
        if T in base:
            return (base - {T}) | {C}          # FunctionContext.contract_ctx: the shared ContractContext
        return base
    out = frozenset()
    for ch in ast.iter_child_nodes(e):
        if isinstance(ch, (ast.expr, ast.comprehension, ast.keyword, ast.Starred)):
            out |= prov(ch, env)
    return out


def _target_names(t):
    if isinstance(t, ast.Name):
        return [t.id]
    if isinstance(t, (ast.Tuple, ast.List)):
        return [n for x in t.elts for n in _target_names(x)]
    if isinstance(t, ast.Starred):
        return _target_names(t.value)
    return []            # attribute / subscript stores: collected separately


def _store_roots(t):
    """root expressions of attribute / subscript store targets"""
    if isinstance(t, (ast.Attribute, ast.Subscript)):
        return [t]
    if isinstance(t, (ast.Tuple, ast.List)):
        return [r for x in t.elts for r in _store_roots(x)]
    return []


def params_of(fn):
    a = fn.args
    if a.vararg or a.kwarg or a.posonlyargs or a.kwonlyargs:
        _fail(f"{fn.name}: only plain parameters are modelled", fn)
    return [x.arg for x in a.args]


def analyse(fn, env0, depth_loop=False):
    """least fixpoint of the assignments of fn; returns (env, stores) where stores = [(target node, labels of the value)]"""
    env = dict(env0)
    for _ in range(50):
        changed = False

        def bind(names, labels):
            nonlocal changed
            for n in names:
                new = env.get(n, frozenset()) | labels
                if n not in env or new != env[n]:
                    env[n] = new
                    changed = True

        for n in _walk(fn):
            if isinstance(n, ast.Assign):
                lab = prov(n.value, env)
                for t in n.targets:
                    bind(_target_names(t), lab)
            elif isinstance(n, ast.AnnAssign) and n.value is not None:
                bind(_target_names(n.target), prov(n.value, env))
            elif isinstance(n, ast.AugAssign):
                bind(_target_names(n.target), prov(n.value, env))
            elif isinstance(n, ast.NamedExpr):
                bind(_target_names(n.target), prov(n.value, env))
            elif isinstance(n, (ast.For, ast.comprehension)):
                it = n.iter
                if (depth_loop and isinstance(n, ast.For) and isinstance(it, ast.Call) and isinstance(it.func, ast.Name)
                        and it.func.id == "range" and isinstance(n.target, ast.Name)):
                    bind([n.target.id], frozenset({D}))           # for depth in range(max_call_depth + 1)
                else:
                    bind(_target_names(n.target), prov(it, env))
            elif isinstance(n, ast.With):
                for item in n.items:
                    if item.optional_vars is not None:
                        bind(_target_names(item.optional_vars), prov(item.context_expr, env))
            elif isinstance(n, (ast.Global, ast.Nonlocal)):
                _fail(f"{fn.name}: global / nonlocal state", n)
        if not changed:
            break
    else:
        _fail(f"{fn.name}: provenance analysis did not converge")
    stores = []
    for n in _walk(fn):
        targets = []
        if isinstance(n, ast.Assign):
            targets, val = n.targets, n.value
        elif isinstance(n, (ast.AnnAssign, ast.AugAssign)) and n.value is not None:
            targets, val = [n.target], n.value
        for t in targets:
            for r in _store_roots(t):
                stores.append((r, prov(val, env)))
        # setattr(x, ...) / object.__setattr__(x, ...) (how frozen dataclasses are written to)
        if isinstance(n, ast.Call) and _src(n.func) in ("setattr", "object.__setattr__") and n.args:
            stores.append((n.args[0], prov(n.args[-1], env)))
    return env, stores


def calls_to(node, name):
    return [n for n in ast.walk(node) if isinstance(n, ast.Call) and isinstance(n.func, ast.Name) and n.func.id == name]


def bind_call(call, callee, env):
    """provenance of every parameter of `callee` for this call"""
    ps = params_of(callee)
    if any(isinstance(a, ast.Starred) for a in call.args) or any(k.arg is None for k in call.keywords):
        _fail(f"call of {callee.name} with * / ** arguments", call)
    if len(call.args) > len(ps):
        _fail(f"too many arguments for {callee.name}", call)
    out = {}
    for p, a in zip(ps, call.args):
        out[p] = prov(a, env)
    for k in call.keywords:
        if k.arg not in ps or k.arg in out:
            _fail(f"unexpected keyword {k.arg} for {callee.name}", call)
        out[k.arg] = prov(k.value, env)
    ndef = len(callee.args.defaults)
    for i, p in enumerate(ps):
        if p not in out:
            if i < len(ps) - ndef:
                _fail(f"parameter {p} of {callee.name} not passed", call)
            d = callee.args.defaults[i - (len(ps) - ndef)]
            if not isinstance(d, ast.Constant):
                _fail(f"non-constant default for {callee.name}.{p}", d)
            out[p] = frozenset()
    return out


def _single_call(tree, caller, callee_name, elsewhere_ok=False):
    """the one call of callee_name in the module, which must be inside `caller` (the leaf of the chain,
    run_target_function, is also used by execute_simple_getter during setUp: elsewhere_ok)"""
    refs = [n for n in ast.walk(tree) if isinstance(n, ast.Name) and n.id == callee_name]
    inside = calls_to(caller, callee_name)
    if len(inside) != 1 or (len(refs) != 1 and not elsewhere_ok):
        _fail(f"{callee_name} must be referenced exactly once, by a call inside {caller.name} "
              f"(found {len(inside)} calls there, {len(refs)} references in the module)")
    return inside[0]


def check_run_tests(tree):
    """run_tests(ctx: ContractContext, ...): test_config = with_devdoc(ctx.args, funsig, ...);
    FunctionContext(args=test_config, contract_ctx=ctx, ...); no stores into ctx"""
    fn = find_function(tree, "run_tests")
    ps = params_of(fn)
    if not ps:
        _fail("run_tests without parameters", fn)
    env, stores = analyse(fn, {ps[0]: frozenset({C})})
    for t, _lab in stores:
        if prov(t, env) and prov(t, env) <= {C}:
            _fail("run_tests stores into the ContractContext", t)
    fcs = calls_to(fn, "FunctionContext")
    if len(fcs) != 1:
        _fail(f"run_tests: expected one FunctionContext(...) call, found {len(fcs)}", fn)
    kw = {k.arg: k.value for k in fcs[0].keywords}
    if fcs[0].args or "args" not in kw or "contract_ctx" not in kw:
        _fail("run_tests: FunctionContext(...) must pass args= and contract_ctx= by keyword", fcs[0])
    if not (isinstance(kw["contract_ctx"], ast.Name) and kw["contract_ctx"].id == ps[0]):
        _fail("run_tests: the test's contract_ctx is not the shared ContractContext", kw["contract_ctx"])
    if not isinstance(kw["args"], ast.Name):
        _fail("run_tests: args= of the test's FunctionContext is not a plain name", kw["args"])
    cfg_name = kw["args"].id

    def defs_of(name):
        return [n for n in _walk(fn) if isinstance(n, ast.Assign) and any(name in _target_names(t) for t in n.targets)]

    def is_devdoc(n):
        return (isinstance(n.value, ast.Call) and isinstance(n.value.func, ast.Name) and n.value.func.id == "with_devdoc"
                and len(n.value.args) >= 1)

    dd = [n for n in defs_of(cfg_name) if is_devdoc(n)]
    if len(dd) != 1 or len(calls_to(fn, "with_devdoc")) != 1:
        _fail(f"run_tests: {cfg_name} is not the result of the single with_devdoc(...) call", fn)
    loops = [n for n in _walk(fn) if isinstance(n, ast.For) and any(x is dd[0] for x in ast.walk(n))]
    if len(loops) != 1:
        _fail("run_tests: with_devdoc(...) is expected inside the single loop over the test functions", dd[0])
    base = dd[0].value.args[0]
    contract_cfg = f"{ps[0]}.args"
    if _src(base) == contract_cfg:
        base_defs = []
    elif isinstance(base, ast.Name):
        base_defs = defs_of(base.id)
    else:
        _fail("run_tests: the base config of with_devdoc(...) is neither a name nor the contract's config", base)
    outside = [n for n in base_defs if not any(x is n for x in ast.walk(loops[0]))]
    inside = [n for n in base_defs if any(x is n for x in ast.walk(loops[0]))]
    if _src(base) != contract_cfg and not (len(outside) == 1 and _src(outside[0].value) == contract_cfg and len(outside[0].targets) == 1):
        _fail(f"run_tests: the base config {_src(base)} does not start as the contract-level config", dd[0])
    if not inside:
        base_src = "SrcContract"          # every test: with_devdoc(<contract config>, funsig)
    elif inside == [dd[0]]:
        base_src = "SrcTest"              # loop-carried: with_devdoc(<config of the previous test>, funsig)
    else:
        _fail(f"run_tests: the base config {_src(base)} is reassigned inside the loop", inside[0])
    # the test's own config must be used for nothing but the test (no other definition)
    if [n for n in defs_of(cfg_name) if n is not dd[0] and n not in outside]:
        _fail(f"run_tests: {cfg_name} has further definitions", fn)
    return {"test_cfg": _src(dd[0].value), "contract_ctx": ps[0], "test_cfg_base_src": base_src}


def check_run_contract(tree):
    """run_contract(ctx): ctx.frontier_states[0] = [setup_ex]; ctx.visited.add(get_state_id(setup_ex));
    run_tests(ctx, setup_ex, ...) -- the initial caches hold the post-setUp state and nothing else (Model.init_ctx);
    whether the visited.add is there is reported (setup_visited)"""
    fn = find_function(tree, "run_contract")
    ps = params_of(fn)
    if len(ps) != 1:
        _fail("run_contract: one parameter (the ContractContext) expected", fn)
    c = ps[0]
    body = [n for n in _walk(fn)]
    stores = [n for n in body if isinstance(n, ast.Assign) and any("frontier_states" in _src(t) for t in n.targets)]
    if len(stores) != 1 or _src(stores[0].targets[0]) != f"{c}.frontier_states[0]" or not (
            isinstance(stores[0].value, ast.List) and len(stores[0].value.elts) == 1 and isinstance(stores[0].value.elts[0], ast.Name)):
        _fail(f"run_contract: expected the single store `{c}.frontier_states[0] = [<setup state>]`", stores[0] if stores else fn)
    setup_name = stores[0].value.elts[0].id
    # the visited set: either untouched (the setUp state is not "visited") or exactly `ctx.visited.add(get_state_id(setup_ex))`
    vis = [n for n in body if isinstance(n, (ast.Attribute, ast.Name)) and (getattr(n, "attr", None) == "visited" or getattr(n, "id", None) == "visited")]
    vis_calls = [n for n in body if isinstance(n, ast.Call) and "visited" in _src(n.func)]
    if not vis:
        setup_visited = False
    elif len(vis) == 1 and len(vis_calls) == 1 and _src(vis_calls[0]) == f"{c}.visited.add(get_state_id({setup_name}))":
        setup_visited = True
    else:
        _fail(f"run_contract: the visited set is neither left empty nor initialised by `{c}.visited.add(get_state_id({setup_name}))`", vis[0])
    rts = calls_to(fn, "run_tests")
    if (len(rts) != 1 or [_src(a) for a in rts[0].args[:2]] != [c, setup_name] or rts[0].lineno < stores[0].lineno
            or (vis_calls and rts[0].lineno < vis_calls[0].lineno)):
        _fail(f"run_contract: expected `run_tests({c}, {setup_name}, ...)` after the cache initialisation", rts[0] if rts else fn)
    if sum(1 for n in ast.walk(tree) if isinstance(n, ast.Name) and n.id == "run_tests") != 1:
        _fail("run_tests must be called exactly once in the module (by run_contract)")
    return {"setup_state": setup_name, "setup_visited": setup_visited}


def translate(src_text):
    tree = ast.parse(src_text)
    rc = check_run_contract(tree)
    fns = {n: find_function(tree, n) for n in CHAIN}
    sigs = {n: params_of(f) for n, f in fns.items()}
    rt = check_run_tests(tree)

    # -- run_message: everything belongs to the running test
    rm = fns["run_message"]
    env_rm, stores = analyse(rm, {p: frozenset({T}) for p in sigs["run_message"]}, depth_loop=True)
    for t, _lab in stores:
        lab = prov(t, env_rm)
        if lab and T not in lab:
            _fail("run_message stores into the ContractContext", t)
    rtest = find_function(tree, "run_test")
    env_t, stores_t = analyse(rtest, {p: frozenset({T}) for p in params_of(rtest)})
    for t, _lab in stores_t:
        lab = prov(t, env_t)
        if lab and T not in lab:
            _fail("run_test stores into the ContractContext", t)
    if len(calls_to(rtest, "run_message")) != 1:
        _fail("run_test must call run_message exactly once", rtest)

    envs = {}
    call = _single_call(tree, rm, "get_frontier")
    envs["get_frontier"], _ = analyse(fns["get_frontier"], bind_call(call, fns["get_frontier"], env_rm))

    # -- get_frontier: the cache lookup
    gf = fns["get_frontier"]
    lookups = [n for n in ast.walk(gf) if isinstance(n, ast.Call) and isinstance(n.func, ast.Attribute) and n.func.attr == "get"
               and isinstance(n.func.value, ast.Attribute) and n.func.value.attr == "frontier_states"]
    if len(lookups) != 1 or len(lookups[0].args) != 1 or lookups[0].keywords:
        _fail("get_frontier: expected exactly one `<ctx>.frontier_states.get(<key>)`", gf)
    owner = prov(lookups[0].func.value.value, envs["get_frontier"])
    if owner != {C}:
        _fail(f"get_frontier: the cache does not live in the ContractContext (provenance {sorted(owner)})", lookups[0])
    key_lookup = prov(lookups[0].args[0], envs["get_frontier"])
    if sum(1 for n in ast.walk(gf) if isinstance(n, ast.Return)) != 2:
        _fail("get_frontier: expected `return <cached>` and `return _compute_frontier(...)`", gf)

    call = _single_call(tree, gf, "_compute_frontier")
    envs["_compute_frontier"], stores_cf = analyse(fns["_compute_frontier"], bind_call(call, fns["_compute_frontier"], envs["get_frontier"]))

    # -- _compute_frontier: the cache store
    cf = fns["_compute_frontier"]
    env_cf = envs["_compute_frontier"]
    key_store = None
    for t, _lab in stores_cf:
        if isinstance(t, ast.Subscript) and "frontier_states" in _src(t.value):
            if key_store is not None:
                _fail("_compute_frontier: more than one store into frontier_states", t)
            if prov(t.value, env_cf) != {C}:
                _fail("_compute_frontier: frontier_states is not the ContractContext's", t)
            key_store = prov(t.slice, env_cf)
    if key_store is None:
        _fail("_compute_frontier: no `frontier_states[<key>] = ...` store", cf)

    call = _single_call(tree, cf, "run_target_contract")
    envs["run_target_contract"], _ = analyse(fns["run_target_contract"], bind_call(call, fns["run_target_contract"], env_cf))
    call = _single_call(tree, fns["run_target_contract"], "run_target_function", elsewhere_ok=True)
    rtf_args = bind_call(call, fns["run_target_function"], envs["run_target_contract"])
    if sigs["run_target_function"][0] != "args":
        _fail("run_target_function: the first parameter is expected to be the config `args`")
    cfg_lab = rtf_args["args"]
    if T in cfg_lab:
        cfg_src = "SrcTest"
    elif cfg_lab == {C}:
        cfg_src = "SrcContract"
    else:
        _fail(f"the config of the target transactions has provenance {sorted(cfg_lab)}")

    tainted = []
    for f in ("get_frontier", "_compute_frontier", "run_target_contract"):
        tainted += [f"{f}.{n}" for n, lab in sorted(envs[f].items()) if T in lab]
    tainted += [f"run_target_function.{n}" for n, lab in sorted(rtf_args.items()) if T in lab]
    key_ok = key_lookup == {D} and key_store == {D}

    def strs(xs):
        return "[" + "; ".join(f'"{x}"%string' for x in xs) + "]"

    lines = [
        "(* GENERATED by translate/t_frontierflow.py from src/halmos/__main__.py -- do not edit *)",
        "From Coq Require Import List String Bool.",
        "Import ListNotations.",
        "",
        "(* whose HalmosConfig is meant: the contract's (ContractContext.args) or the running test's",
        "   (FunctionContext.args = with_devdoc(contract config, test signature)) *)",
        "Inductive cfg_src := SrcContract | SrcTest.",
        "",
        "(* the config handed to run_target_function by run_target_contract, traced back through",
        "   _compute_frontier <- get_frontier <- run_message *)",
        f"Definition explore_cfg_src : cfg_src := {cfg_src}.",
        "",
        "(* parameters / locals of the frontier computation that carry a value of the running test *)",
        f"Definition frontier_test_inputs : list string := {strs(tainted)}.",
        "",
        "(* ContractContext.frontier_states is read and written under the depth alone *)",
        f"Definition cache_key_depth_only : bool := {'true' if key_ok else 'false'}.",
        "",
        "(* run_tests: the config of a test is with_devdoc(BASE, funsig); BASE is the contract's config for every test",
        "   (SrcContract) or the config of the test that ran before it (SrcTest: annotations stack) *)",
        f"Definition test_cfg_base_src : cfg_src := {rt['test_cfg_base_src']}.",
        "",
        "(* run_contract registers the id of the post-setUp state in ContractContext.visited *)",
        f"Definition setup_state_visited : bool := {'true' if rc['setup_visited'] else 'false'}.",
        "",
    ]
    info = {"explore_cfg_src": cfg_src, "frontier_test_inputs": tainted, "cache_key_depth_only": key_ok, "setup_state_visited": rc["setup_visited"], "test_cfg_base_src": rt["test_cfg_base_src"],
            "key_lookup": sorted(key_lookup), "key_store": sorted(key_store), "signatures": sigs, "run_tests": rt, "run_contract": rc,
            "target_cfg_provenance": sorted(cfg_lab)}
    return "\n".join(lines), info


def selfcheck(info):
    """the imported module has the functions of the chain with the parameter lists that were analysed"""
    import inspect

    import halmos.__main__ as hm

    bad = []
    for name, ps in info["signatures"].items():
        fn = getattr(hm, name, None)
        if fn is None:
            bad.append(f"halmos.__main__.{name} does not exist at run time")
            continue
        got = list(inspect.signature(fn).parameters)
        if got != ps:
            bad.append(f"{name}: run-time parameters {got}, source text {ps}")
    return bad
