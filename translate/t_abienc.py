"""T-abienc: /repo/src/halmos/calldata.py -> coq/Gen/GenAbiEnc.v

Regenerates the first-order pieces of the calldata encoder that the Coq model
(Model/AbiEncModel.v) is built on:

* `size_pad_right = <expr over size>`                  -> gen_pad : Z -> Z
* `head_size(x): return <expr over x.size, x.static>`  -> gen_head_size : Z -> bool -> Z
* the three EncodingResult(...) returns of Calldata.encode, in source order
  (T[] / bytes,string / static word): the constant added to the payload size and the
  static flag of each; the bit widths of the BitVec symbols          -> gen_* constants
* `typ.typ in [<literals>]`                            -> gen_dyn_base_names
* the supported-type regex of parse_type              -> gen_supported_alts
  (each alternative must have the shape  u?<word>[0-9]*  with both decorations optional)
* the array-suffix regex (must be literally the one the model's match_array implements)
* `typ == "<literal>"` (the tuple marker)              -> gen_s_tuple

Only what is translated is inspected; the control flow of encode / encode_tuple /
get_dyn_sizes is modelled by hand and pinned by the correspondence run, so harmless
rewrites there do not disturb this translator.  Fail-closed on the translated pieces.
"""
import ast
import re

from .pyexpr import TranslateError, Translator, find_function, strip_docstring

NAME = "T-abienc"
SRC = "calldata.py"
OUT = "GenAbiEnc.v"

ARRAY_RE = r"^(.*)(\[([0-9]*)\])$"


def coq_str(s):
    return "[" + "; ".join(str(ord(ch)) for ch in s) + "]"


class _Attr(ast.NodeTransformer):
    """x.size -> x_size (so that pyexpr can treat attributes of a record as variables)"""

    def visit_Attribute(self, node):
        self.generic_visit(node)
        if isinstance(node.value, ast.Name):
            return ast.copy_location(ast.Name(id=f"{node.value.id}_{node.attr}", ctx=ast.Load()), node)
        return node


def _walk(fn, kind):
    return [n for n in ast.walk(fn) if isinstance(n, kind)]


def _calls(fn, name):
    out = []
    for n in _walk(fn, ast.Call):
        f = n.func
        if (isinstance(f, ast.Name) and f.id == name) or (isinstance(f, ast.Attribute) and f.attr == name):
            out.append(n)
    return out


def parse_supported_regex(pat):
    """^(alt|alt|...)$ with alt = [u?]word[[0-9]*]  ->  [(optu, word, digits)]"""
    m = re.fullmatch(r"\^\((.*)\)\$", pat)
    if not m:
        raise TranslateError(f"supported-type regex: unexpected anchoring {pat!r}")
    alts = []
    for a in m.group(1).split("|"):
        m2 = re.fullmatch(r"(u\?)?([a-z]+)(\[0-9\]\*)?", a)
        if not m2:
            raise TranslateError(f"supported-type regex: unexpected alternative {a!r}")
        alts.append((bool(m2.group(1)), m2.group(2), bool(m2.group(3))))
    return alts


def _const_plus(sz, what):
    """`<int literal> + <anything>` or `<anything> + <int literal>` -> the literal"""
    if isinstance(sz, ast.BinOp) and isinstance(sz.op, ast.Add):
        for a in (sz.left, sz.right):
            if isinstance(a, ast.Constant) and isinstance(a.value, int) and not isinstance(a.value, bool):
                return a.value
    raise TranslateError(f"encode: size expression of the {what} result is not `<literal> + <payload size>`: {ast.unparse(sz)}")


def translate(src_text):
    tree = ast.parse(src_text)
    info = {}

    # ---- parse_type: the two regexes and the tuple literal
    pt = find_function(tree, "parse_type")
    pats = []
    for c in _calls(pt, "search"):
        if not (isinstance(c.func, ast.Attribute) and isinstance(c.func.value, ast.Name) and c.func.value.id == "re"):
            raise TranslateError("parse_type: search() is not re.search")
        if len(c.args) != 2 or not isinstance(c.args[0], ast.Constant) or not isinstance(c.args[0].value, str) or c.keywords:
            raise TranslateError("parse_type: re.search pattern is not a literal / has flags")
        pats.append(c.args[0].value)
    if len(pats) != 2:
        raise TranslateError(f"parse_type: expected 2 re.search calls, found {len(pats)}")
    if pats[0] != ARRAY_RE:
        raise TranslateError(f"parse_type: array regex changed: {pats[0]!r} (model implements {ARRAY_RE!r})")
    alts = parse_supported_regex(pats[1])
    info["array_re"], info["supported_re"], info["alts"] = pats[0], pats[1], alts
    tup = [n for n in _walk(pt, ast.Compare)
           if len(n.ops) == 1 and isinstance(n.ops[0], ast.Eq)
           and isinstance(n.comparators[0], ast.Constant) and isinstance(n.comparators[0].value, str)
           and n.comparators[0].value != ""]
    if len(tup) != 1:
        raise TranslateError("parse_type: expected exactly one comparison with a non-empty string literal (the tuple marker)")
    s_tuple = tup[0].comparators[0].value
    groups = sorted(c.args[0].value for c in _calls(pt, "group") if c.args and isinstance(c.args[0], ast.Constant))
    if groups != [1, 3]:
        raise TranslateError(f"parse_type: expected match.group(1) and match.group(3), found {groups}")

    # ---- Calldata.encode
    enc = find_function(tree, "encode", cls="Calldata")
    assigns = [n for n in _walk(enc, ast.Assign) if len(n.targets) == 1 and isinstance(n.targets[0], ast.Name)]
    pad = [a for a in assigns if a.targets[0].id == "size_pad_right"]
    if len(pad) != 1:
        raise TranslateError("encode: expected one assignment to size_pad_right")
    gen_pad = Translator(names={"size": "size"}).tr(pad[0].value).as_Z()
    ins = [n for n in _walk(enc, ast.Compare) if len(n.ops) == 1 and isinstance(n.ops[0], ast.In)]
    if len(ins) != 1 or not isinstance(ins[0].comparators[0], (ast.List, ast.Tuple, ast.Set)):
        raise TranslateError("encode: expected one `... in [<literals>]` test")
    dyn_names = []
    for e in ins[0].comparators[0].elts:
        if not (isinstance(e, ast.Constant) and isinstance(e.value, str)):
            raise TranslateError("encode: non-literal in dynamic base type list")
        dyn_names.append(e.value)
    rets = [n for n in ast.walk(enc) if isinstance(n, ast.Return) and isinstance(n.value, ast.Call)
            and isinstance(n.value.func, ast.Name) and n.value.func.id == "EncodingResult"]
    rets.sort(key=lambda n: n.lineno)
    rets = [n.value for n in rets]
    if len(rets) != 3:
        raise TranslateError(f"encode: expected 3 EncodingResult returns, found {len(rets)}")
    consts = {}
    for tag, r in zip(("dyn", "bytes", "static"), rets):
        if len(r.args) != 3 or r.keywords:
            raise TranslateError("encode: EncodingResult arity")
        flag = r.args[2]
        if not (isinstance(flag, ast.Constant) and isinstance(flag.value, bool)):
            raise TranslateError("encode: static flag is not a literal")
        consts[f"gen_{tag}_static"] = "true" if flag.value else "false"
        sz = r.args[1]
        if tag == "static":
            if not (isinstance(sz, ast.Constant) and isinstance(sz.value, int)):
                raise TranslateError("encode: static size is not a literal")
            consts["gen_static_size"] = sz.value
        else:
            consts[f"gen_{tag}_len_bytes"] = _const_plus(sz, tag)
    # BitVec widths: one literal (the word symbol) and one `<literal> * size_pad_right`
    lit, per = [], []
    for c in _calls(enc, "BitVec"):
        if len(c.args) != 2:
            raise TranslateError("encode: BitVec arity")
        w = c.args[1]
        if isinstance(w, ast.Constant) and isinstance(w.value, int):
            lit.append(w.value)
        elif isinstance(w, ast.BinOp) and isinstance(w.op, ast.Mult):
            ks = [a.value for a in (w.left, w.right) if isinstance(a, ast.Constant) and isinstance(a.value, int)]
            vs = [a.id for a in (w.left, w.right) if isinstance(a, ast.Name)]
            if len(ks) != 1 or vs != ["size_pad_right"]:
                raise TranslateError(f"encode: BitVec width changed: {ast.unparse(w)}")
            per.append(ks[0])
        else:
            raise TranslateError(f"encode: BitVec width changed: {ast.unparse(w)}")
    if len(lit) != 1 or len(per) != 1:
        raise TranslateError(f"encode: expected one word symbol and one bytes symbol, found widths {lit} / {per}")
    consts["gen_static_bits"] = lit[0]
    consts["gen_bits_per_byte"] = per[0]

    # ---- get_dyn_sizes: width of the size symbol
    gds = find_function(tree, "get_dyn_sizes", cls="Calldata")
    sv = _calls(gds, "BitVec")
    if len(sv) != 1 or len(sv[0].args) != 2 or not (isinstance(sv[0].args[1], ast.Constant) and isinstance(sv[0].args[1].value, int)):
        raise TranslateError("get_dyn_sizes: size symbol changed")
    consts["gen_sizevar_bits"] = sv[0].args[1].value

    # ---- encode_tuple: head_size
    et = find_function(tree, "encode_tuple", cls="Calldata")
    hs = [n for n in et.body if isinstance(n, ast.FunctionDef) and n.name == "head_size"]
    if len(hs) != 1 or len(hs[0].args.args) != 1:
        raise TranslateError("encode_tuple: head_size(x) not found")
    arg = hs[0].args.args[0].arg
    hbody = strip_docstring(hs[0].body)
    if len(hbody) != 1 or not isinstance(hbody[0], ast.Return):
        raise TranslateError("encode_tuple: head_size is not a single return")
    expr = _Attr().visit(hbody[0].value)
    tr2 = Translator(names={f"{arg}_size": "size", f"{arg}_static": "static"}, bool_names={f"{arg}_static"})
    gen_head = tr2.tr(expr).as_Z()

    lines = [
        "(* GENERATED by translate/t_abienc.py from src/halmos/calldata.py -- do not edit *)",
        "From Coq Require Import ZArith List Bool.",
        "Import ListNotations.",
        "Open Scope Z_scope.",
        "",
        f"Definition gen_pad (size : Z) : Z := {gen_pad}.",
        f"Definition gen_head_size (size : Z) (static : bool) : Z := {gen_head}.",
    ]
    for k, v in consts.items():
        ty = "bool" if v in ("true", "false") else "Z"
        lines.append(f"Definition {k} : {ty} := {v}.")
    lines.append("Definition gen_dyn_base_names : list (list Z) := [" + "; ".join(coq_str(s) for s in dyn_names) + "].")
    lines.append("Definition gen_supported_alts : list (bool * list Z * bool) := ["
                 + "; ".join(f"({'true' if u else 'false'}, {coq_str(w)}, {'true' if d else 'false'})" for u, w, d in alts) + "].")
    lines.append(f"Definition gen_s_tuple : list Z := {coq_str(s_tuple)}.")
    lines.append("")
    info.update(consts=consts, dyn_names=dyn_names, s_tuple=s_tuple, gen_pad=gen_pad, gen_head=gen_head)
    return "\n".join(lines), info


def selfcheck(info):
    """Cross-check the translated pieces against the imported module."""
    bad = []
    import halmos.calldata as cd

    # the decomposed regex must accept/reject exactly like the real one on a probe set
    probes = ["uint256", "int8", "uint", "int", "u", "uuint8", "address", "addres", "address1", "bool", "bool8", "bytes",
              "bytes32", "bytes3x", "string", "string1", "tuple", "tuple1", "function", "fixed128x18", "ufixed8x1", "",
              "ubytes", "ustring", "uint256 ", " uint256", "Uint256", "uint256\n", "bytes\n", "int-1"]
    for p in probes:
        real = re.search(info["supported_re"], p) is not None
        s = p[:-1] if p.endswith("\n") else p
        mine = False
        for optu, w, dig in info["alts"]:
            for s0 in ([s, s[1:]] if optu and s.startswith("u") else [s]):
                if s0.startswith(w):
                    rest = s0[len(w):]
                    if (rest == "") or (dig and all(c in "0123456789" for c in rest)):
                        mine = True
        if real != mine:
            bad.append(f"supported-type regex decomposition disagrees with re on {p!r}: re={real} alts={mine}")
    try:
        cd.parse_type("", "function", {})
        bad.append("parse_type accepted `function`")
    except NotImplementedError:
        pass
    except Exception as e:  # noqa: BLE001
        bad.append(f"parse_type('function') raised {type(e).__name__}")
    return bad
