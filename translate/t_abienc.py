"""T-abienc: /repo/src/halmos/calldata.py -> coq/Gen/GenAbiEnc.v

Regenerates the first-order pieces of the calldata encoder that the Coq model
(Model/AbiEncModel.v) is built on:

* `size_pad_right = ((size + 31) // 32) * 32`        -> gen_pad : Z -> Z
* `head_size(x): return x.size if x.static else 32`   -> gen_head_size : Z -> bool -> Z
* the three EncodingResult(...) returns of Calldata.encode (their size expressions and
  static flags) and the bit widths of the BitVec symbols   -> gen_* constants
* `typ.typ in ["bytes", "string"]`                    -> gen_dyn_base_names
* the supported-type regex of parse_type              -> gen_supported_alts
  (each alternative must have the shape  u?<word>[0-9]*  with both decorations optional)
* the array-suffix regex (must be literally the one the model's match_array implements)
* `typ == "tuple"`                                    -> gen_s_tuple
* the shape of get_dyn_sizes (lookup by name, else default by kind) and of the
  encode_tuple loop are checked syntactically (fail-closed), they are modelled by hand.

Fail-closed: any unexpected shape raises TranslateError.
"""
import ast
import re

from .pyexpr import TranslateError, Translator, find_function, strip_docstring

NAME = "T-abienc"
SRC = "calldata.py"
OUT = "GenAbiEnc.v"

ARRAY_RE = r"^(.*)(\[([0-9]*)\])$"


def coq_str(s):
    return "[" + "; ".join(str(ord(ch)) for ch in s) + "]"


class _Attr(ast.NodeTransformer):
    """x.size -> x_size (so that pyexpr can treat attributes of a record as variables)"""

    def visit_Attribute(self, node):
        self.generic_visit(node)
        if isinstance(node.value, ast.Name):
            return ast.copy_location(ast.Name(id=f"{node.value.id}_{node.attr}", ctx=ast.Load()), node)
        return node


def _walk(fn, kind):
    return [n for n in ast.walk(fn) if isinstance(n, kind)]


def _calls(fn, name):
    out = []
    for n in _walk(fn, ast.Call):
        f = n.func
        if (isinstance(f, ast.Name) and f.id == name) or (isinstance(f, ast.Attribute) and f.attr == name):
            out.append(n)
    return out


def parse_supported_regex(pat):
    """^(alt|alt|...)$ with alt = [u?]word[[0-9]*]  ->  [(optu, word, digits)]"""
    m = re.fullmatch(r"\^\((.*)\)\$", pat)
    if not m:
        raise TranslateError(f"supported-type regex: unexpected anchoring {pat!r}")
    alts = []
    for a in m.group(1).split("|"):
        m2 = re.fullmatch(r"(u\?)?([a-z]+)(\[0-9\]\*)?", a)
        if not m2:
            raise TranslateError(f"supported-type regex: unexpected alternative {a!r}")
        alts.append((bool(m2.group(1)), m2.group(2), bool(m2.group(3))))
    return alts


def translate(src_text):
    tree = ast.parse(src_text)
    info = {}

    # ---- parse_type: the two regexes and the tuple literal
    pt = find_function(tree, "parse_type")
    searches = _calls(pt, "search")
    pats = []
    for c in searches:
        if not (isinstance(c.func, ast.Attribute) and isinstance(c.func.value, ast.Name) and c.func.value.id == "re"):
            raise TranslateError("parse_type: search() is not re.search")
        if len(c.args) != 2 or not isinstance(c.args[0], ast.Constant) or not isinstance(c.args[0].value, str):
            raise TranslateError("parse_type: re.search pattern is not a literal")
        if not (isinstance(c.args[1], ast.Name) and c.args[1].id == "typ") or c.keywords:
            raise TranslateError("parse_type: re.search subject is not `typ` / has flags")
        pats.append(c.args[0].value)
    if len(pats) != 2:
        raise TranslateError(f"parse_type: expected 2 re.search calls, found {len(pats)}")
    if pats[0] != ARRAY_RE:
        raise TranslateError(f"parse_type: array regex changed: {pats[0]!r} (model implements {ARRAY_RE!r})")
    alts = parse_supported_regex(pats[1])
    info["array_re"], info["supported_re"], info["alts"] = pats[0], pats[1], alts
    tup = [n for n in _walk(pt, ast.Compare)
           if isinstance(n.left, ast.Name) and n.left.id == "typ" and len(n.ops) == 1 and isinstance(n.ops[0], ast.Eq)
           and isinstance(n.comparators[0], ast.Constant) and isinstance(n.comparators[0].value, str)]
    if len(tup) != 1:
        raise TranslateError("parse_type: expected exactly one `typ == <literal>` test")
    s_tuple = tup[0].comparators[0].value
    # group numbers used
    groups = sorted(c.args[0].value for c in _calls(pt, "group") if c.args and isinstance(c.args[0], ast.Constant))
    if groups != [1, 3]:
        raise TranslateError(f"parse_type: expected match.group(1) and match.group(3), found {groups}")
    # array_len == ""  -> dynamic
    emp = [n for n in _walk(pt, ast.Compare)
           if isinstance(n.left, ast.Name) and n.left.id == "array_len" and isinstance(n.ops[0], ast.Eq)
           and isinstance(n.comparators[0], ast.Constant) and n.comparators[0].value == ""]
    if len(emp) != 1:
        raise TranslateError("parse_type: expected `array_len == \"\"`")
    ife = [n for n in _walk(pt, ast.If) if n.test is emp[0]]
    if not ife or "DynamicArrayType" not in ast.unparse(ife[0].body[0]) or "FixedArrayType" not in ast.unparse(ife[0].orelse[0]):
        raise TranslateError("parse_type: dynamic/fixed array branches changed")

    # ---- Calldata.encode
    enc = find_function(tree, "encode", cls="Calldata")
    assigns = [n for n in _walk(enc, ast.Assign) if len(n.targets) == 1 and isinstance(n.targets[0], ast.Name)]
    pad = [a for a in assigns if a.targets[0].id == "size_pad_right"]
    if len(pad) != 1:
        raise TranslateError("encode: expected one assignment to size_pad_right")
    tr = Translator(names={"size": "size"})
    gen_pad = tr.tr(pad[0].value).as_Z()
    size_as = [a for a in assigns if a.targets[0].id == "size"]
    if len(size_as) != 1 or ast.unparse(size_as[0].value) != "max(sizes)":
        raise TranslateError("encode: expected `size = max(sizes)`")
    # `typ.typ in [..]`
    ins = [n for n in _walk(enc, ast.Compare) if len(n.ops) == 1 and isinstance(n.ops[0], ast.In)]
    if len(ins) != 1 or ast.unparse(ins[0].left) != "typ.typ" or not isinstance(ins[0].comparators[0], (ast.List, ast.Tuple)):
        raise TranslateError("encode: expected one `typ.typ in [...]` test")
    dyn_names = []
    for e in ins[0].comparators[0].elts:
        if not (isinstance(e, ast.Constant) and isinstance(e.value, str)):
            raise TranslateError("encode: non-literal in dynamic base type list")
        dyn_names.append(e.value)
    # EncodingResult returns
    rets = [n.value for n in _walk(enc, ast.Return) if isinstance(n.value, ast.Call) and isinstance(n.value.func, ast.Name) and n.value.func.id == "EncodingResult"]
    if len(rets) != 3:
        raise TranslateError(f"encode: expected 3 EncodingResult returns, found {len(rets)}")
    by = {}
    for r in rets:
        if len(r.args) != 3 or r.keywords:
            raise TranslateError("encode: EncodingResult arity")
        by[ast.unparse(r.args[0])] = r
    want = {"[size_var] + encoded.data": "dyn", "[size_var] + data": "bytes", "[BitVec(new_symbol, 256)]": "static"}
    if set(by) != set(want):
        raise TranslateError(f"encode: EncodingResult data expressions changed: {sorted(by)}")
    consts = {}
    for key, tag in want.items():
        r = by[key]
        flag = r.args[2]
        if not (isinstance(flag, ast.Constant) and isinstance(flag.value, bool)):
            raise TranslateError("encode: static flag is not a literal")
        consts[f"gen_{tag}_static"] = "true" if flag.value else "false"
        sz = r.args[1]
        if tag == "static":
            if not (isinstance(sz, ast.Constant) and isinstance(sz.value, int)):
                raise TranslateError("encode: static size is not a literal")
            consts["gen_static_size"] = sz.value
        else:
            other = {"dyn": "encoded.size", "bytes": "size_pad_right"}[tag]
            if not (isinstance(sz, ast.BinOp) and isinstance(sz.op, ast.Add) and isinstance(sz.left, ast.Constant)
                    and isinstance(sz.left.value, int) and ast.unparse(sz.right) == other):
                raise TranslateError(f"encode: size expression of the {tag} result changed: {ast.unparse(sz)}")
            consts[f"gen_{tag}_len_bytes"] = sz.left.value
    # BitVec widths
    bvs = {ast.unparse(c.args[0]): c.args[1] for c in _calls(enc, "BitVec") if len(c.args) == 2}
    if set(bvs) != {"new_symbol"}:
        raise TranslateError(f"encode: BitVec calls changed: {sorted(bvs)}")
    widths = sorted(ast.unparse(c.args[1]) for c in _calls(enc, "BitVec"))
    if widths != ["256", "8 * size_pad_right"]:
        raise TranslateError(f"encode: BitVec widths changed: {widths}")
    consts["gen_static_bits"] = 256
    consts["gen_bits_per_byte"] = 8
    # data = [BitVec(..)] if size > 0 else []
    data_as = [a for a in assigns if a.targets[0].id == "data"]
    if len(data_as) != 1 or not isinstance(data_as[0].value, ast.IfExp) or ast.unparse(data_as[0].value.test) != "size > 0" \
            or ast.unparse(data_as[0].value.orelse) != "[]":
        raise TranslateError("encode: `data = [...] if size > 0 else []` changed")
    # range(max(sizes)) / range(typ.size)
    ranges = sorted(ast.unparse(c.args[0]) for c in _calls(enc, "range") if len(c.args) == 1)
    if ranges != ["max(sizes)", "typ.size"]:
        raise TranslateError(f"encode: element ranges changed: {ranges}")
    # names
    fstrs = sorted(ast.unparse(n) for n in _walk(enc, ast.JoinedStr))
    want_f = sorted(["f'>02'", "f'{name}.'", "f'{prefix}{item.var}'", "f'{name}[{i}]'", "f'{name}[{i}]'",
                     "f'p_{name}_{typ.typ}_{uid()}_{self.new_symbol_id():>02}'"])
    if fstrs != want_f:
        raise TranslateError(f"encode: name f-strings changed: {fstrs}")

    # ---- get_dyn_sizes
    gds = find_function(tree, "get_dyn_sizes", cls="Calldata")
    body = strip_docstring(gds.body)
    src0 = ast.unparse(body[0]) if body else ""
    if src0 != "sizes = self.args.array_lengths.get(name)":
        raise TranslateError(f"get_dyn_sizes: lookup changed: {src0}")
    if not (len(body) >= 2 and isinstance(body[1], ast.If) and ast.unparse(body[1].test) == "sizes is None" and not body[1].orelse):
        raise TranslateError("get_dyn_sizes: `if sizes is None` changed")
    dflt = body[1].body[0]
    if ast.unparse(dflt) != "sizes = self.args.default_array_lengths if isinstance(typ, DynamicArrayType) else self.args.default_bytes_lengths":
        raise TranslateError(f"get_dyn_sizes: default selection changed: {ast.unparse(dflt)}")
    sv = [c for c in _calls(gds, "BitVec")]
    if len(sv) != 1 or ast.unparse(sv[0].args[1]) != "256" or ast.unparse(sv[0].args[0]) != "f'p_{name}_length_{uid()}_{self.new_symbol_id():>02}'":
        raise TranslateError("get_dyn_sizes: size symbol changed")
    consts["gen_sizevar_bits"] = 256
    tail = [ast.unparse(s) for s in body[2:]]
    if tail[-2:] != ["self.dyn_params.append(DynamicParam(name, sizes, size_var, typ))", "return (sizes, size_var)"]:
        raise TranslateError(f"get_dyn_sizes: tail changed: {tail[-2:]}")

    # ---- encode_tuple
    et = find_function(tree, "encode_tuple", cls="Calldata")
    hs = [n for n in et.body if isinstance(n, ast.FunctionDef) and n.name == "head_size"]
    if len(hs) != 1 or [a.arg for a in hs[0].args.args] != ["x"]:
        raise TranslateError("encode_tuple: head_size(x) not found")
    hbody = strip_docstring(hs[0].body)
    if len(hbody) != 1 or not isinstance(hbody[0], ast.Return):
        raise TranslateError("encode_tuple: head_size is not a single return")
    expr = _Attr().visit(hbody[0].value)
    tr2 = Translator(names={"x_size": "size"}, bool_names={"x_static"})
    tr2.names["x_static"] = "static"
    gen_head = tr2.tr(expr).as_Z()
    et_src = [ast.unparse(s) for s in strip_docstring(et.body) if not isinstance(s, ast.FunctionDef)]
    want_et = [
        "total_head_size = reduce(lambda s, x: s + head_size(x), items, 0)",
        "total_size = total_head_size",
        "heads, tails = ([], [])",
        "for item in items:\n    if item.static:\n        heads.extend(item.data)\n    else:\n        heads.append(con(total_size))\n        tails.extend(item.data)\n        total_size += item.size",
        "static = len(tails) == 0",
        "return EncodingResult(heads + tails, total_size, static)",
    ]
    if et_src != want_et:
        raise TranslateError(f"encode_tuple: body changed: {et_src}")

    lines = [
        "(* GENERATED by translate/t_abienc.py from src/halmos/calldata.py -- do not edit *)",
        "From Coq Require Import ZArith List Bool.",
        "Import ListNotations.",
        "Open Scope Z_scope.",
        "",
        f"Definition gen_pad (size : Z) : Z := {gen_pad}.",
        f"Definition gen_head_size (size : Z) (static : bool) : Z := {gen_head}.",
    ]
    for k, v in consts.items():
        ty = "bool" if v in ("true", "false") else "Z"
        lines.append(f"Definition {k} : {ty} := {v}.")
    lines.append("Definition gen_dyn_base_names : list (list Z) := [" + "; ".join(coq_str(s) for s in dyn_names) + "].")
    lines.append("Definition gen_supported_alts : list (bool * list Z * bool) := ["
                 + "; ".join(f"({'true' if u else 'false'}, {coq_str(w)}, {'true' if d else 'false'})" for u, w, d in alts) + "].")
    lines.append(f"Definition gen_s_tuple : list Z := {coq_str(s_tuple)}.")
    lines.append("")
    info.update(consts=consts, dyn_names=dyn_names, s_tuple=s_tuple, gen_pad=gen_pad, gen_head=gen_head)
    return "\n".join(lines), info


def selfcheck(info):
    """Cross-check the translated pieces against the imported module."""
    bad = []
    import halmos.calldata as cd

    # the decomposed regex must accept/reject exactly like the real one on a probe set
    probes = ["uint256", "int8", "uint", "int", "u", "uuint8", "address", "addres", "address1", "bool", "bool8", "bytes",
              "bytes32", "bytes3x", "string", "string1", "tuple", "tuple1", "function", "fixed128x18", "ufixed8x1", "",
              "ubytes", "ustring", "uint256 ", " uint256", "Uint256", "uint256\n", "bytes\n", "int-1"]
    for p in probes:
        real = re.search(info["supported_re"], p) is not None
        s = p[:-1] if p.endswith("\n") else p
        mine = False
        for optu, w, dig in info["alts"]:
            for s0 in ([s, s[1:]] if optu and s.startswith("u") else [s]):
                if s0.startswith(w):
                    rest = s0[len(w):]
                    if (rest == "") or (dig and all(c in "0123456789" for c in rest)):
                        mine = True
        if real != mine:
            bad.append(f"supported-type regex decomposition disagrees with re on {p!r}: re={real} alts={mine}")
    # the module's parse_type must use those regexes (sanity: behaviour on two probes)
    try:
        cd.parse_type("", "function", {})
        bad.append("parse_type accepted `function`")
    except NotImplementedError:
        pass
    except Exception as e:  # noqa: BLE001
        bad.append(f"parse_type('function') raised {type(e).__name__}")
    return bad
