"""T-panic: CallOutput.is_panic_of (src/halmos/sevm.py) -> coq/Gen/GenPanic.v

The function is a chain of early returns over a few observations of the revert data.  It is
translated statement by statement into
    is_panic_decide (is_revert : bool) (len sel ncodes : Z) (code_in : bool) : bool
where  len = byte_length(self.data),  sel = the big-endian value of the selector slice,
ncodes = len(expected_error_codes) (truthiness = non-empty), code_in = `error_code in
expected_error_codes`; plus the constants PANIC_SELECTOR, the two slice bounds and the length.
Fail-closed: every statement must have one of the whitelisted shapes.
"""
import ast

from .pyexpr import TranslateError, Translator, find_function, strip_docstring

NAME = "T-panic"
SRC = "sevm.py"
OUT = "GenPanic.v"


def _slice_consts(node, base):
    """<base>[a:b].unwrap() -> (a, b)"""
    if not (isinstance(node, ast.Call) and isinstance(node.func, ast.Attribute) and node.func.attr == "unwrap" and not node.args):
        raise TranslateError(f"expected <{base}>[a:b].unwrap(): {ast.unparse(node)}")
    sub = node.func.value
    if not (isinstance(sub, ast.Subscript) and isinstance(sub.value, ast.Name) and sub.value.id == base and isinstance(sub.slice, ast.Slice)):
        raise TranslateError(f"expected a slice of {base}: {ast.unparse(node)}")
    lo, hi, step = sub.slice.lower, sub.slice.upper, sub.slice.step
    if step is not None or not all(isinstance(x, ast.Constant) and isinstance(x.value, int) for x in (lo, hi)):
        raise TranslateError(f"slice bounds must be integer literals: {ast.unparse(node)}")
    return lo.value, hi.value


class _Norm(ast.NodeTransformer):
    def __init__(self, names):
        self.names = names

    def visit_Call(self, node):
        src = ast.unparse(node)
        if src == "isinstance(self.error, Revert)":
            return ast.Name(id="is_revert", ctx=ast.Load())
        if src == f"byte_length({self.names['data']})":
            return ast.Name(id="len", ctx=ast.Load())
        raise TranslateError(f"unsupported call {src}")

    def visit_Compare(self, node):
        if len(node.ops) == 1 and isinstance(node.ops[0], ast.In):
            if ast.unparse(node) == f"{self.names['code']} in expected_error_codes":
                return ast.Name(id="code_in", ctx=ast.Load())
            raise TranslateError(f"unsupported membership test {ast.unparse(node)}")
        return self.generic_visit(node)

    def visit_Name(self, node):
        if node.id == self.names.get("sel"):
            return ast.Name(id="sel", ctx=ast.Load())
        if node.id == "expected_error_codes":
            return ast.Name(id="ncodes", ctx=ast.Load())
        return node


def translate(src_text):
    tree = ast.parse(src_text)
    # PANIC_SELECTOR = bytes.fromhex("....")
    panic_sel = None
    for n in tree.body:
        if isinstance(n, ast.Assign) and len(n.targets) == 1 and isinstance(n.targets[0], ast.Name) and n.targets[0].id == "PANIC_SELECTOR":
            v = n.value
            if isinstance(v, ast.Call) and ast.unparse(v.func) == "bytes.fromhex" and len(v.args) == 1 and isinstance(v.args[0], ast.Constant) and isinstance(v.args[0].value, str):
                panic_sel = bytes.fromhex(v.args[0].value)
            else:
                raise TranslateError("PANIC_SELECTOR: expected bytes.fromhex(<literal>)")
    if panic_sel is None:
        raise TranslateError("PANIC_SELECTOR not found")
    fn = find_function(tree, "is_panic_of", cls="CallOutput")
    if [a.arg for a in fn.args.args] != ["self", "expected_error_codes"]:
        raise TranslateError("is_panic_of: unexpected parameters")
    body = strip_docstring(fn.body)
    names = {"data": None, "sel": None, "code": None}
    info = {"sel_slice": None, "code_slice": None, "panic_selector": panic_sel.hex()}

    def tr(node):
        t = Translator(names={"len": "len", "sel": "sel", "ncodes": "ncodes"}, bool_names={"is_revert", "code_in"},
                       consts={"PANIC_SELECTOR": int.from_bytes(panic_sel, "big")})
        return t.tr(_Norm(names).visit(node))

    def go(stmts):
        if not stmts:
            raise TranslateError("is_panic_of: falls off the end without a return")
        st, rest = stmts[0], stmts[1:]
        if isinstance(st, ast.Return):
            if rest:
                raise TranslateError("is_panic_of: statements after return")
            return tr(st.value).as_bool()
        if isinstance(st, ast.If):
            if st.orelse or len(st.body) != 1 or not isinstance(st.body[0], ast.Return):
                raise TranslateError(f"is_panic_of: expected `if c: return v`: {ast.unparse(st)[:80]}")
            return f"(if {tr(st.test).as_bool()} then {tr(st.body[0].value).as_bool()} else {go(rest)})"
        if isinstance(st, ast.Assign) and len(st.targets) == 1 and isinstance(st.targets[0], ast.Name):
            t, v = st.targets[0].id, st.value
            if ast.unparse(v) == "self.data":
                names["data"] = t
                return go(rest)
            if names["data"] is None:
                raise TranslateError("is_panic_of: slice before the data variable is bound")
            if isinstance(v, ast.Call) and ast.unparse(v.func) == "unbox_int" and len(v.args) == 1:
                info["code_slice"] = _slice_consts(v.args[0], names["data"])
                names["code"] = t
                return go(rest)
            info["sel_slice"] = _slice_consts(v, names["data"])
            names["sel"] = t
            return go(rest)
        raise TranslateError(f"is_panic_of: unsupported statement {ast.unparse(st)[:80]!r}")

    text = go(body)
    if info["sel_slice"] is None or info["code_slice"] is None:
        raise TranslateError("is_panic_of: selector / code slices not found")
    sel_bytes = "; ".join(str(b) for b in panic_sel)
    lines = [
        "(* GENERATED by translate/t_panic.py from CallOutput.is_panic_of in src/halmos/sevm.py -- do not edit *)",
        "From Coq Require Import ZArith Bool List.",
        "Import ListNotations.",
        "Open Scope Z_scope.",
        "",
        f"Definition PANIC_SELECTOR_BYTES : list Z := [{sel_bytes}].",
        f"Definition SEL_LO : Z := {info['sel_slice'][0]}.  Definition SEL_HI : Z := {info['sel_slice'][1]}.",
        f"Definition CODE_LO : Z := {info['code_slice'][0]}.  Definition CODE_HI : Z := {info['code_slice'][1]}.",
        "",
        "Definition is_panic_decide (is_revert : bool) (len sel ncodes : Z) (code_in : bool) : bool :=",
        f"  {text}.",
        "",
    ]
    return "\n".join(lines), info


def selfcheck(info):
    from halmos import sevm

    bad = []
    if sevm.PANIC_SELECTOR.hex() != info["panic_selector"]:
        bad.append(f"PANIC_SELECTOR: translated {info['panic_selector']} but the module has {sevm.PANIC_SELECTOR.hex()}")
    return bad
