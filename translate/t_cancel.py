"""T-cancel: /repo/src/halmos/processes.py -> coq/Gen/GenCancel.v

The kill escalation of PopenFuture.cancel() and the exception paths of cancel() and of the
worker body PopenFuture.start.run(), as Gallina facts over Spec.ExecSpec.exn_class:

  gen_cancel_suppressed   exception classes of the `with contextlib.suppress(...)` around the
                          grace-period wait `<parent>.wait(timeout=...)` that follows the
                          terminate() loop (an exception suppressed THERE lets cancel() go on to
                          the force-kill loop)
  gen_cancel_handlers     classes of the `except` clauses of the try statement around the whole
                          escalation (an exception caught THERE skips the force-kill loop)
  gen_grace_receiver      the library object the grace-period wait is called on
                          (psutil.Process / subprocess.Popen): decides which TimeoutExpired it raises
  gen_run_handlers        classes of the except clauses around Popen/communicate in run()
  gen_finally_guarded     whether `self.cancel()` in run()'s finally is protected so that
                          set_result(...) is reached also when cancel() raises
  gen_refusal_exn         the exception run() raises when a cancel was requested before the spawn

The spawn protocol is whitelisted as a shape (no fact is emitted for it, the model has it built in):
__init__ creates `self.<lock> = threading.Lock()` and `self.<flag> = False`; cancel() starts with
`with self.<lock>: self.<flag> = True`; run() assigns self.process exactly once, as
`with self.<lock>: if self.<flag>: raise <E>(); self.process = Popen(...)`.

Fail-closed: the statement shapes are whitelisted (guard `if not self.is_running(): return`;
try [parent = psutil.Process(..pid); procs = parent.children(recursive=True); procs.append(parent);
for: terminate(); with suppress: wait; for: if is_running(): kill()] except ...: pass; stream cleanup
that cannot raise).  Anything else raises TranslateError.
"""
import ast

from .pyexpr import TranslateError, strip_docstring

NAME = "T-cancel"
SRC = "processes.py"
OUT = "GenCancel.v"

CLASSES = {
    "subprocess.TimeoutExpired": "EcSubTimeout",
    "psutil.TimeoutExpired": "EcPsTimeout",
    "psutil.NoSuchProcess": "EcNoProc",
    "ShutdownError": "EcShutdown",
    "Exception": "EcAny",
    "BaseException": "EcAny",
}


def _cls(node, where):
    txt = ast.unparse(node)
    if txt not in CLASSES:
        raise TranslateError(f"{where}: exception class {txt!r} has no counterpart in the model")
    return CLASSES[txt]


def _classes(node, where):
    if node is None:
        return ["EcAny"]
    if isinstance(node, ast.Tuple):
        return [_cls(e, where) for e in node.elts]
    return [_cls(node, where)]


def _method(tree, cls, name):
    for node in tree.body:
        if isinstance(node, ast.ClassDef) and node.name == cls:
            for f in node.body:
                if isinstance(f, ast.FunctionDef) and f.name == name:
                    return f
    raise TranslateError(f"{cls}.{name} not found")


def _is_call(node, recv, attr):
    return (isinstance(node, ast.Call) and isinstance(node.func, ast.Attribute) and node.func.attr == attr
            and (recv is None or ast.unparse(node.func.value) == recv))


def _for_over(st, seq):
    return (isinstance(st, ast.For) and isinstance(st.target, ast.Name) and ast.unparse(st.iter) == seq and not st.orelse)


def _cannot_raise(st, where):
    """the stream cleanup: `if self.process: for s in [...]: try: <anything> except Exception: pass`"""
    ok = False
    if isinstance(st, ast.If) and ast.unparse(st.test) in ("self.process", "self.process is not None") and not st.orelse and len(st.body) == 1:
        f = st.body[0]
        if isinstance(f, ast.For) and isinstance(f.iter, ast.List) and all(ast.unparse(e).startswith("self.process.") for e in f.iter.elts) \
                and len(f.body) == 1 and isinstance(f.body[0], ast.Try):
            t = f.body[0]
            ok = (not t.finalbody and not t.orelse and len(t.handlers) == 1 and t.handlers[0].type is not None
                  and ast.unparse(t.handlers[0].type) in ("Exception", "BaseException")
                  and all(isinstance(x, ast.Pass) for x in t.handlers[0].body))
    if not ok:
        raise TranslateError(f"{where}: unexpected statement after the kill escalation: {ast.unparse(st)[:80]!r}")


def translate(src_text):
    tree = ast.parse(src_text)
    info = {}
    mods = set()
    for node in tree.body:
        if isinstance(node, ast.Import):
            mods |= {a.asname or a.name for a in node.names}
    for m in ("psutil", "subprocess", "contextlib"):
        if m not in mods:
            raise TranslateError(f"`import {m}` not found in processes.py")

    # ------------------------------------------------------------------ cancel()
    fn = _method(tree, "PopenFuture", "cancel")
    body = strip_docstring(fn.body)
    if len(body) < 3:
        raise TranslateError("cancel(): too short")
    # with self.<lock>: self.<flag> = True
    w0 = body[0]
    if not (isinstance(w0, ast.With) and len(w0.items) == 1 and w0.items[0].optional_vars is None
            and isinstance(w0.items[0].context_expr, ast.Attribute) and ast.unparse(w0.items[0].context_expr.value) == "self"
            and len(w0.body) == 1 and isinstance(w0.body[0], ast.Assign) and len(w0.body[0].targets) == 1
            and isinstance(w0.body[0].targets[0], ast.Attribute) and ast.unparse(w0.body[0].targets[0].value) == "self"
            and isinstance(w0.body[0].value, ast.Constant) and w0.body[0].value.value is True):
        raise TranslateError(f"cancel(): first statement is not `with self.<lock>: self.<flag> = True`: {ast.unparse(w0)[:80]!r}")
    lock_attr = w0.items[0].context_expr.attr
    flag_attr = w0.body[0].targets[0].attr
    info["spawn_lock"], info["cancel_flag"] = lock_attr, flag_attr
    body = body[1:]
    g = body[0]
    if not (isinstance(g, ast.If) and ast.unparse(g.test) == "not self.is_running()" and not g.orelse
            and len(g.body) == 1 and isinstance(g.body[0], ast.Return) and g.body[0].value is None):
        raise TranslateError(f"cancel(): the statement after the request is not `if not self.is_running(): return`: {ast.unparse(g)[:80]!r}")
    t = body[1]
    if not (isinstance(t, ast.Try) and not t.finalbody and not t.orelse):
        raise TranslateError("cancel(): second statement is not a plain try/except")
    handlers = []
    for h in t.handlers:
        if not all(isinstance(x, ast.Pass) for x in h.body):
            raise TranslateError("cancel(): an except clause of the escalation does more than `pass`")
        handlers += _classes(h.type, "cancel() except clause")
    tb = t.body
    # parent = psutil.Process(self.process.pid)
    if not (len(tb) == 6 and isinstance(tb[0], ast.Assign) and len(tb[0].targets) == 1 and isinstance(tb[0].targets[0], ast.Name)
            and isinstance(tb[0].value, ast.Call) and len(tb[0].value.args) == 1 and ast.unparse(tb[0].value.args[0]) == "self.process.pid"):
        raise TranslateError("cancel(): expected `<parent> = <lib>.Process(self.process.pid)` + 5 more statements in the try body")
    parent = tb[0].targets[0].id
    ctor = ast.unparse(tb[0].value.func)
    if ctor != "psutil.Process":
        raise TranslateError(f"cancel(): the process handle is created by {ctor!r}, the model knows psutil.Process")
    info["receiver"] = "RcPsutil"
    # procs = parent.children(recursive=True); procs.append(parent)
    if not (isinstance(tb[1], ast.Assign) and len(tb[1].targets) == 1 and isinstance(tb[1].targets[0], ast.Name)
            and _is_call(tb[1].value, parent, "children")):
        raise TranslateError("cancel(): expected `<procs> = <parent>.children(...)`")
    procs = tb[1].targets[0].id
    if not (isinstance(tb[2], ast.Expr) and _is_call(tb[2].value, procs, "append") and ast.unparse(tb[2].value.args[0]) == parent):
        raise TranslateError("cancel(): expected `<procs>.append(<parent>)`")
    # for p in procs: p.terminate()
    f1 = tb[3]
    if not (_for_over(f1, procs) and len(f1.body) == 1 and isinstance(f1.body[0], ast.Expr)
            and _is_call(f1.body[0].value, f1.target.id, "terminate") and not f1.body[0].value.args):
        raise TranslateError("cancel(): expected `for p in <procs>: p.terminate()`")
    # with contextlib.suppress(...): parent.wait(timeout=...)
    w = tb[4]
    sup = None
    if isinstance(w, ast.With) and len(w.items) == 1 and w.items[0].optional_vars is None and _is_call(w.items[0].context_expr, "contextlib", "suppress"):
        sup = [_cls(a, "grace-period suppress") for a in w.items[0].context_expr.args]
        inner = w.body
    elif isinstance(w, ast.Expr):
        sup, inner = [], [w]
    else:
        raise TranslateError("cancel(): expected `with contextlib.suppress(...): <parent>.wait(timeout=...)`")
    if not (len(inner) == 1 and isinstance(inner[0], ast.Expr) and _is_call(inner[0].value, parent, "wait")
            and not inner[0].value.args and [k.arg for k in inner[0].value.keywords] == ["timeout"]):
        raise TranslateError("cancel(): the grace period is not a single `<parent>.wait(timeout=...)`")
    tmo = inner[0].value.keywords[0].value
    if not (isinstance(tmo, ast.Constant) and isinstance(tmo.value, (int, float)) and tmo.value > 0):
        raise TranslateError("cancel(): the grace period is not a positive constant")
    info["suppressed"] = sup
    info["grace_seconds"] = tmo.value
    # for p in procs: if p.is_running(): p.kill()
    f2 = tb[5]
    okk = False
    if _for_over(f2, procs) and len(f2.body) == 1:
        st = f2.body[0]
        v = f2.target.id
        if isinstance(st, ast.If) and not st.orelse and _is_call(st.test, v, "is_running") and len(st.body) == 1 \
                and isinstance(st.body[0], ast.Expr) and _is_call(st.body[0].value, v, "kill"):
            okk = True
        elif isinstance(st, ast.Expr) and _is_call(st.value, v, "kill"):
            okk = True
    if not okk:
        raise TranslateError("cancel(): expected `for p in <procs>: if p.is_running(): p.kill()` after the grace period")
    info["handlers"] = handlers
    for st in body[2:]:
        _cannot_raise(st, "cancel()")

    # ------------------------------------------------------------------ start().run()
    st_fn = _method(tree, "PopenFuture", "start")
    runs = [s for s in st_fn.body if isinstance(s, ast.FunctionDef) and s.name == "run"]
    if len(runs) != 1:
        raise TranslateError("start(): nested function run() not found")
    rb = strip_docstring(runs[0].body)
    if not (len(rb) == 1 and isinstance(rb[0], ast.Try)):
        raise TranslateError("run(): the body is not a single try statement (code in front of it runs unprotected)")
    rt = rb[0]
    if rt.orelse:
        raise TranslateError("run(): try statement has an else clause")
    rh = []
    for h in rt.handlers:
        if not (h.name and len(h.body) == 1 and ast.unparse(h.body[0]) == f"self._exception = {h.name}"):
            raise TranslateError(f"run(): an except clause does not just store the exception: {ast.unparse(h)[:80]!r}")
        rh += _classes(h.type, "run() except clause")
    info["run_handlers"] = rh
    # the spawn: `with self.<lock>: if self.<flag>: raise <E>(); self.process = Popen(...)`, the only assignment to self.process
    spawns = [x for x in ast.walk(runs[0]) if isinstance(x, (ast.Assign, ast.AugAssign, ast.AnnAssign))
              and any(ast.unparse(t_) == "self.process" for t_ in (x.targets if isinstance(x, ast.Assign) else [x.target]))]
    withs = [x for x in rt.body if isinstance(x, ast.With)]
    ok = False
    if len(spawns) == 1 and len(withs) == 1:
        ws = withs[0]
        if (len(ws.items) == 1 and ws.items[0].optional_vars is None and ast.unparse(ws.items[0].context_expr) == f"self.{lock_attr}"
                and len(ws.body) == 2 and ws.body[1] is spawns[0]
                and isinstance(spawns[0].value, ast.Call) and ast.unparse(spawns[0].value.func) == "Popen"):
            t0 = ws.body[0]
            if (isinstance(t0, ast.If) and ast.unparse(t0.test) == f"self.{flag_attr}" and not t0.orelse and len(t0.body) == 1
                    and isinstance(t0.body[0], ast.Raise) and t0.body[0].cause is None and isinstance(t0.body[0].exc, ast.Call)
                    and not t0.body[0].exc.args):
                info["refusal"] = _cls(t0.body[0].exc.func, "run(): exception raised for a job cancelled before the spawn")
                ok = True
    if not ok:
        raise TranslateError("run(): the spawn is not `with self.<lock>: if self.<flag>: raise <E>(); self.process = Popen(...)` "
                             f"with the lock and flag of cancel() (self.{lock_attr}, self.{flag_attr})")
    for x in ast.walk(runs[0]):
        if isinstance(x, ast.Name) and x.id == "Popen" and not any(x is n for n in ast.walk(spawns[0])):
            raise TranslateError("run(): Popen is used outside the guarded spawn")
    # __init__ creates the lock and clears the flag
    init = _method(tree, "PopenFuture", "__init__")
    init_src = [ast.unparse(x) for x in init.body]
    if f"self.{lock_attr} = threading.Lock()" not in init_src or f"self.{flag_attr} = False" not in init_src:
        raise TranslateError(f"__init__: `self.{lock_attr} = threading.Lock()` / `self.{flag_attr} = False` not found")
    for fdef in ast.walk(tree):
        if isinstance(fdef, ast.FunctionDef) and fdef.name not in ("__init__", "cancel"):
            for x in ast.walk(fdef):
                if isinstance(x, ast.Attribute) and x.attr == flag_attr and isinstance(x.ctx, ast.Store):
                    raise TranslateError(f"{fdef.name}(): assigns self.{flag_attr}")
    fb = rt.finalbody
    # finally: [if self.process: self.cancel()] ; self.set_result((...))
    if not fb or not (isinstance(fb[-1], ast.Expr) and _is_call(fb[-1].value, "self", "set_result")):
        raise TranslateError("run(): finally does not end in self.set_result(...)")
    guarded = None
    if len(fb) == 2:
        c = fb[0]
        if isinstance(c, ast.If) and ast.unparse(c.test) in ("self.process", "self.process is not None") and not c.orelse and len(c.body) == 1:
            inner = c.body[0]
            if isinstance(inner, ast.Expr) and ast.unparse(inner.value) == "self.cancel()":
                guarded = False
            elif (isinstance(inner, ast.With) and len(inner.items) == 1 and _is_call(inner.items[0].context_expr, "contextlib", "suppress")
                  and "EcAny" in [_cls(a, "finally suppress") for a in inner.items[0].context_expr.args]
                  and len(inner.body) == 1 and ast.unparse(inner.body[0]) == "self.cancel()"):
                guarded = True
    if guarded is None:
        raise TranslateError(f"run(): unexpected finally block {[ast.unparse(x)[:60] for x in fb]!r}")
    info["finally_guarded"] = guarded
    # set_result / return must not occur in the try body or the handlers (delivery happens in finally only)
    for part in (rt.body, [x for h in rt.handlers for x in h.body]):
        for s in part:
            for nnode in ast.walk(s):
                if isinstance(nnode, ast.Return) or (isinstance(nnode, ast.Call) and isinstance(nnode.func, ast.Attribute) and nnode.func.attr in ("set_result", "set_exception")):
                    raise TranslateError("run(): return / set_result outside the finally block")

    def lst(xs):
        return "[" + "; ".join(xs) + "]"

    lines = [
        "(* GENERATED by translate/t_cancel.py from src/halmos/processes.py -- do not edit *)",
        "From Coq Require Import List.",
        "From HV Require Import Spec.ExecSpec.",
        "Import ListNotations.",
        "",
        "(* PopenFuture.cancel(): `with contextlib.suppress(...)` around the grace-period wait *)",
        f"Definition gen_cancel_suppressed : list exn_class := {lst(info['suppressed'])}.",
        "(* PopenFuture.cancel(): except clauses of the try around the whole escalation *)",
        f"Definition gen_cancel_handlers : list exn_class := {lst(info['handlers'])}.",
        "(* the object the grace-period wait is called on *)",
        f"Definition gen_grace_receiver : receiver := {info['receiver']}.",
        "(* PopenFuture.start.run(): except clauses around Popen / communicate *)",
        f"Definition gen_run_handlers : list exn_class := {lst(info['run_handlers'])}.",
        "(* run(): is self.cancel() in the finally block protected, so that set_result is always reached? *)",
        f"Definition gen_finally_guarded : bool := {'true' if guarded else 'false'}.",
        "(* run(): the exception raised when a cancel was requested before the spawn *)",
        f"Definition gen_refusal_exn : exn_class := {info['refusal']}.",
        "",
    ]
    return "\n".join(lines), info


def selfcheck(info):
    """The library facts the model pins (which exception each wait raises), on the installed libraries."""
    import subprocess
    import sys

    import psutil

    bad = []
    p = subprocess.Popen([sys.executable, "-c", "import time; time.sleep(5)"])
    try:
        try:
            psutil.Process(p.pid).wait(timeout=0.01)
            bad.append("psutil.Process.wait(timeout) on a live process did not raise")
        except psutil.TimeoutExpired as e:
            if isinstance(e, subprocess.TimeoutExpired):
                bad.append("psutil.TimeoutExpired is a subprocess.TimeoutExpired")
        except Exception as e:  # noqa: BLE001
            bad.append(f"psutil.Process.wait(timeout) raised {type(e).__name__}, the model pins psutil.TimeoutExpired")
        try:
            p.communicate(timeout=0.01)
            bad.append("Popen.communicate(timeout) on a live process did not raise")
        except subprocess.TimeoutExpired as e:
            if isinstance(e, psutil.TimeoutExpired):
                bad.append("subprocess.TimeoutExpired is a psutil.TimeoutExpired")
        except Exception as e:  # noqa: BLE001
            bad.append(f"Popen.communicate(timeout) raised {type(e).__name__}, the model pins subprocess.TimeoutExpired")
    finally:
        p.kill()
        p.wait()
    if issubclass(psutil.TimeoutExpired, psutil.NoSuchProcess) or issubclass(psutil.NoSuchProcess, psutil.TimeoutExpired):
        bad.append("psutil.TimeoutExpired and psutil.NoSuchProcess are related by inheritance")
    import halmos.processes as hp

    for c in (psutil.TimeoutExpired, psutil.NoSuchProcess, subprocess.TimeoutExpired, hp.ShutdownError):
        if not issubclass(c, Exception):
            bad.append(f"{c.__name__} is not an Exception")
    for c in (psutil.TimeoutExpired, psutil.NoSuchProcess, subprocess.TimeoutExpired):
        if issubclass(hp.ShutdownError, c) or issubclass(c, hp.ShutdownError):
            bad.append(f"ShutdownError and {c.__name__} are related by inheritance")
    # the lock / flag exist on a fresh future, with the initial values the model starts from
    f = hp.PopenFuture(["true"])
    lk = getattr(f, info["spawn_lock"], None)
    if lk is None or not hasattr(lk, "acquire") or lk.locked() or getattr(f, info["cancel_flag"], None) is not False:
        bad.append("a fresh PopenFuture does not have a free spawn lock and a cleared cancel flag")
    return bad
