"""T-storeaxioms: the *path side* of SolidityStorage / GenericStorage load() and store()
   sevm.py -> coq/Gen/GenStoreAxioms.v

halmos leaves the initial array of a non-symbolic account uninterpreted; its zero default
comes from the per-index emptiness axiom `Select(<initial array>, key) == 0` that load()
appends to the path, and the contents of every later array from the definition
`new_storage_var == Store(base, key, val)` that store() appends and records in ex.storages.

Regenerated:  the CONDITION under which load() appends the emptiness axiom, as a boolean
function of (symbolic, key_is_value) where key_is_value = is_bv_value(<the key passed to
ex.select>, possibly simplified) -- for each layout.
Checked fail-closed (TranslateError otherwise):
  load : the guarded block is exactly {axiom about Select(cls.empty(..), <key>) ; append},
         the axiom compares with Z3_ZERO/ZERO, it is appended BEFORE the select, the key of the
         axiom is the key handed to ex.select, select gets ex.storages and `symbolic`,
         `symbolic` is the account's StorageData.symbolic;
  store: new_storage = Store(<current chunk>, <key>, val) is appended to the path as
         `new_storage_var == new_storage`, recorded in ex.storages[new_storage_var], and the
         chunk is rebound to new_storage_var -- all unconditionally on the array branch.
"""
import ast

from .pyexpr import TranslateError, Translator, find_function, strip_docstring

NAME = "T-storeaxioms"
SRC = "sevm.py"
OUT = "GenStoreAxioms.v"

ZEROS = ("Z3_ZERO", "ZERO")


def _u(n):
    return ast.unparse(n)


def _assign_map(stmts):
    """{target text: value node} of the simple assignments among stmts (first wins)"""
    out = {}
    for st in stmts:
        if isinstance(st, ast.Assign) and len(st.targets) == 1:
            out.setdefault(_u(st.targets[0]), st.value)
    return out


def _strip_simplify(n):
    while isinstance(n, ast.Call) and _u(n.func) == "simplify" and len(n.args) == 1 and not n.keywords:
        n = n.args[0]
    return n


def _resolve(n, amap, depth=4):
    """follow local single-assignment names"""
    while depth and isinstance(n, ast.Name) and n.id in amap:
        n = amap[n.id]
        depth -= 1
    return n


class _Guard(ast.NodeTransformer):
    """is_bv_value(<key expr>) -> Name('key_is_value'); everything else is left to pyexpr"""

    def __init__(self, key_texts, where):
        self.key_texts = key_texts
        self.where = where

    def visit_Call(self, node):
        if _u(node.func) == "is_bv_value" and len(node.args) == 1 and not node.keywords:
            arg = _strip_simplify(node.args[0])
            if _u(arg) in self.key_texts:
                return ast.copy_location(ast.Name(id="key_is_value", ctx=ast.Load()), node)
            raise TranslateError(f"{self.where}: is_bv_value of something that is not the loaded key: {_u(node)!r}")
        raise TranslateError(f"{self.where}: unsupported call in the guard of the emptiness axiom: {_u(node)!r}")


def _is_append(st, lhs_pred):
    """st is `ex.path.append(<a> == <b>)`; returns (a, b) if lhs_pred accepts, else None"""
    if not (isinstance(st, ast.Expr) and isinstance(st.value, ast.Call) and _u(st.value.func) == "ex.path.append"
            and len(st.value.args) == 1 and not st.value.keywords):
        return None
    c = st.value.args[0]
    if not (isinstance(c, ast.Compare) and len(c.ops) == 1 and isinstance(c.ops[0], ast.Eq)):
        return None
    return (c.left, c.comparators[0]) if lhs_pred(c.left, c.comparators[0]) else None


def _load_guard(tree, cls, info):
    where = f"{cls}.load"
    fn = find_function(tree, "load", cls=cls)
    if [a.arg for a in fn.args.args] != ["cls", "ex", "storage", "addr", "loc"]:
        raise TranslateError(f"{where}: expected (cls, ex, storage, addr, loc)")
    body = strip_docstring(fn.body)
    amap = _assign_map(body)
    # the final return: ex.select(<chunk>, <key>, ex.storages, symbolic)
    rets = [i for i, st in enumerate(body) if isinstance(st, ast.Return)]
    if not rets or rets[-1] != len(body) - 1:
        raise TranslateError(f"{where}: the last statement must be the return of the select")
    r = body[-1].value
    if not (isinstance(r, ast.Call) and _u(r.func) == "ex.select" and len(r.args) == 4 and not r.keywords):
        raise TranslateError(f"{where}: expected `return ex.select(<chunk>, <key>, ex.storages, symbolic)`, got {_u(body[-1])!r}")
    key = r.args[1]
    if _u(r.args[2]) != "ex.storages":
        raise TranslateError(f"{where}: select must walk ex.storages, got {_u(r.args[2])!r}")
    sym = _resolve(r.args[3], amap)
    sa = _resolve(sym.value, amap) if isinstance(sym, ast.Attribute) else None
    if not (isinstance(sym, ast.Attribute) and sym.attr == "symbolic" and sa is not None and _u(sa) == "storage[addr]"):
        raise TranslateError(f"{where}: the `symbolic` argument of select must be storage[addr].symbolic, got {_u(r.args[3])!r}")
    sym_names = {n for n, v in amap.items() if _u(_resolve(v, amap)) == _u(sym) or _u(v) == _u(sym)} | {_u(r.args[3])}
    key_texts = {_u(key), _u(_resolve(key, amap))}
    # the guarded emptiness axiom
    guards = [(i, st) for i, st in enumerate(body) if isinstance(st, ast.If) and "path.append" in _u(st)]
    others = [st for st in body if not isinstance(st, ast.If) and "path.append" in _u(st)]
    if len(guards) != 1 or others:
        raise TranslateError(f"{where}: expected exactly one guarded `ex.path.append(...)` block, found {len(guards)} guarded and {len(others)} unguarded")
    gi, g = guards[0]
    if g.orelse:
        raise TranslateError(f"{where}: the emptiness-axiom guard has an else branch")
    gmap = dict(amap)
    gmap.update(_assign_map(g.body))
    appends = [st for st in g.body if isinstance(st, ast.Expr)]
    rest = [st for st in g.body if not isinstance(st, (ast.Expr, ast.Assign))]
    if len(appends) != 1 or rest or len(g.body) > 3:
        raise TranslateError(f"{where}: the guarded block must be the construction of the axiom and one append: {_u(g)!r}")

    def is_axiom(a, b):
        if _u(b) not in ZEROS:
            a, b = b, a
        if _u(b) not in ZEROS:
            return False
        sel = _resolve(a, gmap)
        if not (isinstance(sel, ast.Call) and _u(sel.func) == "Select" and len(sel.args) == 2):
            return False
        arr = _resolve(sel.args[0], gmap)
        if not (isinstance(arr, ast.Call) and _u(arr.func) == "cls.empty"):
            return False
        return _u(sel.args[1]) in key_texts or _u(_resolve(sel.args[1], gmap)) in key_texts

    if _is_append(appends[0], is_axiom) is None:
        raise TranslateError(f"{where}: expected `ex.path.append(Select(cls.empty(...), <key handed to select>) == Z3_ZERO)`, got {_u(appends[0])!r}")
    # guard expression
    test = _Guard(key_texts, where).visit(ast.parse(_u(g.test), mode="eval").body)
    # names standing for the account's `symbolic` flag
    class _Sym(ast.NodeTransformer):
        def visit_Name(self, node):
            if node.id in sym_names:
                return ast.copy_location(ast.Name(id="symbolic", ctx=ast.Load()), node)
            return node

        def visit_Attribute(self, node):
            if _u(node) in sym_names or _u(node) == _u(sym):
                return ast.copy_location(ast.Name(id="symbolic", ctx=ast.Load()), node)
            raise TranslateError(f"{where}: unsupported attribute in the guard: {_u(node)!r}")

    test = _Sym().visit(test)
    tr = Translator(bool_names={"symbolic", "key_is_value"})
    text = tr.tr(test).as_bool()
    info[f"{cls}.load.guard_py"] = _u(g.test)
    info[f"{cls}.load.guard"] = text
    return text


def _store_shape(tree, cls, info):
    where = f"{cls}.store"
    fn = find_function(tree, "store", cls=cls)
    if [a.arg for a in fn.args.args] != ["cls", "ex", "storage", "addr", "loc", "val"]:
        raise TranslateError(f"{where}: expected (cls, ex, storage, addr, loc, val)")
    body = strip_docstring(fn.body)
    amap = _assign_map(body)
    # statements of the array branch must be top-level (unconditional after the scalar early return)
    for st in body:
        if isinstance(st, ast.If):
            if not (st.body and isinstance(st.body[-1], ast.Return) and not st.orelse and "path" not in _u(st) and "ex.storages" not in _u(st)):
                raise TranslateError(f"{where}: unexpected conditional {_u(st.test)!r}")
        elif isinstance(st, (ast.For, ast.While, ast.Try, ast.With)):
            raise TranslateError(f"{where}: unexpected compound statement")
    ns = amap.get("new_storage")
    if not (isinstance(ns, ast.Call) and _u(ns.func) == "Store" and len(ns.args) == 3 and _u(ns.args[2]) == "val"):
        raise TranslateError(f"{where}: expected new_storage = Store(<chunk>, <key>, val)")
    chunk = _u(ns.args[0])
    if not chunk.startswith("storage_addr[") or _u(_resolve(ast.Name(id="storage_addr"), amap)) != "storage[addr]":
        raise TranslateError(f"{where}: the base of the Store must be the account's current chunk, got {chunk!r}")
    nv = amap.get("new_storage_var")
    if not (isinstance(nv, ast.Call) and _u(nv.func) == "Array"):
        raise TranslateError(f"{where}: new_storage_var must be a fresh Array")
    name = nv.args[0]
    if not (isinstance(name, ast.JoinedStr) and "uid()" in _u(name) and "len(ex.storages)" in _u(name)):
        raise TranslateError(f"{where}: the array variable's name must be fresh (uid() and the number of definitions so far)")
    idx = {}
    for i, st in enumerate(body):
        if _is_append(st, lambda a, b: {_u(a), _u(b)} == {"new_storage_var", "new_storage"}) is not None:
            idx.setdefault("append", i)
        if isinstance(st, ast.Assign) and _u(st.targets[0]) == "ex.storages[new_storage_var]" and _u(st.value) == "new_storage":
            idx.setdefault("record", i)
        if isinstance(st, ast.Assign) and _u(st.targets[0]) == chunk and _u(st.value) == "new_storage_var":
            idx.setdefault("rebind", i)
        if isinstance(st, ast.Assign) and _u(st.targets[0]) == "new_storage":
            idx.setdefault("build", i)
    for what in ("append", "record", "rebind", "build"):
        if what not in idx:
            raise TranslateError(f"{where}: missing statement: {what} (ex.path.append(new_storage_var == new_storage) / ex.storages[new_storage_var] = new_storage / {chunk} = new_storage_var)")
    if not (idx["build"] < idx["rebind"]):
        raise TranslateError(f"{where}: the chunk is rebound before the Store over the old chunk is built")
    n_app = sum(1 for st in ast.walk(fn) if isinstance(st, ast.Call) and _u(st.func) == "ex.path.append")
    if n_app != 1:
        raise TranslateError(f"{where}: expected exactly one ex.path.append, found {n_app}")
    info[f"{cls}.store.key"] = _u(ns.args[1])


def translate(src_text):
    tree = ast.parse(src_text)
    info = {}
    sol = _load_guard(tree, "SolidityStorage", info)
    gen = _load_guard(tree, "GenericStorage", info)
    _store_shape(tree, "SolidityStorage", info)
    _store_shape(tree, "GenericStorage", info)
    lines = [
        "(* GENERATED by translate/t_storeaxioms.py from src/halmos/sevm.py -- do not edit *)",
        "From Coq Require Import Bool.",
        "",
        "(* SolidityStorage.load: `if <guard>: ex.path.append(Select(cls.empty(..), concat_keys) == Z3_ZERO)`",
        f"   python guard: {info['SolidityStorage.load.guard_py']} *)",
        f"Definition sol_load_emits_empty (symbolic key_is_value : bool) : bool := {sol}.",
        "(* GenericStorage.load",
        f"   python guard: {info['GenericStorage.load.guard_py']} *)",
        f"Definition gen_load_emits_empty (symbolic key_is_value : bool) : bool := {gen}.",
        "",
    ]
    return "\n".join(lines), info


def selfcheck(info):
    return []
