"""T-solvedispatch: /repo/src/halmos/solve.py -> coq/Gen/GenSolveDispatch.v

 * SolverOutput.from_result: the first-line extraction (shape checked) and the
   `match first_line` dispatch                       -> first_line_class : string -> rclass
 * SolverOutput.from_error                            -> from_error_class
 * solve_low_level: `except subprocess.TimeoutExpired` -> timeout_class
 * is_model_valid: `"<lit>" not in solver_stdout`      -> invalid_marker : string
 * solve_end_to_end: the refinement guard              -> refine_guard : bool^3 -> bool
"""
import ast

from .pyexpr import TranslateError, Translator, find_function

NAME = "T-solvedispatch"
SRC = "solve.py"
OUT = "GenSolveDispatch.v"

CLASS = {"sat": "CSat", "unsat": "CUnsat", "unknown": "CUnknown", "err": "CErr"}


def _same(node, src):
    return ast.dump(node) == ast.dump(ast.parse(src, mode="eval").body)


def _same_stmt(node, src):
    return ast.dump(node) == ast.dump(ast.parse(src).body[0])


def _result_class(call, where):
    """first positional argument / `result=` keyword of SolverOutput(...)."""
    if not (isinstance(call, ast.Call) and ast.unparse(call.func) == "SolverOutput"):
        raise TranslateError(f"{where}: expected a SolverOutput(...) construction, got {ast.unparse(call)[:60]!r}")
    v = call.args[0] if call.args else next((k.value for k in call.keywords if k.arg == "result"), None)
    if isinstance(v, ast.Name) and v.id in ("sat", "unsat", "unknown"):
        return CLASS[v.id]
    if isinstance(v, ast.Constant) and v.value == "err":
        return "CErr"
    raise TranslateError(f"{where}: unexpected result {ast.unparse(v) if v is not None else None!r}")


def translate(src_text):
    tree = ast.parse(src_text)
    # z3's sat/unsat/unknown must be the imported names (str() of them is the Counter key)
    imp = [n for n in tree.body if isinstance(n, ast.ImportFrom) and n.module == "z3"]
    names = {a.name for n in imp for a in n.names}
    if not {"sat", "unsat", "unknown"} <= names:
        raise TranslateError("solve.py does not import sat/unsat/unknown from z3")

    fr = find_function(tree, "from_result", cls="SolverOutput")
    body = [s for s in fr.body if not (isinstance(s, ast.Expr) and isinstance(s.value, ast.Constant))]
    if not _same_stmt(body[0], 'newline_idx = stdout.find("\\n")') or not _same_stmt(body[1], "first_line = stdout[:newline_idx] if newline_idx != -1 else stdout"):
        raise TranslateError("from_result: unexpected first-line extraction")
    m = [s for s in body if isinstance(s, ast.Match)]
    if len(m) != 1 or body[-1] is not m[0] or not _same(m[0].subject, "first_line"):
        raise TranslateError("from_result: expected to end in a single `match first_line`")
    for s in body[2:-1]:
        # only bookkeeping between the extraction and the match
        for n in ast.walk(s):
            if isinstance(n, (ast.Assign, ast.AugAssign)):
                tg = n.targets if isinstance(n, ast.Assign) else [n.target]
                for t in tg:
                    for nm in ast.walk(t):
                        if isinstance(nm, ast.Name) and nm.id in ("first_line", "stdout"):
                            raise TranslateError("from_result: first_line/stdout reassigned")
            if isinstance(n, ast.Return):
                raise TranslateError("from_result: return before the match")
    cases, default = [], None
    for c in m[0].cases:
        if c.guard is not None:
            raise TranslateError("from_result: guarded case")
        rets = [s for s in c.body if isinstance(s, ast.Return)]
        if len(rets) != 1 or c.body[-1] is not rets[0]:
            raise TranslateError("from_result: case does not end in a single return")
        cls = _result_class(rets[0].value, "from_result case")
        if isinstance(c.pattern, ast.MatchValue) and isinstance(c.pattern.value, ast.Constant) and isinstance(c.pattern.value.value, str):
            if default is not None:
                raise TranslateError("from_result: case after the wildcard")
            lit = c.pattern.value.value
            if not lit.isascii() or '"' in lit or not lit.isprintable():
                raise TranslateError(f"from_result: unsupported literal {lit!r}")
            cases.append((lit, cls))
        elif isinstance(c.pattern, ast.MatchAs) and c.pattern.pattern is None and c.pattern.name is None:
            default = cls
        else:
            raise TranslateError(f"from_result: unsupported pattern {ast.unparse(c.pattern)!r}")
    if default is None:
        raise TranslateError("from_result: no wildcard case")

    fe = find_function(tree, "from_error", cls="SolverOutput")
    rets = [n for n in ast.walk(fe) if isinstance(n, ast.Return)]
    if len(rets) != 1:
        raise TranslateError("from_error: expected one return")
    err_class = _result_class(rets[0].value, "from_error")

    sl = find_function(tree, "solve_low_level")
    tries = [n for n in sl.body if isinstance(n, ast.Try)]
    if len(tries) != 1 or len(tries[0].handlers) != 1 or ast.unparse(tries[0].handlers[0].type) != "subprocess.TimeoutExpired":
        raise TranslateError("solve_low_level: expected one try with a single `except subprocess.TimeoutExpired`")
    if [ast.unparse(s) for s in tries[0].body] != ["stdout, stderr, returncode = future.result()"]:
        raise TranslateError("solve_low_level: unexpected try body")
    h = tries[0].handlers[0].body
    if len(h) != 1 or not isinstance(h[0], ast.Return):
        raise TranslateError("solve_low_level: timeout handler is not a single return")
    timeout_class = _result_class(h[0].value, "solve_low_level timeout handler")
    if not _same_stmt(sl.body[-1], "return SolverOutput.from_result(stdout, stderr, returncode, path_ctx)"):
        raise TranslateError("solve_low_level: does not end in `return SolverOutput.from_result(stdout, stderr, returncode, path_ctx)`")

    mv = find_function(tree, "is_model_valid")
    rets = [s for s in mv.body if isinstance(s, ast.Return)]
    if len(rets) != 1:
        raise TranslateError("is_model_valid: expected one return")
    v = rets[0].value
    if not (isinstance(v, ast.Compare) and len(v.ops) == 1 and isinstance(v.ops[0], ast.NotIn) and isinstance(v.left, ast.Constant)
            and isinstance(v.left.value, str) and _same(v.comparators[0], "solver_stdout")):
        raise TranslateError(f"is_model_valid: unexpected {ast.unparse(v)!r}")
    marker = v.left.value
    if not marker.isascii() or '"' in marker or not marker:
        raise TranslateError("is_model_valid: unsupported marker literal")

    se = find_function(tree, "solve_end_to_end")
    guards = [s for s in se.body if isinstance(s, ast.If) and "is_refined" in ast.unparse(s.test)]
    if len(guards) != 1:
        raise TranslateError("solve_end_to_end: refinement guard not found")
    g = guards[0]

    class Atom(ast.NodeTransformer):
        def generic_visit(self, node):
            if isinstance(node, ast.expr) and not isinstance(node, (ast.BoolOp, ast.UnaryOp)):
                s = ast.unparse(node)
                a = {"result == sat": "is_sat", "model.is_valid": "model_valid", "ctx.is_refined": "is_refined"}.get(s)
                if a:
                    return ast.Name(id=a, ctx=ast.Load())
                raise TranslateError(f"solve_end_to_end guard: unknown atom {s!r}")
            return super().generic_visit(node)

    gtext = Translator(bool_names=["is_sat", "model_valid", "is_refined"]).tr(Atom().visit(ast.parse(ast.unparse(g.test), mode="eval").body)).as_bool()
    # inside: if refined query differs -> return solve_low_level(refined_ctx); finally `return solver_output`
    inner = [s for s in g.body if isinstance(s, ast.If)]
    if len(inner) != 1 or not _same(inner[0].test, "refined_ctx.query.smtlib != query.smtlib") or not _same_stmt(inner[0].body[-1], "return solve_low_level(refined_ctx)"):
        raise TranslateError("solve_end_to_end: unexpected refinement body")
    if not _same_stmt(se.body[-1], "return solver_output"):
        raise TranslateError("solve_end_to_end: does not end in `return solver_output`")
    if "solver_output = solve_low_level(ctx)" not in [ast.unparse(s) for s in se.body]:
        raise TranslateError("solve_end_to_end: `solver_output = solve_low_level(ctx)` not found")
    cache = [s for s in se.body if isinstance(s, ast.If) and "check_unsat_cores" in ast.unparse(s.test)]
    if len(cache) != 1 or not _same(cache[0].test, "check_unsat_cores(query, ctx.solving_ctx.unsat_cores)") or _result_class(cache[0].body[-1].value, "cache arm") != "CUnsat":
        raise TranslateError("solve_end_to_end: unexpected unsat-core cache arm")

    disp = default
    for lit, cls in reversed(cases):
        disp = f'if String.eqb first_line "{lit}" then {cls}\n  else {disp}'
    lines = [
        "(* GENERATED by translate/t_solvedispatch.py from src/halmos/solve.py -- do not edit *)",
        "From Coq Require Import List Bool String.",
        "From HV Require Import Spec.VerdictSpec.",
        "Import ListNotations.",
        "Open Scope string_scope.",
        "",
        "(* SolverOutput.from_result: match first_line *)",
        "Definition first_line_class (first_line : string) : rclass :=",
        "  " + disp + ".",
        "Definition dispatch_literals : list (string * rclass) := [" + "; ".join(f'("{l}", {c})' for l, c in cases) + "].",
        f"Definition dispatch_default : rclass := {default}.",
        f"Definition from_error_class : rclass := {err_class}.",
        f"Definition timeout_class : rclass := {timeout_class}.",
        f'Definition invalid_marker : string := "{marker}".',
        "(* solve_end_to_end: solve again (refined query) under this guard *)",
        f"Definition refine_guard (is_sat model_valid is_refined : bool) : bool := {gtext}.",
        "",
    ]
    return "\n".join(lines), {"cases": cases, "default": default, "timeout": timeout_class, "marker": marker}


def selfcheck(info):
    """Run the real from_result on the literals (and near misses) and compare classes."""
    import types

    from halmos.solve import SolverOutput, is_model_valid

    bad = []
    args = types.SimpleNamespace(verbose=0, cache_solver=False)
    pc = types.SimpleNamespace(args=args, path_id=0, dump_file="x.smt2")
    want = dict(info["cases"])
    inv = {v: k for k, v in CLASS.items()}
    for s in list(want) + [w + "x" for w in want] + ["", "error", " sat"]:
        for tail in ("", "\n", "\nrest\n"):
            try:
                got = str(SolverOutput.from_result(s + tail, "", 0, pc).result)
            except Exception as e:  # noqa: BLE001
                got = f"EXC {type(e).__name__}"
            exp = inv[want.get(s, info["default"])]
            if got != exp:
                bad.append(f"from_result({(s + tail)!r}) = {got}, translated dispatch says {exp}")
    if is_model_valid("x " + info["marker"] + " y") or not is_model_valid("xyz"):
        bad.append("is_model_valid does not behave as `marker not in stdout`")
    return bad
