"""T-run-excepts: /repo/src/halmos/sevm.py -> coq/Gen/GenRunExcepts.v

Emits what SEVM.run does with an exception raised while a state is stepped (which is where an
exception raised by a vm.assert* handler arrives):
  * `run_excepts : list (string * (string * (bool * string)))` -- the `except` clauses of the
    single try statement of the run loop, in source order: (class caught, (output data given to
    ex.halt: "empty" = ByteVec() / "none" = None / "nohalt", (halt guarded by `if not
    ex.is_halted()`, how the state leaves: "finalize" = yield from finalize(ex) / "yield" =
    yield ex / "drop" = nothing)));
  * `delayed_raise_class` -- the class tested by the delayed re-raise at the top of the loop
    body (`if isinstance(ex.context.output.error, C): raise ex.context.output.error`);
  * `stuck_error_class` -- CallContext.is_stuck: `data is None or isinstance(error, C)`;
  * `callbacks_yield_stuck` -- number of nested `callback` functions (return to the caller's
    frame); each must yield the caller's state and return when `subcall.is_stuck()`.
Also checked (fail-closed, not emitted): `finalize` yields the state itself when there is no
callback and otherwise delegates to the callback; every clause ends with `continue`; the try
has no else/finally and no bare except.
"""
import ast

from .pyexpr import TranslateError

NAME = "T-run-excepts"
SRC = "sevm.py"
OUT = "GenRunExcepts.v"


def _u(n):
    return ast.unparse(n)


def find_method(tree, cls, name):
    cs = [n for n in tree.body if isinstance(n, ast.ClassDef) and n.name == cls]
    if len(cs) != 1:
        raise TranslateError(f"expected exactly one class {cls}")
    fs = [n for n in cs[0].body if isinstance(n, ast.FunctionDef) and n.name == name]
    if len(fs) != 1:
        raise TranslateError(f"expected exactly one method {cls}.{name}")
    return fs[0]


def classify_clause(h):
    if h.type is None or not isinstance(h.type, ast.Name):
        raise TranslateError(f"SEVM.run: except clause at line {h.lineno} does not name a single class")
    cls = h.type.id
    var = h.name
    body = list(h.body)
    if not body or not isinstance(body[-1], ast.Continue):
        raise TranslateError(f"SEVM.run: except {cls} does not end with `continue`")
    body = body[:-1]
    data, guarded, leave = "nohalt", False, "drop"
    stage = 0  # 0: before halt, 1: after halt, 2: after leaving
    for s in body:
        src = _u(s)
        if src == f"debug({var})" and stage == 0:
            continue
        if src == "stack.completed_paths += 1" and stage <= 1:
            continue
        halt = None
        if isinstance(s, ast.If) and _u(s.test) == "not ex.is_halted()" and not s.orelse and len(s.body) == 1:
            halt, g = s.body[0], True
        elif isinstance(s, ast.Expr) and isinstance(s.value, ast.Call) and _u(s.value.func) == "ex.halt":
            halt, g = s, False
        if halt is not None and stage == 0:
            c = halt.value if isinstance(halt, ast.Expr) else None
            if not (isinstance(c, ast.Call) and _u(c.func) == "ex.halt" and not c.args
                    and [k.arg for k in c.keywords] == ["data", "error"] and _u(c.keywords[1].value) == var):
                raise TranslateError(f"SEVM.run: except {cls}: unexpected halt call {src!r}")
            d = _u(c.keywords[0].value)
            if d == "ByteVec()":
                data = "empty"
            elif d == "None":
                data = "none"
            else:
                raise TranslateError(f"SEVM.run: except {cls}: unexpected halt data {d!r}")
            guarded = g
            stage = 1
            continue
        if src == "yield from finalize(ex)" and stage <= 1:
            leave, stage = "finalize", 2
            continue
        if src == "yield ex" and stage <= 1:
            leave, stage = "yield", 2
            continue
        raise TranslateError(f"SEVM.run: except {cls}: statement not understood: {src!r}")
    if leave != "drop" and data == "nohalt":
        raise TranslateError(f"SEVM.run: except {cls}: the state leaves without being halted")
    return cls, data, guarded, leave


def translate(src_text):
    tree = ast.parse(src_text)
    run = find_method(tree, "SEVM", "run")
    whiles = [n for n in run.body if isinstance(n, ast.While)]
    if len(whiles) != 1:
        raise TranslateError("SEVM.run: expected exactly one top-level while loop")
    w = whiles[0]
    if w.orelse or len(w.body) != 1 or not isinstance(w.body[0], ast.Try):
        raise TranslateError("SEVM.run: the loop body is not a single try statement")
    t = w.body[0]
    if t.orelse or t.finalbody:
        raise TranslateError("SEVM.run: try with else/finally")
    # nothing after the loop may swallow or re-yield
    after = run.body[run.body.index(w) + 1:]
    if after:
        raise TranslateError("SEVM.run: statements after the loop")
    # no other try statement anywhere in run (an inner try could catch before the clauses)
    inner = [n for n in ast.walk(run) if isinstance(n, ast.Try) and n is not t]
    if inner:
        raise TranslateError(f"SEVM.run: nested try statement at line {inner[0].lineno}")
    clauses = [classify_clause(h) for h in t.handlers]
    if len({c[0] for c in clauses}) != len(clauses):
        raise TranslateError("SEVM.run: a class is caught twice")
    # delayed re-raise
    delayed = []
    for s in t.body:
        if isinstance(s, ast.If) and not s.orelse and len(s.body) == 1 and isinstance(s.body[0], ast.Raise):
            r = s.body[0]
            if r.exc is not None and _u(r.exc) == "ex.context.output.error":
                c = s.test
                if not (isinstance(c, ast.Call) and _u(c.func) == "isinstance" and len(c.args) == 2
                        and _u(c.args[0]) == "ex.context.output.error" and isinstance(c.args[1], ast.Name)):
                    raise TranslateError("SEVM.run: delayed raise with an unexpected test")
                delayed.append(c.args[1].id)
    if len(delayed) != 1:
        raise TranslateError(f"SEVM.run: expected exactly one delayed re-raise of ex.context.output.error, found {delayed}")
    # finalize
    fins = [n for n in run.body if isinstance(n, ast.FunctionDef) and n.name == "finalize"]
    if len(fins) != 1:
        raise TranslateError("SEVM.run: no inner finalize()")
    fb = [s for s in fins[0].body if not (isinstance(s, ast.Expr) and isinstance(s.value, ast.Constant))]
    ok = (len(fb) == 1 and isinstance(fb[0], ast.If) and _u(fb[0].test) == "ex.callback is None"
          and [_u(s) for s in fb[0].body] == ["stack.completed_paths += 1", "yield ex"]
          and [_u(s) for s in fb[0].orelse] == ["yield from ex.callback(ex, stack)"])
    if not ok:
        raise TranslateError("SEVM.run: finalize() is not `if ex.callback is None: count; yield ex / else: yield from ex.callback(ex, stack)`")
    # CallContext.is_stuck
    st = find_method(tree, "CallContext", "is_stuck")
    sb = [s for s in st.body if not (isinstance(s, ast.Expr) and isinstance(s.value, ast.Constant))]
    if not (len(sb) == 2 and _u(sb[0]) == "data, error = (self.output.data, self.output.error)"
            and isinstance(sb[1], ast.Return) and isinstance(sb[1].value, ast.BoolOp) and isinstance(sb[1].value.op, ast.Or)
            and len(sb[1].value.values) == 2 and _u(sb[1].value.values[0]) == "data is None"):
        raise TranslateError("CallContext.is_stuck: unexpected shape")
    c = sb[1].value.values[1]
    if not (isinstance(c, ast.Call) and _u(c.func) == "isinstance" and len(c.args) == 2 and _u(c.args[0]) == "error"
            and isinstance(c.args[1], ast.Name)):
        raise TranslateError("CallContext.is_stuck: second disjunct is not isinstance(error, <class>)")
    stuck_cls = c.args[1].id
    # callbacks: `if subcall.is_stuck(): [count]; yield new_ex; return` directly in the body
    ncb = 0
    for n in ast.walk(tree):
        if isinstance(n, ast.FunctionDef) and n.name == "callback":
            hits = [s for s in n.body if isinstance(s, ast.If) and _u(s.test) == "subcall.is_stuck()"]
            if len(hits) != 1:
                raise TranslateError(f"callback at line {n.lineno}: expected one `if subcall.is_stuck():` in its body")
            b = [_u(s) for s in hits[0].body if _u(s) != "stack.completed_paths += 1"]
            if b != ["yield new_ex", "return"]:
                raise TranslateError(f"callback at line {n.lineno}: the stuck branch is not `yield new_ex; return`")
            # nothing before it may push the state to the worklist or yield
            for s in n.body[:n.body.index(hits[0])]:
                for x in ast.walk(s):
                    if isinstance(x, (ast.Yield, ast.YieldFrom)) or (isinstance(x, ast.Call) and _u(x.func) == "stack.push"):
                        raise TranslateError(f"callback at line {n.lineno}: yields / pushes before the stuck test")
            ncb += 1
    if ncb < 1:
        raise TranslateError("no callback function found")

    def q(s):
        if not s.isidentifier() or not s.isascii():
            raise TranslateError(f"unexpected name {s!r}")
        return '"' + s + '"'

    lines = [
        "(* GENERATED by translate/t_run_excepts.py from src/halmos/sevm.py -- do not edit *)",
        "From Coq Require Import List String.",
        "Import ListNotations.",
        "Open Scope string_scope.",
        "",
        "Definition run_excepts : list (string * (string * (bool * string))) := [",
        ";\n".join(f"  ({q(c)}, ({q(d)}, ({'true' if g else 'false'}, {q(l)})))" for c, d, g, l in clauses),
        "].",
        f"Definition delayed_raise_class : string := {q(delayed[0])}.",
        f"Definition stuck_error_class : string := {q(stuck_cls)}.",
        f"Definition callbacks_yield_stuck : nat := {ncb}.",
        "",
    ]
    return "\n".join(lines), {"clauses": clauses, "delayed": delayed[0], "stuck": stuck_cls, "callbacks": ncb}


def selfcheck(info):
    import halmos.exceptions as ex

    bad = []
    for c, _, _, _ in info["clauses"]:
        if not isinstance(getattr(ex, c, None), type):
            bad.append(f"except {c}: not a class of halmos.exceptions")
    for c in (info["delayed"], info["stuck"]):
        if not isinstance(getattr(ex, c, None), type):
            bad.append(f"{c}: not a class of halmos.exceptions")
    import halmos.sevm as sevm

    for c, _, _, _ in info["clauses"]:
        if getattr(sevm, c, None) is not getattr(ex, c, None):
            bad.append(f"sevm.{c} is not halmos.exceptions.{c} (shadowed name)")
    return bad
