"""T-pathcopy: /repo/src/halmos/sevm.py (class Path: __init__, branch, extend_path)
-> coq/Gen/GenPathCopy.v

Regenerates HOW a new Path object receives each mutable container of the path it is
created from -- the same object (`= old.f`), a shallow copy (`old.f.copy()`, `dict(old.f)`)
or a deep copy (`deepcopy(old.f)`) -- as `gen_modes : modes` (Model/PathCopyDefs.v), for
Path.branch (child of a JUMPI / concretization fork) and Path.extend_path (a transaction
started on top of a setUp / frontier state).  The heap-level model of Path objects
(Model/PathHeapModel.v) is parameterised by these modes; the theorem that the constraints
of one Path object never leak into another one (Props/C11.v, C11_paths_do_not_interfere) is
proved for the regenerated modes, so it stops building when a container is aliased.

Fail-closed: every statement of the three methods must have one of the expected shapes
(the statements that the hand-written model covers are compared textually).
"""
import ast

from .pyexpr import TranslateError, find_function, strip_docstring

NAME = "T-pathcopy"
SRC = "sevm.py"
OUT = "GenPathCopy.v"

# containers of the model (conditions / related / var_to_conds) + the two that C11 does not
# model: `concretization` (C06's business) and `term_to_vars` (a cache of a pure function of
# the term, shared on purpose)
MODELLED = ["conditions", "related", "var_to_conds"]
OTHER = ["concretization", "term_to_vars"]

INIT_EXPECTED = {
    "self.solver = solver",
    "self.num_scopes = 0",
    "self.conditions = {}",
    "self.concretization = Concretization()",
    "self.pending = []",
    "self.related = {}",
    "self.var_to_conds = defaultdict(set)",
    "self.term_to_vars = {}",
    "self.sliced = None",
}

PENDING_GUARDS = {
    "len(self.pending) > 0", "len(self.pending) != 0", "len(self.pending) >= 1", "self.pending",
    "not self.is_activated()", "self.pending != []",
}

EXTEND_SOLVER_PART = """
if PARENT.sliced is None:
    for cond in self.conditions:
        self.solver.add(cond)
    return
for idx, cond in enumerate(self.conditions):
    if idx in PARENT.sliced:
        self.solver.add(cond)
"""


def _fail(node, why):
    raise TranslateError(f"line {getattr(node, 'lineno', '?')}: {why}: {ast.unparse(node)[:160]}")


def copy_mode(value, owner):
    """`owner.f` -> (f, MAlias); `owner.f.copy()` / `dict(owner.f)` -> (f, MShallow);
    `deepcopy(owner.f)` / `copy.deepcopy(owner.f)` -> (f, MDeep); anything else -> None"""

    def field(n):
        if isinstance(n, ast.Attribute) and isinstance(n.value, ast.Name) and n.value.id == owner:
            return n.attr
        return None

    f = field(value)
    if f:
        return f, "MAlias"
    if isinstance(value, ast.Call) and not value.keywords:
        fn = value.func
        if isinstance(fn, ast.Attribute) and fn.attr == "copy" and not value.args and field(fn.value):
            return field(fn.value), "MShallow"
        if len(value.args) == 1 and field(value.args[0]):
            name = ast.unparse(fn)
            if name == "dict":
                return field(value.args[0]), "MShallow"
            if name in ("deepcopy", "copy.deepcopy"):
                return field(value.args[0]), "MDeep"
            if name == "copy.copy":
                return field(value.args[0]), "MShallow"
    return None


def field_assign(stmt, target_owner, source_owner):
    """`<target_owner>.f = <copy of source_owner.f>` -> (f, mode) or None"""
    if not (isinstance(stmt, ast.Assign) and len(stmt.targets) == 1):
        return None
    t = stmt.targets[0]
    if not (isinstance(t, ast.Attribute) and isinstance(t.value, ast.Name) and t.value.id == target_owner):
        return None
    cm = copy_mode(stmt.value, source_owner)
    if cm is None:
        return None
    if cm[0] != t.attr:
        _fail(stmt, f"{target_owner}.{t.attr} is initialised from another field")
    return cm


def translate_init(fn):
    args = [a.arg for a in fn.args.args]
    if args != ["self", "solver"]:
        raise TranslateError(f"Path.__init__: expected (self, solver), found {args}")
    got = set()
    for s in strip_docstring(fn.body):
        u = ast.unparse(s)
        if u not in INIT_EXPECTED:
            _fail(s, "Path.__init__: unexpected statement (a new Path must start from fresh empty containers)")
        got.add(u)
    if got != INIT_EXPECTED:
        raise TranslateError(f"Path.__init__: missing {sorted(INIT_EXPECTED - got)}")


def translate_branch(fn):
    args = [a.arg for a in fn.args.args]
    if len(args) != 2 or args[0] != "self":
        raise TranslateError(f"Path.branch: expected (self, cond), found {args}")
    cond = args[1]
    body = strip_docstring(fn.body)
    if not body:
        raise TranslateError("Path.branch: empty body")
    g = body[0]
    if not (isinstance(g, ast.If) and not g.orelse and ast.unparse(g.test) in PENDING_GUARDS
            and len(g.body) == 1 and isinstance(g.body[0], ast.Raise)
            and ast.unparse(g.body[0].exc).startswith("ValueError(")):
        _fail(g, "Path.branch: must start with `if len(self.pending) > 0: raise ValueError(...)`")
    new = None
    modes = {}
    seen = {"scopes": None, "push": None, "pending": None}
    last = body[-1]
    for k, s in enumerate(body[1:], start=1):
        u = ast.unparse(s)
        if new is None:
            if (isinstance(s, ast.Assign) and len(s.targets) == 1 and isinstance(s.targets[0], ast.Name)
                    and ast.unparse(s.value) == "Path(self.solver)"):
                new = s.targets[0].id
                continue
            _fail(s, "Path.branch: expected `path = Path(self.solver)` (the child shares the solver)")
        if u == f"{new}.num_scopes = self.solver.num_scopes()":
            if seen["scopes"] is not None:
                _fail(s, "Path.branch: num_scopes saved twice")
            seen["scopes"] = k
            continue
        if u == "self.solver.push()":
            if seen["push"] is not None:
                _fail(s, "Path.branch: solver pushed twice")
            seen["push"] = k
            continue
        if u in (f"{new}.pending.append({cond})", f"{new}.pending = [{cond}]"):
            if seen["pending"] is not None:
                _fail(s, "Path.branch: pending condition stored twice")
            seen["pending"] = k
            continue
        fa = field_assign(s, new, "self")
        if fa is not None:
            f, mode = fa
            if f not in MODELLED + OTHER:
                _fail(s, "Path.branch: unknown field")
            if f in modes:
                _fail(s, f"Path.branch: {f} assigned twice")
            modes[f] = mode
            continue
        if s is last and u == f"return {new}":
            continue
        _fail(s, "Path.branch: unexpected statement")
    if ast.unparse(last) != f"return {new}":
        _fail(last, "Path.branch: must end with `return <the new path>`")
    if seen["scopes"] is None or seen["push"] is None or seen["scopes"] > seen["push"]:
        raise TranslateError("Path.branch: `path.num_scopes = self.solver.num_scopes()` must precede `self.solver.push()`")
    if seen["pending"] is None:
        raise TranslateError("Path.branch: the branching condition is not stored in the child's pending list")
    missing = [f for f in MODELLED + OTHER if f not in modes]
    if missing:
        raise TranslateError(f"Path.branch: the child does not receive {missing}")
    return modes


def translate_extend_path(fn):
    args = [a.arg for a in fn.args.args]
    if len(args) != 2 or args[0] != "self":
        raise TranslateError(f"Path.extend_path: expected (self, path), found {args}")
    parent = args[1]
    body = strip_docstring(fn.body)
    modes = {}
    k = 0
    # `other = <parameter>`: another name for the parent
    while (k < len(body) and isinstance(body[k], ast.Assign) and len(body[k].targets) == 1
           and isinstance(body[k].targets[0], ast.Name) and isinstance(body[k].value, ast.Name)
           and body[k].value.id == parent and body[k].targets[0].id != "self"):
        parent = body[k].targets[0].id
        k += 1
    param = args[1]
    while k < len(body):
        fa = field_assign(body[k], "self", parent) or field_assign(body[k], "self", param)
        if fa is None:
            break
        f, mode = fa
        if f not in MODELLED + OTHER:
            _fail(body[k], "Path.extend_path: unknown field")
        if f in modes:
            _fail(body[k], f"Path.extend_path: {f} assigned twice")
        modes[f] = mode
        k += 1
    missing = [f for f in MODELLED + OTHER if f not in modes]
    if missing:
        raise TranslateError(f"Path.extend_path: the new path does not receive {missing} before the solver is filled")
    want = ast.unparse(ast.parse(EXTEND_SOLVER_PART.replace("PARENT", parent)))
    got = "\n".join(ast.unparse(s) for s in body[k:])
    if got != want and parent != param:
        got = got.replace(f"{param}.sliced", f"{parent}.sliced")
    if got != want:
        raise TranslateError("Path.extend_path: the part that fills the solver is not the modelled one "
                             "(all conditions of an unsliced parent, the sliced ones otherwise): " + got[:300])
    return modes


def translate(src_text):
    tree = ast.parse(src_text)
    translate_init(find_function(tree, "__init__", cls="Path"))
    br = translate_branch(find_function(tree, "branch", cls="Path"))
    ex = translate_extend_path(find_function(tree, "extend_path", cls="Path"))
    lines = [
        "(* GENERATED by translate/t_pathcopy.py from src/halmos/sevm.py (Path.branch, Path.extend_path) -- do not edit *)",
        "From HV Require Import Model.PathCopyDefs.",
        "",
        "Definition gen_modes : modes :=",
        "  mkModes " + " ".join([br[f] for f in MODELLED] + [ex[f] for f in MODELLED]) + ".",
        "",
        "(* not part of the model: " + ", ".join(f"branch.{f} = {br[f]}, extend_path.{f} = {ex[f]}" for f in OTHER) + " *)",
        "",
    ]
    return "\n".join(lines), {"branch": br, "extend_path": ex}


def selfcheck(info):
    """Cross-check against the imported class: object identity of the containers of a real
    parent / child pair must be what the translated modes say."""
    import z3
    from halmos.sevm import Path
    from halmos.utils import create_solver

    bad = []

    def mk_parent():
        p = Path(create_solver())
        x, y = z3.BitVec("p_x_uint256_00", 256), z3.BitVec("p_y_uint256_01", 256)
        p.append(z3.ULT(x, y))
        p.append(x != 5)
        return p, x, y

    def observe(parent, child, where, modes):
        for f in MODELLED:
            a, b = getattr(parent, f), getattr(child, f)
            same = a is b
            if same != (modes[f] == "MAlias"):
                bad.append(f"{where}: {f} {'is' if same else 'is not'} the parent's object, translated mode {modes[f]}")
            if a != b and dict(a) != dict(b):
                bad.append(f"{where}: {f} of the new path differs from the parent's right after creation")
        pv, cv = parent.var_to_conds, child.var_to_conds
        if not pv:
            bad.append(f"{where}: the sample parent has no var_to_conds entry")
        for k in pv:
            if k not in cv:
                bad.append(f"{where}: var_to_conds of the new path lacks a key of the parent")
                continue
            shared = pv[k] is cv[k]
            if shared != (modes["var_to_conds"] != "MDeep"):
                bad.append(f"{where}: the sets of var_to_conds are {'shared' if shared else 'copied'}, translated mode {modes['var_to_conds']}")
            break

    p, x, y = mk_parent()
    c = p.branch(y != 7)
    observe(p, c, "branch", info["branch"])
    if c.solver is not p.solver or len(c.pending) != 1:
        bad.append("branch: the child does not share the solver / hold one pending condition")
    p, x, y = mk_parent()
    n = Path(create_solver())
    n.extend_path(p)
    observe(p, n, "extend_path", info["extend_path"])
    return bad
