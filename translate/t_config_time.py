"""T-config-time: /repo/src/halmos/utils.py (parse_time) -> coq/Gen/GenConfigTime.v

The `isinstance(arg, str)` branch of parse_time is an if/elif chain
    arg.endswith(<suffix>) -> return float(arg[:-k]) [ / n | * n ]
    arg == <zero literal>  -> return 0.0
    else                   -> (needs default unit) parse_time(arg + default_unit, default_unit=None)
which is emitted as the ordered table `time_units : list (suffix, strip_len, mul, div)` plus the
zero literal and the list of admissible default units.  The arms for a non-string argument
(int | float -> parse_time(str(arg) + default_unit, None); else raise) are compared with the shape
modelled by Model.ConfigModel.parse_time_num.  Fail-closed.
"""
import ast

from .pyexpr import TranslateError, find_function
from .t_config import coq_str, int_const, str_const

NAME = "T-config-time"
SRC = "utils.py"
OUT = "GenConfigTime.v"


def translate(src_text):
    tree = ast.parse(src_text)
    fn = find_function(tree, "parse_time")
    if [a.arg for a in fn.args.args] != ["arg", "default_unit"]:
        raise TranslateError("parse_time: expected parameters (arg, default_unit)")
    body = [s for s in fn.body if not (isinstance(s, ast.Expr) and isinstance(s.value, ast.Constant))]
    if len(body) != 2:
        raise TranslateError("parse_time: expected two top-level statements")
    guard, main = body
    if ast.unparse(guard.test) .startswith("default_unit and default_unit not in ") is False or not isinstance(guard.test.values[1].comparators[0], ast.List):
        raise TranslateError("parse_time: unexpected default-unit guard")
    allowed = [str_const(e, "allowed unit") for e in guard.test.values[1].comparators[0].elts]
    if not (isinstance(guard.body[0], ast.Raise)):
        raise TranslateError("parse_time: default-unit guard must raise")
    if ast.unparse(main.test) != "isinstance(arg, str)":
        raise TranslateError("parse_time: expected `if isinstance(arg, str)` first")
    units = []
    zero = None
    node = main.body
    if len(node) != 1 or not isinstance(node[0], ast.If):
        raise TranslateError("parse_time: str branch must be a single if/elif chain")
    cur = node[0]
    while True:
        t = cur.test
        if (isinstance(t, ast.Call) and isinstance(t.func, ast.Attribute) and t.func.attr == "endswith"
                and isinstance(t.func.value, ast.Name) and t.func.value.id == "arg" and len(t.args) == 1):
            if zero is not None:
                raise TranslateError("parse_time: suffix test after the zero literal test")
            suf = str_const(t.args[0], "suffix")
            if len(cur.body) != 1 or not isinstance(cur.body[0], ast.Return):
                raise TranslateError("parse_time: suffix arm must be a single return")
            e = cur.body[0].value
            mul, div = 1, 1
            if isinstance(e, ast.BinOp) and isinstance(e.op, ast.Div):
                div = int_const(e.right, "divisor")
                e = e.left
            elif isinstance(e, ast.BinOp) and isinstance(e.op, ast.Mult):
                mul = int_const(e.right, "factor")
                e = e.left
            if not (isinstance(e, ast.Call) and isinstance(e.func, ast.Name) and e.func.id == "float" and len(e.args) == 1):
                raise TranslateError("parse_time: expected float(arg[:-k])")
            sl = e.args[0]
            if not (isinstance(sl, ast.Subscript) and isinstance(sl.value, ast.Name) and sl.value.id == "arg"
                    and isinstance(sl.slice, ast.Slice) and sl.slice.lower is None and sl.slice.step is None
                    and isinstance(sl.slice.upper, ast.UnaryOp) and isinstance(sl.slice.upper.op, ast.USub)):
                raise TranslateError("parse_time: expected arg[:-k]")
            k = int_const(sl.slice.upper.operand, "strip length")
            if div <= 0 or mul <= 0 or k <= 0:
                raise TranslateError("parse_time: non-positive constant")
            units.append((suf, k, mul, div))
        elif ast.unparse(t).startswith("arg == "):
            zero = str_const(t.comparators[0], "zero literal")
            if ast.unparse(cur.body[0]) != "return 0.0" or len(cur.body) != 1:
                raise TranslateError("parse_time: zero literal arm must return 0.0")
        else:
            raise TranslateError(f"parse_time: unexpected test {ast.unparse(t)!r}")
        if len(cur.orelse) == 1 and isinstance(cur.orelse[0], ast.If):
            cur = cur.orelse[0]
            continue
        tail = "\n".join(ast.unparse(s) for s in cur.orelse)
        if tail != "if not default_unit:\n    raise ValueError(f'Could not infer time unit from {arg}')\nreturn parse_time(arg + default_unit, default_unit=None)":
            raise TranslateError("parse_time: unexpected final else arm")
        break
    if zero is None or not units:
        raise TranslateError("parse_time: missing zero literal or units")
    # the arms for a non-string argument (a NUMBER in halmos.toml): int | float go through
    # str(arg) + default_unit (Model: parse_time_num), anything else raises
    rest = "\n".join(ast.unparse(s) for s in main.orelse)
    if rest != ("if isinstance(arg, int | float):\n    if not default_unit:\n        raise ValueError(f'Could not infer time unit from {arg}')\n"
                "    return parse_time(str(arg) + default_unit, default_unit=None)\nelse:\n    raise ValueError(f'Invalid time argument: {arg}')"):
        raise TranslateError("parse_time: unexpected arms for a non-string argument")
    L = [
        "(* GENERATED by translate/t_config_time.py from src/halmos/utils.py (parse_time) -- do not edit *)",
        "From Coq Require Import ZArith List Bool.",
        "Import ListNotations.",
        "Open Scope Z_scope.",
        "",
        "(* ordered: (suffix, number of characters stripped, multiplier, divisor) *)",
        "Definition time_units : list (list Z * Z * Z * Z) := [" + "; ".join(f"({coq_str(s)}, {k}, {m}, {d})" for s, k, m, d in units) + "].",
        f"Definition time_zero_literal : list Z := {coq_str(zero)}.",
        "Definition time_allowed_default_units : list (list Z) := [" + "; ".join(coq_str(a) for a in allowed) + "].",
        "",
    ]
    return "\n".join(L), {"units": units, "zero": zero}


def selfcheck(info):
    from halmos.utils import parse_time

    bad = []
    for s, k, m, d in info["units"]:
        got = parse_time("3" + s, default_unit=None)
        if abs(got - 3 * m / d) > 1e-12:
            bad.append(f"unit {s!r}: parse_time('3{s}') = {got}, table says {3 * m / d}")
    if parse_time(info["zero"], default_unit=None) != 0.0:
        bad.append("zero literal")
    return bad
