"""T-config: /repo/src/halmos/config.py -> coq/Gen/GenConfig.v

Emits
  * the ConfigSource IntEnum members (SRC_<name> : Z) and `all_sources`;
  * the decision of Config.value_with_source: the initial `best_source`, and the guard of the
    loop body as `vws_takes (is_set : bool) (cur best : Z) : bool` (the comparison is translated
    as an expression, so `>` / `>=` / swapped operands all come out as what the code says);
    the loop *shape* (walk from self through _parent, update both components, return the pair)
    is checked against a reference after alpha-renaming of local variables;
  * the decision of Config.resolved_solver_command as
    `use_solver_command (cmd_nonempty : bool) (cmd_src solver_src : Z) : bool`, plus the shape;
  * literals of the Parse* codecs (separator, "*", the two renderings of ParseErrorCodes.unparse
    (bound, prefixes, format specs), the literals of ParseTimeout.unparse (the float("inf")
    literal, threshold, factor, divisor, the three suffixes), regexes of ParseArrayLengths,
    TraceEvent values, default unit of ParseTimeout.parse).  The statement shape of every codec
    method is compared with the shape modelled in Model/ConfigModel.v after alpha-renaming of the
    bound names (a renamed local is not a change).
Fail-closed: any other shape raises TranslateError.
"""
import ast
import copy

from .pyexpr import TranslateError, Translator, find_function

NAME = "T-config"
SRC = "config.py"
OUT = "GenConfig.v"


# ----------------------------------------------------------------- helpers (also used by t_config_main / t_config_time)

def coq_str(s):
    """python str -> Gallina `list Z` of code points"""
    return "[" + "; ".join(str(ord(c)) for c in s) + "]"


class _Renamer(ast.NodeTransformer):
    """alpha-normalise local names in order of first appearance (DFS, field order)"""

    def __init__(self, local):
        self.local = local
        self.map = {}

    def _n(self, name):
        if name in self.local:
            if name not in self.map:
                self.map[name] = f"v{len(self.map)}"
            return self.map[name]
        return name

    def visit_Name(self, node):
        return ast.copy_location(ast.Name(id=self._n(node.id), ctx=node.ctx), node)

    def visit_arg(self, node):
        return ast.copy_location(ast.arg(arg=self._n(node.arg), annotation=None), node)


# names that are NOT local variables of the functions whose shape is checked (module globals and
# builtins they use); every other name is alpha-renamed, wherever it is bound (a walrus inside a
# hole binds a local that is only *read* in the rest of the body)
GLOBAL_NAMES = {
    "ConfigSource", "object", "shlex", "warn", "get_solver_command", "RuntimeError", "arg_parser",
    "parse_devdoc", "parse_natspec", "vars", "default_config", "resolve_config_files", "toml_parser",
    "os", "sys", "error", "None", "True", "False",
}


def local_names(fn):
    out = {a.arg for a in fn.args.args}
    for n in ast.walk(fn):
        if isinstance(n, ast.Name) and n.id not in GLOBAL_NAMES:
            out.add(n.id)
    return out


def normalized_dump(fn, holes=()):
    """dump of the function body with `holes` (ast nodes, matched by identity) replaced by
    placeholders, docstrings dropped, annotations/decorators ignored, locals alpha-renamed."""
    fn = copy.deepcopy(fn_with_marks(fn, holes))
    fn.returns = None
    fn.decorator_list = []
    body = fn.body
    if body and isinstance(body[0], ast.Expr) and isinstance(body[0].value, ast.Constant) and isinstance(body[0].value.value, str):
        fn.body = body[1:]
    loc = local_names(fn)
    fn = _Renamer(loc).visit(fn)
    return ast.dump(fn, annotate_fields=True, include_attributes=False)


def fn_with_marks(fn, holes):
    if not holes:
        return fn
    return _replace(fn, {id(h): i for i, h in enumerate(holes)})


def _replace(node, ids):
    """non-destructive replacement by identity"""
    if id(node) in ids:
        return ast.Constant(value=f"HOLE{ids[id(node)]}")
    if isinstance(node, ast.AST):
        new = copy.copy(node)
        for f, v in ast.iter_fields(node):
            if isinstance(v, list):
                setattr(new, f, [_replace(x, ids) for x in v])
            elif isinstance(v, ast.AST):
                setattr(new, f, _replace(v, ids))
        return new
    return node


def same_shape(fn, holes, ref_src, ref_holes_fn, what):
    ref = ast.parse(ref_src).body[0]
    a = normalized_dump(fn, holes)
    b = normalized_dump(ref, ref_holes_fn(ref))
    if a != b:
        raise TranslateError(f"{what}: statement shape differs from the reference shape this translator understands")


def class_def(tree, name):
    for n in tree.body:
        if isinstance(n, ast.ClassDef) and n.name == name:
            return n
    raise TranslateError(f"class {name} not found")


def str_const(node, what):
    if isinstance(node, ast.Constant) and isinstance(node.value, str):
        return node.value
    raise TranslateError(f"{what}: expected a string literal")


def int_const(node, what):
    if isinstance(node, ast.Constant) and isinstance(node.value, int) and not isinstance(node.value, bool):
        return node.value
    raise TranslateError(f"{what}: expected an integer literal")


# ----------------------------------------------------------------- reference shapes

REF_VWS = '''
def value_with_source(self, name):
    best_value, best_source = None, ConfigSource.void
    current = self
    while current is not None:
        value = object.__getattribute__(current, name)
        if value is not None and 'HOLE0':
            best_value, best_source = value, current_source
        current = current._parent
    return (best_value, best_source)
'''

REF_RSC = '''
def resolved_solver_command(self):
    solver, solver_source = self.value_with_source("solver")
    solver_command, solver_command_source = self.value_with_source("solver_command")
    if 'HOLE0':
        if solver_command_source == solver_source:
            warn('HOLE1', allow_duplicate=False)
        return shlex.split(solver_command)
    command = get_solver_command(solver)
    if not command:
        raise RuntimeError('HOLE2')
    return command
'''


def enum_members(tree, cname, base):
    c = class_def(tree, cname)
    if [ast.unparse(b) for b in c.bases] != [base]:
        raise TranslateError(f"{cname}: expected base {base}")
    out = {}
    for n in c.body:
        if isinstance(n, ast.Expr) and isinstance(n.value, ast.Constant) and isinstance(n.value.value, str):
            continue
        if isinstance(n, ast.Assign) and len(n.targets) == 1 and isinstance(n.targets[0], ast.Name) and isinstance(n.value, ast.Constant):
            out[n.targets[0].id] = n.value.value
        else:
            raise TranslateError(f"{cname}: unexpected member {ast.unparse(n)!r}")
    return out


def translate_vws(tree, srcs):
    fn = find_function(tree, "value_with_source", cls="Config")
    # locate the pieces
    try:
        first, second, loop, ret = [s for s in fn.body]
        best_value, best_source = [e.id for e in first.targets[0].elts]
        init = first.value.elts[1]
        cur = second.targets[0].id
        get, iff, step = loop.body
        value = get.targets[0].id
        test = iff.test
        assert isinstance(test, ast.BoolOp) and isinstance(test.op, ast.And) and len(test.values) == 2
        isset, cmp_ = test.values
        assert isinstance(cmp_, ast.Compare)
    except (ValueError, AttributeError, AssertionError, IndexError) as e:
        raise TranslateError(f"value_with_source: unexpected statement structure ({type(e).__name__})") from e
    if not (isinstance(init, ast.Attribute) and isinstance(init.value, ast.Name) and init.value.id == "ConfigSource" and init.attr in srcs):
        raise TranslateError("value_with_source: initial best_source is not a ConfigSource member")
    # the comparison: replace (x := current._source) by a variable
    cmp2 = copy.deepcopy(cmp_)
    cur_src_names = []

    class NE(ast.NodeTransformer):
        def visit_NamedExpr(self, node):
            v = node.value
            if not (isinstance(v, ast.Attribute) and v.attr == "_source" and isinstance(v.value, ast.Name) and v.value.id == cur):
                raise TranslateError("value_with_source: walrus value is not <current>._source")
            cur_src_names.append(node.target.id)
            return ast.Name(id=node.target.id, ctx=ast.Load())

        def visit_Attribute(self, node):
            if node.attr == "_source" and isinstance(node.value, ast.Name) and node.value.id == cur:
                return ast.Name(id="__cur_source__", ctx=ast.Load())
            return self.generic_visit(node)

    cmp2 = NE().visit(cmp2)
    names = {best_source: "best", "__cur_source__": "cur"}
    for n in cur_src_names:
        names[n] = "cur"
    if len(cur_src_names) != 1:
        raise TranslateError("value_with_source: expected exactly one walrus binding of the current source")
    guard = Translator(names=names).tr(cmp2).as_bool()
    # shape check with the comparison as a hole
    same_shape(fn, [cmp_], REF_VWS, lambda r: [], "Config.value_with_source")
    return init.attr, guard


def translate_rsc(tree):
    fn = find_function(tree, "resolved_solver_command", cls="Config")
    body = [s for s in fn.body if not (isinstance(s, ast.Expr) and isinstance(s.value, ast.Constant))]
    try:
        a1, a2, iff = body[0], body[1], body[2]
        solver, solver_src = [e.id for e in a1.targets[0].elts]
        cmd, cmd_src = [e.id for e in a2.targets[0].elts]
        assert isinstance(iff, ast.If)
        inner_if = iff.body[0]
        warn_arg = inner_if.body[0].value.args[0]
        raise_arg = body[4].body[0].exc.args[0]
    except (ValueError, AttributeError, AssertionError, IndexError) as e:
        raise TranslateError(f"resolved_solver_command: unexpected statement structure ({type(e).__name__})") from e
    test = copy.deepcopy(iff.test)

    # truthiness of bare names inside and/or: str -> bool variable, IntEnum -> (x != 0)
    class T(ast.NodeTransformer):
        def visit_BoolOp(self, node):
            vals = []
            for v in node.values:
                if isinstance(v, ast.Name) and v.id in (cmd_src, solver_src):
                    vals.append(ast.Compare(left=v, ops=[ast.NotEq()], comparators=[ast.Constant(value=0)]))
                else:
                    vals.append(self.visit(v))
            return ast.BoolOp(op=node.op, values=vals)

    test = T().visit(test)
    if isinstance(test, ast.Name):
        raise TranslateError("resolved_solver_command: bare-name test not supported")
    tr = Translator(names={cmd_src: "cmd_src", solver_src: "solver_src", cmd: "cmd_nonempty"}, bool_names=[cmd])
    decision = tr.tr(test).as_bool()
    same_shape(
        fn, [iff.test, warn_arg, raise_arg],
        REF_RSC,
        lambda r: [], "Config.resolved_solver_command")
    return decision


# ----------------------------------------------------------------- Parse* literals

def method(cls, name):
    for n in cls.body:
        if isinstance(n, ast.FunctionDef) and n.name == name:
            return n
    raise TranslateError(f"{cls.name}.{name} not found")


def body_src(fn):
    body = [s for s in fn.body if not (isinstance(s, ast.Expr) and isinstance(s.value, ast.Constant))]
    return "\n".join(ast.unparse(s) for s in body)


EXPECT_BODIES = {
    # codec bodies whose *structure* is hand-modelled in Model/ConfigModel.v; the literals inside
    # are extracted separately below and replaced by placeholders here
    # (bound names in alpha-normal form: n0 is the parameter, n1.. the locals in order of appearance)
    ("ParseCSVTraceEvent", "parse"): "try:\n    return [TraceEvent(n1) for n1 in parse_csv(n0)]\nexcept ValueError as n3:\n    n2 = <S0>.join([n3.value for n3 in TraceEvent])\n    raise ValueError(f<F0>) from n3",
    ("ParseCSVTraceEvent", "unparse"): "return <S0>.join([n1.value for n1 in n0])",
    ("ParseCSVInt", "parse"): "return ensure_non_empty([int(n1) for n1 in parse_csv(n0)])",
    ("ParseCSVInt", "unparse"): "return <S0>.join([str(n1) for n1 in n0])",
    ("ParseErrorCodes", "parse"): "n0 = n0.strip()\nif n0 == <S0>:\n    return set()\nreturn ensure_non_empty(set((int(n1, <I0>) for n1 in parse_csv(n0))))",
    ("ParseErrorCodes", "unparse"): "if not n0:\n    return <S0>\nreturn <S1>.join([f<F0> if n1 < <I0> else f<F1> for n1 in n0])",
    ("ParseTimeout", "parse"): "return parse_time(n0, default_unit=<S0>)",
    ("ParseTimeout", "unparse"): ("if n0 == n0 and abs(n0) != float(<S0>):\n"
                                  "    if n0 >= <I0> and n0 == int(n0):\n        return f<F0>\n"
                                  "    n1 = n0 * <I1>\n"
                                  "    if abs(n1) != float(<S1>) and n1 == int(n1) and (n1 / <I2> == n0):\n        return f<F1>\n"
                                  "return f<F2>"),
    ("ParseArrayLengths", "parse"): "if not n0:\n    return {}\nn0 = <S0>.join(n0.split())\nif not re.match(<S1>, n0):\n    raise ValueError(f<F0>)\nn1 = re.findall(<S2>, n0)\nreturn {n2.strip(): ensure_non_empty([int(n5) for n5 in parse_csv(n3 or n4)]) for n2, n3, n4 in n1}",
    ("ParseArrayLengths", "unparse"): "return <S0>.join([f<F0> for n1, n2 in n0.items()])",
}


def bound_names(fn):
    """names bound inside the function: parameters, assignment / comprehension / walrus targets,
    exception names"""
    out = {a.arg for a in fn.args.args}
    for n in ast.walk(fn):
        if isinstance(n, ast.Name) and isinstance(n.ctx, ast.Store):
            out.add(n.id)
        elif isinstance(n, ast.ExceptHandler) and n.name:
            out.add(n.name)
    return out


class _Alpha(ast.NodeTransformer):
    """rename the bound names to n0, n1, ... in order of first appearance (source order)"""

    def __init__(self, bound):
        self.bound = bound
        self.map = {}

    def _n(self, name):
        if name not in self.bound:
            return name
        if name not in self.map:
            self.map[name] = f"n{len(self.map)}"
        return self.map[name]

    def visit_Name(self, node):
        return ast.copy_location(ast.Name(id=self._n(node.id), ctx=node.ctx), node)

    def visit_arg(self, node):
        return ast.copy_location(ast.arg(arg=self._n(node.arg), annotation=None), node)

    def visit_ExceptHandler(self, node):
        node = self.generic_visit(node)
        if node.name:
            node.name = self._n(node.name)
        return node

    def visit_ListComp(self, node):
        # the generators bind before the element uses: visit them first so that the numbering
        # follows binding order
        node.generators = [self.visit(g) for g in node.generators]
        node.elt = self.visit(node.elt)
        return node

    visit_SetComp = visit_GeneratorExp = visit_ListComp

    def visit_DictComp(self, node):
        node.generators = [self.visit(g) for g in node.generators]
        node.key = self.visit(node.key)
        node.value = self.visit(node.value)
        return node


def abstract_literals(fn):
    """returns (source text of the body with the bound names alpha-renamed (n0, n1, ...: a renamed
    local or parameter is not a change of shape) and literals replaced by <S0>.. <I0>.. f<F0>..,
    literals)"""
    lits = {"S": [], "I": [], "F": []}
    fn = copy.deepcopy(fn)
    fn = _Alpha(bound_names(fn)).visit(fn)

    class A(ast.NodeTransformer):
        def visit_JoinedStr(self, node):
            lits["F"].append(node)
            return ast.Name(id=f"f<F{len(lits['F']) - 1}>", ctx=ast.Load())

        def visit_Constant(self, node):
            if isinstance(node.value, str):
                lits["S"].append(node.value)
                return ast.Name(id=f"<S{len(lits['S']) - 1}>", ctx=ast.Load())
            if isinstance(node.value, int) and not isinstance(node.value, bool):
                lits["I"].append(node.value)
                return ast.Name(id=f"<I{len(lits['I']) - 1}>", ctx=ast.Load())
            return node

    body = [s for s in fn.body if not (isinstance(s, ast.Expr) and isinstance(s.value, ast.Constant))]
    body = [A().visit(s) for s in body]
    return "\n".join(ast.unparse(s) for s in body), lits


def fstring_parts(js, what):
    """JoinedStr -> list of ('lit', str) | ('fmt', expr-source, format-spec str)"""
    out = []
    for v in js.values:
        if isinstance(v, ast.Constant):
            out.append(("lit", v.value))
        elif isinstance(v, ast.FormattedValue):
            spec = ""
            if v.format_spec is not None:
                if not all(isinstance(x, ast.Constant) for x in v.format_spec.values):
                    raise TranslateError(f"{what}: dynamic format spec")
                spec = "".join(x.value for x in v.format_spec.values)
            if v.conversion == -1:
                out.append(("fmt", ast.unparse(v.value), spec))
            elif v.conversion == ord("r") and spec == "":
                out.append(("repr", ast.unparse(v.value), ""))
            else:
                raise TranslateError(f"{what}: unsupported conversion in f-string")
        else:
            raise TranslateError(f"{what}: unexpected f-string part")
    return out


def codec_literals(tree):
    info = {}
    for (cname, mname), expect in EXPECT_BODIES.items():
        fn = method(class_def(tree, cname), mname)
        text, lits = abstract_literals(fn)
        if text != expect:
            raise TranslateError(f"{cname}.{mname}: body shape differs from the modelled shape:\n{text}")
        info[(cname, mname)] = lits
    # parse_csv
    fn = find_function(tree, "parse_csv")
    if ast.unparse(fn.body[-1]) != "return (x for _x in values.split(sep) if (x := _x.strip()))":
        raise TranslateError("parse_csv: body shape differs from the modelled shape")
    if len(fn.args.defaults) != 1:
        raise TranslateError("parse_csv: expected one default (sep)")
    info["csv_sep"] = str_const(fn.args.defaults[0], "parse_csv sep default")
    fn = find_function(tree, "ensure_non_empty")
    if body_src(fn) != "if not values:\n    raise ValueError('required a non-empty list')\nreturn values":
        raise TranslateError("ensure_non_empty: body shape differs from the modelled shape")
    return info


def translate(src_text):
    tree = ast.parse(src_text)
    srcs = enum_members(tree, "ConfigSource", "IntEnum")
    if not all(isinstance(v, int) for v in srcs.values()) or len(srcs) < 2:
        raise TranslateError("ConfigSource: expected integer members")
    events = enum_members(tree, "TraceEvent", "Enum")
    if not all(isinstance(v, str) for v in events.values()):
        raise TranslateError("TraceEvent: expected string members")
    init_attr, guard = translate_vws(tree, srcs)
    decision = translate_rsc(tree)
    lit = codec_literals(tree)

    L = [
        "(* GENERATED by translate/t_config.py from src/halmos/config.py -- do not edit *)",
        "From Coq Require Import ZArith List Bool.",
        "Import ListNotations.",
        "Open Scope Z_scope.",
        "",
    ]
    for k, v in srcs.items():
        L.append(f"Definition SRC_{k} : Z := {v}.")
    L.append("Definition all_sources : list Z := [" + "; ".join(f"SRC_{k}" for k in srcs) + "].")
    L.append("")
    L.append("(* Config.value_with_source: walk self -> _parent; take (value, source) of a layer when: *)")
    L.append(f"Definition vws_init_source : Z := SRC_{init_attr}.")
    L.append(f"Definition vws_takes (is_set : bool) (cur best : Z) : bool := andb is_set {guard}.")
    L.append("")
    L.append("(* Config.resolved_solver_command: use --solver-command (else resolve --solver) when: *)")
    L.append(f"Definition use_solver_command (cmd_nonempty : bool) (cmd_src solver_src : Z) : bool := {decision}.")
    L.append("")
    L.append("(* codec literals *)")
    L.append(f"Definition csv_sep : list Z := {coq_str(lit['csv_sep'])}.")
    L.append("Definition trace_event_names : list (list Z) := [" + "; ".join(coq_str(v) for v in events.values()) + "].")
    te_join = lit[("ParseCSVTraceEvent", "unparse")]["S"][0]
    L.append(f"Definition trace_join : list Z := {coq_str(te_join)}.")
    L.append(f"Definition csvint_join : list Z := {coq_str(lit[('ParseCSVInt', 'unparse')]['S'][0])}.")
    ec_p = lit[("ParseErrorCodes", "parse")]
    ec_u = lit[("ParseErrorCodes", "unparse")]
    L.append(f"Definition errcodes_any : list Z := {coq_str(ec_p['S'][0])}.")
    L.append(f"Definition errcodes_int_base : Z := {ec_p['I'][0]}.")
    L.append(f"Definition errcodes_unparse_any : list Z := {coq_str(ec_u['S'][0])}.")
    L.append(f"Definition errcodes_join : list Z := {coq_str(ec_u['S'][1])}.")
    # [f"<neg prefix>{-v:<spec>}" if v < <I0> else f"<prefix>{v:<spec>}" for v in values]
    def ec_item(js, want_arg):
        parts = fstring_parts(js, "ParseErrorCodes.unparse")
        if not (len(parts) == 2 and parts[0][0] == "lit" and parts[1][0] == "fmt" and parts[1][1] == want_arg):
            raise TranslateError(f"ParseErrorCodes.unparse: expected f'<prefix>{{{want_arg}:<spec>}}'")
        spec = parts[1][2]
        if not (len(spec) == 3 and spec[0] == "0" and spec[1].isdigit() and spec[2] in "xX"):
            raise TranslateError(f"ParseErrorCodes.unparse: unsupported format spec {spec!r}")
        return parts[0][1], int(spec[1]), spec[2] == "X"

    npfx, nwidth, nupper = ec_item(ec_u["F"][0], "-n1")
    ppfx, pwidth, pupper = ec_item(ec_u["F"][1], "n1")
    L.append(f"Definition errcodes_neg_bound : Z := {ec_u['I'][0]}.   (* the rendering of v is the negative one when v < this *)")
    L.append(f"Definition errcodes_neg_prefix : list Z := {coq_str(npfx)}.   (* followed by the digits of -v *)")
    L.append(f"Definition errcodes_neg_width : Z := {nwidth}.")
    L.append(f"Definition errcodes_neg_upper : bool := {'true' if nupper else 'false'}.")
    L.append(f"Definition errcodes_fmt_prefix : list Z := {coq_str(ppfx)}.")
    L.append(f"Definition errcodes_fmt_width : Z := {pwidth}.")
    L.append(f"Definition errcodes_fmt_upper : bool := {'true' if pupper else 'false'}.")
    to_p = lit[("ParseTimeout", "parse")]
    to_u = lit[("ParseTimeout", "unparse")]
    L.append(f"Definition timeout_default_unit : list Z := {coq_str(to_p['S'][0])}.")
    # if value == value and abs(value) != float(<S0>):
    #     if value >= <I0> and value == int(value): return f"{int(value)}<large suffix>"
    #     ms = value * <I1>
    #     if abs(ms) != float(<S1>) and ms == int(ms) and ms / <I2> == value: return f"{int(ms)}<small suffix>"
    # return f"{value!r}<exact suffix>"
    L.append(f"Definition timeout_unparse_inf_literal : list Z := {coq_str(to_u['S'][0])}.   (* float(<this>) *)")
    L.append(f"Definition timeout_unparse_ms_inf_literal : list Z := {coq_str(to_u['S'][1])}.   (* float(<this>), in the test of ms *)")
    L.append(f"Definition timeout_unparse_threshold : Z := {to_u['I'][0]}.")
    L.append(f"Definition timeout_unparse_small_factor : Z := {to_u['I'][1]}.")
    L.append(f"Definition timeout_unparse_small_divisor : Z := {to_u['I'][2]}.")
    large = fstring_parts(to_u["F"][0], "ParseTimeout.unparse")
    small = fstring_parts(to_u["F"][1], "ParseTimeout.unparse")
    exact = fstring_parts(to_u["F"][2], "ParseTimeout.unparse")
    if not (len(large) == 2 and large[0] == ("fmt", "int(n0)", "") and large[1][0] == "lit"):
        raise TranslateError("ParseTimeout.unparse: unexpected whole-seconds rendering")
    if not (len(small) == 2 and small[0] == ("fmt", "int(n1)", "") and small[1][0] == "lit"):
        raise TranslateError("ParseTimeout.unparse: unexpected whole-milliseconds rendering")
    # f"{value!r}s"; f"{value}s" is the same string for a float (format(x, "") = str(x) = repr(x))
    if not (len(exact) == 2 and exact[0] in (("repr", "n0", ""), ("fmt", "n0", "")) and exact[1][0] == "lit"):
        raise TranslateError("ParseTimeout.unparse: unexpected exact rendering")
    L.append(f"Definition timeout_unparse_large_suffix : list Z := {coq_str(large[1][1])}.")
    L.append(f"Definition timeout_unparse_small_suffix : list Z := {coq_str(small[1][1])}.")
    L.append(f"Definition timeout_unparse_exact_suffix : list Z := {coq_str(exact[1][1])}.")
    al_p = lit[("ParseArrayLengths", "parse")]
    al_u = lit[("ParseArrayLengths", "unparse")]
    L.append(f"Definition arrlen_ws_join : list Z := {coq_str(al_p['S'][0])}.")
    L.append(f"Definition arrlen_check_re : list Z := {coq_str(al_p['S'][1])}.")
    L.append(f"Definition arrlen_find_re : list Z := {coq_str(al_p['S'][2])}.")
    L.append(f"Definition arrlen_join : list Z := {coq_str(al_u['S'][0])}.")
    item = fstring_parts(al_u["F"][0], "ParseArrayLengths.unparse")
    # f"{k}={{{','.join([str(v) for v in vs])}}}"
    if not (len(item) == 4 and item[0] == ("fmt", "n1", "") and item[1][0] == "lit" and item[2][0] == "fmt" and item[3][0] == "lit"):
        raise TranslateError("ParseArrayLengths.unparse: unexpected item rendering")
    inner = ast.parse(item[2][1], mode="eval").body
    if not (isinstance(inner, ast.Call) and isinstance(inner.func, ast.Attribute) and inner.func.attr == "join"
            and ast.unparse(inner.args[0]) == "[str(n3) for n3 in n2]"):
        raise TranslateError("ParseArrayLengths.unparse: unexpected sizes rendering")
    L.append(f"Definition arrlen_item_open : list Z := {coq_str(item[1][1])}.")
    L.append(f"Definition arrlen_item_close : list Z := {coq_str(item[3][1])}.")
    L.append(f"Definition arrlen_sizes_join : list Z := {coq_str(str_const(inner.func.value, 'sizes separator'))}.")
    L.append("")
    return "\n".join(L), {"srcs": srcs, "events": events, "init": init_attr}


def selfcheck(info):
    import halmos.config as c

    bad = []
    for k, v in info["srcs"].items():
        m = getattr(c.ConfigSource, k, None)
        if m is None or int(m) != v:
            bad.append(f"ConfigSource.{k}: module has {m!r}, source literal {v}")
    if len(c.ConfigSource) != len(info["srcs"]):
        bad.append("ConfigSource: member count differs")
    if [e.value for e in c.TraceEvent] != list(info["events"].values()):
        bad.append("TraceEvent: members differ")
    return bad
