"""Fail-closed translator from a small subset of Python expressions to Gallina.

Only the syntactic shapes below are accepted; anything else raises
TranslateError, which the check treats as a broken tie (step "translate").

Types: every Python int expression becomes a Gallina `Z` expression, every
Python bool expression a Gallina `bool`.  A bool used in arithmetic position
becomes `Z.b2z b` (Python's True == 1).  An int used in boolean position
(truthiness) becomes `negb (Z.eqb e 0)`.
"""
import ast


class TranslateError(Exception):
    pass


def _fail(node, why):
    try:
        src = ast.unparse(node)
    except Exception:
        src = repr(node)
    raise TranslateError(f"unsupported python shape ({why}): {src!r} at line {getattr(node, 'lineno', '?')}")


class Expr:
    """A translated expression: Gallina text + type ('Z' or 'bool')."""

    def __init__(self, text, ty):
        self.text = text
        self.ty = ty

    def as_Z(self):
        if self.ty == "Z":
            return self.text
        return f"(Z.b2z {self.text})"

    def as_bool(self):
        if self.ty == "bool":
            return self.text
        return f"(negb (Z.eqb {self.text} 0))"


CMP = {
    ast.Lt: "Z.ltb",
    ast.LtE: "Z.leb",
    ast.Gt: "Z.gtb",
    ast.GtE: "Z.geb",
    ast.Eq: "Z.eqb",
}

BIN = {
    ast.Add: "Z.add",
    ast.Sub: "Z.sub",
    ast.Mult: "Z.mul",
    ast.FloorDiv: "Z.div",   # python floor division == Coq Z.div (floor) for all signs
    ast.Mod: "Z.modulo",     # python % == Coq Z.modulo (sign of divisor)
    ast.LShift: "Z.shiftl",
    ast.RShift: "Z.shiftr",
    ast.BitAnd: "Z.land",
    ast.BitOr: "Z.lor",
    ast.BitXor: "Z.lxor",
    ast.Pow: "Z.pow",
}


class Translator:
    def __init__(self, names=None, bool_names=(), funcs=None, consts=None):
        """names: python name -> gallina name for Z variables/constants
        bool_names: python names that are bool typed
        funcs: python function name -> (gallina name, result type, [arg types])
        consts: python name -> int value (inlined as literal)"""
        self.names = dict(names or {})
        self.bool_names = set(bool_names)
        self.funcs = dict(funcs or {})
        self.consts = dict(consts or {})

    def lit(self, v):
        if isinstance(v, bool):
            return Expr("true" if v else "false", "bool")
        if isinstance(v, int):
            return Expr(f"({v})" if v < 0 else f"{v}", "Z")
        raise TranslateError(f"unsupported literal {v!r}")

    def tr(self, node) -> Expr:
        if isinstance(node, ast.Constant):
            if isinstance(node.value, (bool, int)):
                return self.lit(node.value)
            _fail(node, "constant type")
        if isinstance(node, ast.Name):
            if node.id in self.consts:
                return self.lit(self.consts[node.id])
            if node.id in self.bool_names:
                return Expr(self.names.get(node.id, node.id), "bool")
            if node.id in self.names:
                return Expr(self.names[node.id], "Z")
            _fail(node, "unknown name")
        if isinstance(node, ast.BinOp):
            op = BIN.get(type(node.op))
            if op is None:
                _fail(node, "binary operator")
            l, r = self.tr(node.left), self.tr(node.right)
            if isinstance(node.op, (ast.BitAnd, ast.BitOr)) and l.ty == "bool" and r.ty == "bool":
                f = "andb" if isinstance(node.op, ast.BitAnd) else "orb"
                return Expr(f"({f} {l.text} {r.text})", "bool")
            return Expr(f"({op} {l.as_Z()} {r.as_Z()})", "Z")
        if isinstance(node, ast.UnaryOp):
            if isinstance(node.op, ast.Not):
                return Expr(f"(negb {self.tr(node.operand).as_bool()})", "bool")
            if isinstance(node.op, ast.USub):
                return Expr(f"(Z.opp {self.tr(node.operand).as_Z()})", "Z")
            _fail(node, "unary operator")
        if isinstance(node, ast.BoolOp):
            f = "andb" if isinstance(node.op, ast.And) else "orb"
            vals = [self.tr(v) for v in node.values]
            if any(v.ty != "bool" for v in vals):
                # python and/or on ints returns an operand, not a bool: not supported
                _fail(node, "and/or over non-bool operands")
            text = vals[-1].text
            for v in reversed(vals[:-1]):
                text = f"({f} {v.text} {text})"
            return Expr(text, "bool")
        if isinstance(node, ast.Compare):
            parts = []
            left = self.tr(node.left)
            for op, comp in zip(node.ops, node.comparators):
                right = self.tr(comp)
                if isinstance(op, ast.NotEq):
                    if left.ty == "bool" and right.ty == "bool":
                        parts.append(f"(xorb {left.text} {right.text})")
                    else:
                        parts.append(f"(negb (Z.eqb {left.as_Z()} {right.as_Z()}))")
                elif isinstance(op, ast.Eq) and left.ty == "bool" and right.ty == "bool":
                    parts.append(f"(Bool.eqb {left.text} {right.text})")
                else:
                    f = CMP.get(type(op))
                    if f is None:
                        _fail(node, "comparison operator")
                    parts.append(f"({f} {left.as_Z()} {right.as_Z()})")
                left = right
            text = parts[-1]
            for p in reversed(parts[:-1]):
                text = f"(andb {p} {text})"
            return Expr(text, "bool")
        if isinstance(node, ast.IfExp):
            c = self.tr(node.test).as_bool()
            a, b = self.tr(node.body), self.tr(node.orelse)
            if a.ty == b.ty:
                return Expr(f"(if {c} then {a.text} else {b.text})", a.ty)
            return Expr(f"(if {c} then {a.as_Z()} else {b.as_Z()})", "Z")
        if isinstance(node, ast.Call) and isinstance(node.func, ast.Name) and node.func.id in self.funcs:
            if node.keywords:
                _fail(node, "keyword arguments")
            g, rty, atys = self.funcs[node.func.id]
            if len(atys) != len(node.args):
                _fail(node, "arity")
            args = []
            for a, ty in zip(node.args, atys):
                e = self.tr(a)
                args.append(e.as_Z() if ty == "Z" else e.as_bool())
            return Expr("(" + " ".join([g] + args) + ")", rty)
        _fail(node, "expression kind")


def find_function(tree, name, cls=None):
    """Return the ast.FunctionDef `name` (inside class `cls` if given)."""
    body = tree.body
    if cls is not None:
        for n in body:
            if isinstance(n, ast.ClassDef) and n.name == cls:
                body = n.body
                break
        else:
            raise TranslateError(f"class {cls} not found")
    for n in body:
        if isinstance(n, (ast.FunctionDef,)) and n.name == name:
            return n
    raise TranslateError(f"function {name} not found" + (f" in class {cls}" if cls else ""))


def strip_docstring(body):
    if body and isinstance(body[0], ast.Expr) and isinstance(body[0].value, ast.Constant) and isinstance(body[0].value.value, str):
        return body[1:]
    return body


def single_return(fn):
    """Body must be exactly `return <expr>` (after an optional docstring)."""
    body = strip_docstring(fn.body)
    if len(body) != 1 or not isinstance(body[0], ast.Return) or body[0].value is None:
        raise TranslateError(f"{fn.name}: expected a single return statement")
    return body[0].value


def module_int_constants(tree, prefix=None):
    """Top-level `NAME = <int literal>` assignments (optionally with a name prefix)."""
    out = {}
    for n in tree.body:
        if isinstance(n, ast.Assign) and len(n.targets) == 1 and isinstance(n.targets[0], ast.Name):
            name = n.targets[0].id
            if prefix and not name.startswith(prefix):
                continue
            v = n.value
            if isinstance(v, ast.Constant) and isinstance(v.value, int) and not isinstance(v.value, bool):
                out[name] = v.value
            elif prefix:
                raise TranslateError(f"{name}: expected an integer literal")
    return out


def tuple_of_names(tree, name):
    for n in tree.body:
        if isinstance(n, ast.Assign) and len(n.targets) == 1 and isinstance(n.targets[0], ast.Name) and n.targets[0].id == name:
            if isinstance(n.value, ast.Tuple) and all(isinstance(e, ast.Name) for e in n.value.elts):
                return [e.id for e in n.value.elts]
            raise TranslateError(f"{name}: expected a tuple of names")
    raise TranslateError(f"{name} not found")
