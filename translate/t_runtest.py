"""T-runtest: the decision logic of run_test / setup / run_target_function
(src/halmos/__main__.py) -> coq/Gen/GenRunTest.v

Emits
  * the Exitcode enum values                                        EX_PASS ... EX_EXCEPTION
  * the per-path classification chain of run_test's main loop       classify
        (panic_found, fail_set, is_stuck, has_error : bool) -> Z    0 potential / 1 stuck candidate /
                                                                    2 normal / 3 ignored
  * the filter on the stuck-path solver answer                      stuck_counts (r : Z) : bool
  * the --width cut                                                 width_cut (width path_id : Z) : bool
  * the verdict chain over the solver-answer counter                verdict (n_sat n_err n_unknown n_stuck normal : Z) : Z
  * setup(): which explored paths count as successful               setup_path_ok (has_error is_stuck : bool) : bool
    which dropped paths are reported by an unconditional
    INTERNAL_ERROR warning                                           setup_reports (has_error is_stuck : bool) : bool
    and which success path is kept given the solver answer           setup_keeps (r : Z) : bool
  * which of setup / run_test / run_target_function turn a non-empty
    `logs.bounded_loops` into the LOOP_BOUND warning                setup_warns_loop_bound, test_warns_loop_bound,
                                                                    target_warns_loop_bound : bool
Solver answers: unsat = 0, sat = 1, unknown = 2, err = 3 (also: the solver call failed); 4 = interrupted by ShutdownError.  Fail-closed.
"""
import ast

from .pyexpr import TranslateError, Translator, find_function

NAME = "T-runtest"
SRC = "__main__.py"
OUT = "GenRunTest.v"

CLASS_NAMES = {"potential": 0, "stuck": 1, "normal": 2, "ignored": 3}


def _walk_no_nested_defs(node):
    yield node
    for ch in ast.iter_child_nodes(node):
        if isinstance(ch, (ast.FunctionDef, ast.ClassDef, ast.Lambda)):
            continue
        yield from _walk_no_nested_defs(ch)


class _Sub(ast.NodeTransformer):
    """replace whitelisted sub-expressions (by their source text) with names"""

    def __init__(self, table):
        self.table = table

    def visit(self, node):
        if isinstance(node, ast.expr):
            src = ast.unparse(node)
            if src in self.table:
                return ast.Name(id=self.table[src], ctx=ast.Load())
        return super().visit(node)


def _truthy(tr, node):
    """translate an expression used as an `if` test (python truthiness): and/or/not distribute"""
    if isinstance(node, ast.BoolOp):
        f = "andb" if isinstance(node.op, ast.And) else "orb"
        parts = [_truthy(tr, v) for v in node.values]
        text = parts[-1]
        for p in reversed(parts[:-1]):
            text = f"({f} {p} {text})"
        return text
    if isinstance(node, ast.UnaryOp) and isinstance(node.op, ast.Not):
        return f"(negb {_truthy(tr, node.operand)})"
    return tr.tr(node).as_bool()


def _exitcodes(tree):
    for n in tree.body:
        if isinstance(n, ast.ClassDef) and n.name == "Exitcode":
            out = {}
            for st in n.body:
                if isinstance(st, ast.Assign) and len(st.targets) == 1 and isinstance(st.targets[0], ast.Name) and isinstance(st.value, ast.Constant) and isinstance(st.value.value, int):
                    out[st.targets[0].id] = st.value.value
                else:
                    raise TranslateError(f"Exitcode: unexpected member {ast.unparse(st)[:60]}")
            return out
    raise TranslateError("class Exitcode not found")


def _assigned_exitcode(body, codes):
    found = None
    for st in body:
        for n in _walk_no_nested_defs(st):
            if isinstance(n, ast.Assign) and len(n.targets) == 1 and isinstance(n.targets[0], ast.Name) and n.targets[0].id == "exitcode":
                src = ast.unparse(n.value)
                if not (src.startswith("Exitcode.") and src.endswith(".value") and src[9:-6] in codes):
                    raise TranslateError(f"verdict chain: unexpected exitcode value {src}")
                if found is not None:
                    raise TranslateError("verdict chain: exitcode assigned twice in one arm")
                found = src[9:-6]
    if found is None:
        raise TranslateError("verdict chain: arm without exitcode assignment")
    return found


def _calls(node, dotted):
    return isinstance(node, ast.Call) and ast.unparse(node.func) == dotted


def _inline(node, defs, depth=0):
    """replace local temporaries (single-assignment names of the loop body) by their definitions"""
    class I(ast.NodeTransformer):
        def visit_Name(self, n):
            if isinstance(n.ctx, ast.Load) and n.id in defs and depth < 6:
                return _inline(ast.parse(defs[n.id], mode="eval").body, defs, depth + 1)
            return n
    return I().visit(node)


def _verdict(fn, codes, normal_name, stuck_name):
    # counter = Counter(str(m.result) for m in ctx.solver_outputs): the name is free
    counter = None
    for n in _walk_no_nested_defs(fn):
        if isinstance(n, ast.Assign) and len(n.targets) == 1 and isinstance(n.targets[0], ast.Name) and ast.unparse(n.value) == "Counter((str(m.result) for m in ctx.solver_outputs))":
            if counter is not None:
                raise TranslateError("verdict chain: two solver-answer counters")
            counter = n.targets[0].id
    if counter is None:
        raise TranslateError("verdict chain: `<c> = Counter(str(m.result) for m in ctx.solver_outputs)` not found")
    chain = None
    for st in fn.body:
        if isinstance(st, ast.If) and any(isinstance(n, ast.Subscript) and isinstance(n.value, ast.Name) and n.value.id == counter for n in ast.walk(st.test)):
            if chain is not None:
                raise TranslateError("verdict chain: found twice")
            chain = st
    if chain is None:
        raise TranslateError("verdict chain (if <counter>[...] ...) not found at the top level of run_test")
    table = {f"{counter}['sat']": "n_sat", f"{counter}['err']": "n_err", f"{counter}['unknown']": "n_unknown",
             f"len({stuck_name})": "n_stuck", normal_name: "normal"}
    tr = Translator(names={"n_sat": "n_sat", "n_err": "n_err", "n_unknown": "n_unknown", "n_stuck": "n_stuck", "normal": "normal"})

    def go(node):
        cond = _truthy(tr, _Sub(table).visit(node.test))
        then = "EX_" + _assigned_exitcode(node.body, codes)
        if len(node.orelse) == 1 and isinstance(node.orelse[0], ast.If):
            other = go(node.orelse[0])
        elif node.orelse:
            other = "EX_" + _assigned_exitcode(node.orelse, codes)
        else:
            raise TranslateError("verdict chain: no final else")
        return f"(if {cond} then {then} else {other})"

    return go(chain)


def _contains(body, pred):
    return any(pred(n) for st in body for n in _walk_no_nested_defs(st))


def _aug_names(body):
    return [n.target.id for st in body for n in _walk_no_nested_defs(st)
            if isinstance(n, ast.AugAssign) and isinstance(n.op, ast.Add) and isinstance(n.target, ast.Name) and ast.unparse(n.value) == "1"]


def _classification(fn):
    loop = None
    for n in _walk_no_nested_defs(fn):
        if isinstance(n, ast.For) and ast.unparse(n.iter) == "enumerate(exs)" and ast.unparse(n.target) == "(path_id, ex)":
            loop = n
    if loop is None:
        raise TranslateError("run_test: `for path_id, ex in enumerate(exs)` not found")
    defs = {}
    chain = None
    width = None
    for st in loop.body:
        if isinstance(st, ast.Assign) and len(st.targets) == 1 and isinstance(st.targets[0], ast.Name):
            if st.targets[0].id in defs:
                raise TranslateError(f"run_test: {st.targets[0].id} assigned twice in the loop body")
            defs[st.targets[0].id] = ast.unparse(st.value)
        if isinstance(st, ast.If) and _contains(st.body, lambda n: _calls(n, "handler.handle_assertion_violation")):
            chain = st
        if isinstance(st, ast.If) and "args.width" in ast.unparse(st.test):
            width = st
    if chain is None:
        raise TranslateError("run_test: classification chain (the if that calls handle_assertion_violation) not found")
    # roles of the observations, whatever the local temporaries are called
    table = {"ex.is_panic_of(args.panic_error_codes)": "panic_found", "is_global_fail_set(ex.context)": "fail_set",
             "ex.context.is_stuck()": "is_stuck", "ex.context.output.error": "has_error"}
    tr = Translator(bool_names={"panic_found", "fail_set", "is_stuck", "has_error"})
    # the argument handed to the counterexample handler must be the same observation
    for n in _walk_no_nested_defs(chain):
        if _calls(n, "handler.handle_assertion_violation"):
            kw = {k.arg: ast.unparse(_inline(k.value, defs)) for k in n.keywords}
            if kw.get("ex") != "ex" or kw.get("panic_found") != "ex.is_panic_of(args.panic_error_codes)":
                raise TranslateError(f"run_test: handle_assertion_violation called with {kw}")
    arms = []  # (cond, class)
    node = chain
    stuck_filter = None
    stuck_shutdown_breaks = stuck_failure_counts = False
    normal_name = stuck_name = None
    while True:
        cond = _truthy(tr, _Sub(table).visit(_inline(node.test, defs)))
        if _contains(node.body, lambda n: _calls(n, "handler.handle_assertion_violation")):
            arms.append((cond, "potential"))
        elif _contains(node.body, lambda n: _calls(n, "solve_low_level")):
            inner = [n for st in node.body for n in _walk_no_nested_defs(st)
                     if isinstance(n, ast.If) and _contains(n.body, lambda m: isinstance(m, ast.Call) and isinstance(m.func, ast.Attribute) and m.func.attr == "append")]
            if len(inner) != 1 or inner[0].orelse:
                raise TranslateError("run_test: stuck arm: expected one `if <solver answer>: <stuck>.append(...)`")
            apps = [m for st in inner[0].body for m in _walk_no_nested_defs(st) if isinstance(m, ast.Call) and isinstance(m.func, ast.Attribute) and m.func.attr == "append" and isinstance(m.func.value, ast.Name)]
            if len(apps) != 1:
                raise TranslateError("run_test: stuck arm: expected exactly one append")
            stuck_name = apps[0].func.value.id
            # where the solver answer comes from: `<v> = solve_low_level(...)` directly in the arm, or inside
            #   try: <v> = solve_low_level(...)
            #   except ShutdownError: ...; break                          (early exit: the path loop ends)
            #   except Exception [as e]: ...; <v> = SolverOutput.from_error(...)   (a failed solve is an `err` answer)
            is_solve = lambda st: (isinstance(st, ast.Assign) and len(st.targets) == 1 and isinstance(st.targets[0], ast.Name)  # noqa: E731
                                   and _calls(st.value, "solve_low_level"))
            direct = [st for st in node.body if is_solve(st)]
            tries = [st for st in node.body if isinstance(st, ast.Try)]
            if len(direct) == 1 and not tries:
                v = direct[0].targets[0].id
                stuck_shutdown_breaks, stuck_failure_counts = False, False
            elif not direct and len(tries) == 1:
                t = tries[0]
                if len(t.body) != 1 or not is_solve(t.body[0]) or t.orelse or t.finalbody:
                    raise TranslateError("run_test: stuck arm: the try must contain exactly `<v> = solve_low_level(...)`")
                v = t.body[0].targets[0].id
                stuck_shutdown_breaks, stuck_failure_counts = False, False
                for k, h in enumerate(t.handlers):
                    ty = ast.unparse(h.type) if h.type is not None else None
                    assigns_v = [m for m in ast.walk(h) if isinstance(m, ast.Assign) and any(isinstance(x, ast.Name) and x.id == v for x in m.targets)]
                    if ty == "ShutdownError" and k == 0:
                        if not isinstance(h.body[-1], ast.Break) or assigns_v or _contains(h.body[:-1], lambda n: isinstance(n, (ast.Break, ast.Continue, ast.Return, ast.Raise))):
                            raise TranslateError("run_test: stuck arm: `except ShutdownError` must end the path loop with a single final `break`")
                        stuck_shutdown_breaks = True
                    elif ty == "Exception" and k == len(t.handlers) - 1:
                        last = h.body[-1]
                        if not (isinstance(last, ast.Assign) and len(assigns_v) == 1 and assigns_v[0] is last and _calls(last.value, "SolverOutput.from_error")):
                            raise TranslateError("run_test: stuck arm: `except Exception` must end with `<v> = SolverOutput.from_error(...)`")
                        if _contains(h.body, lambda n: isinstance(n, (ast.Break, ast.Continue, ast.Return, ast.Raise))):
                            raise TranslateError("run_test: stuck arm: `except Exception` leaves the arm")
                        stuck_failure_counts = True
                    else:
                        raise TranslateError(f"run_test: stuck arm: unexpected handler `except {ty}` at position {k}")
            else:
                raise TranslateError("run_test: stuck arm: expected one `<v> = solve_low_level(...)` (directly or inside one try)")
            if node.body.index(inner[0]) < node.body.index((direct + tries)[0]):
                raise TranslateError("run_test: stuck arm: the filter precedes the solver call")
            test = inner[0].test
            t2 = Translator(names={"r": "r"}, consts={"unsat": 0, "sat": 1, "unknown": 2})
            sub = {f"{v}.result": "r"}
            if not any(isinstance(n, ast.Attribute) and ast.unparse(n) == f"{v}.result" for n in ast.walk(test)):
                raise TranslateError("run_test: stuck arm: the filter does not look at solve_low_level(...).result")
            stuck_filter = _truthy(t2, _Sub(sub).visit(test))
            arms.append((cond, "stuck"))
        else:
            names = _aug_names(node.body)
            if len(names) != 1:
                raise TranslateError(f"run_test: unrecognised classification arm {ast.unparse(node.test)}")
            normal_name = names[0]
            arms.append((cond, "normal"))
        if len(node.orelse) == 1 and isinstance(node.orelse[0], ast.If):
            node = node.orelse[0]
            continue
        if node.orelse:
            raise TranslateError("run_test: classification chain has a final else")
        break
    if stuck_filter is None or normal_name is None:
        raise TranslateError("run_test: stuck / normal arm not found")
    text = str(CLASS_NAMES["ignored"])
    for cond, cls in reversed(arms):
        text = f"(if {cond} then {CLASS_NAMES[cls]} else {text})"
    # width cut
    if width is None or width.orelse:
        raise TranslateError("run_test: --width cut not found")
    if not (_contains(width.body, lambda n: isinstance(n, ast.Break)) and _contains(width.body, lambda n: _calls(n, "warn"))):
        raise TranslateError("run_test: --width cut must warn and break")
    for n in _walk_no_nested_defs(width):
        if _calls(n, "warn") and (n.keywords or len(n.args) != 1):
            raise TranslateError("run_test: the --width warning must be a plain warn(<text>) (never de-duplicated)")
    if loop.body.index(width) < loop.body.index(chain):
        raise TranslateError("run_test: --width cut now precedes the classification of the path")
    tw = Translator(names={"width": "width", "path_id": "path_id"})
    wtext = _truthy(tw, _Sub({"args.width": "width"}).visit(width.test))
    return text, stuck_filter, wtext, normal_name, stuck_name, stuck_shutdown_breaks, stuck_failure_counts


def _is_nonempty_test(test, expr):
    """is `test` one of the usual spellings of `<expr> is non-empty`"""
    src = ast.unparse(test)
    return src in (expr, f"len({expr}) > 0", f"len({expr}) != 0", f"len({expr}) >= 1", f"0 < len({expr})", f"bool({expr})", f"{expr} != []", f"not not {expr}")


def _warns_loop_bound(fn, logs_expr):
    """is there `if <logs_expr>.bounded_loops [is non-empty]: warn_code(LOOP_BOUND, ...)` at the top level of fn
    (not nested in a loop / try / other condition)"""
    return any(_is_loop_bound_warning(st, logs_expr) for st in fn.body)


def _mentions(fn, word):
    return any(isinstance(n, ast.Attribute) and n.attr == word for n in ast.walk(fn))


def _is_loop_bound_warning(st, logs_expr):
    return (isinstance(st, ast.If) and _is_nonempty_test(st.test, f"{logs_expr}.bounded_loops") and not st.orelse
            and _contains(st.body, lambda n: isinstance(n, ast.Call) and ast.unparse(n.func) == "warn_code" and n.args
                          and ast.unparse(n.args[0]) == "LOOP_BOUND" and not _dedup_kw(n)))


def _dedup_kw(call):
    """does the logging call ask for de-duplication (allow_duplicate=<anything but True>)"""
    for k in call.keywords:
        if k.arg == "allow_duplicate" and not (isinstance(k.value, ast.Constant) and k.value.value is True):
            return True
    return len(call.args) > 2


def _target_warns_loop_bound(fn):
    """run_target_function explores one target transaction with a PRIVATE SEVM (`<s> = SEVM(...)`), inside
    a try/finally.  Its bounded-loop log reaches the user iff, in that try body, AFTER the statement
    `yield from <s>.run_message(...)` (the generator has been drained: every path of the transaction has
    been explored) and at the same nesting level (unconditionally), there is
    `if <s>.logs.bounded_loops: warn_code(LOOP_BOUND, ...)` (not de-duplicated).
    Any other mention of `bounded_loops` / `.logs` in the function is not understood: fail closed."""
    tries = [st for st in fn.body if isinstance(st, ast.Try)]
    if len(tries) != 1 or len(fn.body) != 1 + (1 if ast.get_docstring(fn) else 0):
        raise TranslateError("run_target_function: expected a single try/finally as the body")
    body = tries[0].body
    if tries[0].handlers or tries[0].orelse:
        raise TranslateError("run_target_function: the try has except/else clauses (a swallowed exception would skip the warning)")
    sevms = [st.targets[0].id for st in body if isinstance(st, ast.Assign) and len(st.targets) == 1 and isinstance(st.targets[0], ast.Name)
             and isinstance(st.value, ast.Call) and ast.unparse(st.value.func) == "SEVM"]
    if len(sevms) != 1:
        raise TranslateError(f"run_target_function: expected exactly one `<s> = SEVM(...)`, found {sevms}")
    s = sevms[0]
    runs = [i for i, st in enumerate(body) if isinstance(st, ast.Expr) and isinstance(st.value, ast.YieldFrom)
            and _calls(st.value.value, f"{s}.run_message")]
    if len(runs) != 1:
        raise TranslateError(f"run_target_function: expected exactly one top-level `yield from {s}.run_message(...)` in the try body")
    # no other way out of the try body between the run and the warning
    warns = [i for i, st in enumerate(body) if _is_loop_bound_warning(st, f"{s}.logs")]
    n_mentions = sum(1 for n in ast.walk(fn) if isinstance(n, ast.Attribute) and n.attr == "bounded_loops")
    if not warns:
        if n_mentions or _mentions(fn, "logs"):
            raise TranslateError("run_target_function: mentions logs / bounded_loops but not in the recognised `if <s>.logs.bounded_loops: warn_code(LOOP_BOUND, ...)` form")
        return False
    if len(warns) != 1:
        raise TranslateError("run_target_function: more than one LOOP_BOUND warning")
    w = warns[0]
    if w < runs[0]:
        raise TranslateError("run_target_function: the LOOP_BOUND warning precedes the exploration of the transaction (the log is still empty)")
    for st in body[runs[0] + 1:w]:
        if _contains([st], lambda n: isinstance(n, (ast.Return, ast.Raise, ast.Break, ast.Continue)) or (isinstance(n, ast.Assign) and any(ast.unparse(t).startswith(s) for t in n.targets))):
            raise TranslateError("run_target_function: control may leave (or the SEVM is replaced) between the exploration and the LOOP_BOUND warning")
    return True


def _strip_walrus(node):
    class W(ast.NodeTransformer):
        def visit_NamedExpr(self, n):
            return self.visit(n.value)
    return W().visit(node)


def _setup_selection(fn):
    """setup(): which explored paths of setUp count as successful, and which of several are kept.

        for path_id, setup_ex in enumerate(setup_exs_all):
            if <T1(setup_ex)>: ... [elif <T2(setup_ex)>: ...] else: setup_exs_no_error.append((setup_ex, <query>))
                                                                                      -> setup_path_ok, setup_reports
        match setup_exs_no_error:
            case []: pass
            case [(ex, _)]: setup_exs.append(ex)
            case _:
                for path_id, (ex, query) in enumerate(setup_exs_no_error):
                    solver_output = solve_low_level(path_ctx)
                    if <F(solver_output.result)>: setup_exs.append(ex); if len(setup_exs) > 1: break  -> setup_keeps
        match len(setup_exs): case 0: raise ...; case n if n > 1: raise ...
        [setup_ex] = setup_exs
    -> (setup_path_ok, setup_keeps : Z -> bool, setup_reports)  -- path_ok / reports : has_error is_stuck -> bool"""
    loops = [st for st in fn.body if isinstance(st, ast.For) and ast.unparse(st.iter) == "enumerate(setup_exs_all)"]
    if len(loops) != 1 or ast.unparse(loops[0].target) != "(path_id, setup_ex)" or loops[0].orelse:
        raise TranslateError("setup: `for path_id, setup_ex in enumerate(setup_exs_all)` not found (once, at the top level)")
    is_app = lambda n: isinstance(n, ast.Expr) and _calls(n.value, "setup_exs_no_error.append")  # noqa: E731
    apps = [n for n in ast.walk(fn) if isinstance(n, ast.Call) and ast.unparse(n.func) == "setup_exs_no_error.append"]
    if len(apps) != 1 or not ast.unparse(apps[0].args[0]).startswith("(setup_ex, setup_ex.path.to_smt2("):
        raise TranslateError("setup: expected exactly one `setup_exs_no_error.append((setup_ex, setup_ex.path.to_smt2(...)))`")
    def in_chain(st):
        """the arms of an if / elif / ... / else chain: [(test | None, body)]"""
        arms = []
        while True:
            arms.append((st.test, st.body))
            if len(st.orelse) == 1 and isinstance(st.orelse[0], ast.If):
                st = st.orelse[0]
                continue
            arms.append((None, st.orelse))
            return arms

    sel = [st for st in loops[0].body if isinstance(st, ast.If) and any(any(is_app(x) for x in body) for _, body in in_chain(st))]
    if len(sel) != 1:
        raise TranslateError("setup: the success-path test (the if / elif chain with setup_exs_no_error.append directly in one arm) must sit directly in the loop over the explored paths")
    for st in loops[0].body:
        if st is not sel[0] and _contains([st], lambda n: isinstance(n, (ast.Continue, ast.Break, ast.Return, ast.Raise))):
            raise TranslateError("setup: control may leave the loop over the explored paths before the success-path test")
    table = {"setup_ex.context.output.error": "has_error", "setup_ex.context.is_stuck()": "is_stuck"}
    tr = Translator(bool_names={"has_error", "is_stuck"})
    arms = in_chain(sel[0])
    for _, body in arms:
        if _contains(body, lambda n: isinstance(n, (ast.Continue, ast.Break, ast.Return, ast.Raise))):
            raise TranslateError("setup: an arm of the success-path test leaves the loop over the explored paths")
    tests = [None if t is None else _truthy(tr, _Sub(table).visit(_strip_walrus(t))) for t, _ in arms]

    def taken(k):
        """condition under which arm k is the one executed"""
        parts = [f"(negb {t})" for t in tests[:k]] + ([tests[k]] if tests[k] is not None else [])
        if not parts:
            return "true"
        text = parts[-1]
        for q in reversed(parts[:-1]):
            text = f"(andb {q} {text})"
        return text

    ok_arms = [k for k, (_, body) in enumerate(arms) if any(is_app(x) for x in body)]
    if len(ok_arms) != 1:
        raise TranslateError("setup: the success arm is not unique")
    path_ok = taken(ok_arms[0])
    # an arm REPORTS the path when its first statement (unconditionally) is warn_code(INTERNAL_ERROR, ...), not de-duplicated
    def reports(body):
        return bool(body) and isinstance(body[0], ast.Expr) and _calls(body[0].value, "warn_code") and body[0].value.args \
            and ast.unparse(body[0].value.args[0]) == "INTERNAL_ERROR" and not _dedup_kw(body[0].value)

    rep_text = "false"
    for k in reversed(range(len(arms))):
        if k != ok_arms[0] and reports(arms[k][1]):
            rep_text = f"(orb {taken(k)} {rep_text})"
    # the selection among several success paths
    matches = [st for st in fn.body if isinstance(st, ast.Match)]
    if len(matches) != 2 or ast.unparse(matches[0].subject) != "setup_exs_no_error" or ast.unparse(matches[1].subject) != "len(setup_exs)":
        raise TranslateError("setup: expected `match setup_exs_no_error` followed by `match len(setup_exs)`")
    pats = [ast.unparse(c.pattern) for c in matches[0].cases]
    if pats != ["[]", "[[ex, _]]", "_"] or any(c.guard is not None for c in matches[0].cases):
        raise TranslateError(f"setup: unexpected cases of `match setup_exs_no_error`: {pats}")
    if [ast.unparse(x) for x in matches[0].cases[0].body] != ["pass"] or [ast.unparse(x) for x in matches[0].cases[1].body] != ["setup_exs.append(ex)"]:
        raise TranslateError("setup: the [] / [(ex, _)] cases are not `pass` / `setup_exs.append(ex)`")
    many = matches[0].cases[2].body
    if len(many) != 1 or not isinstance(many[0], ast.For) or ast.unparse(many[0].iter) != "enumerate(setup_exs_no_error)" or ast.unparse(many[0].target) != "(path_id, (ex, query))":
        raise TranslateError("setup: the general case is not `for path_id, (ex, query) in enumerate(setup_exs_no_error)`")
    body = many[0].body
    srcs = [ast.unparse(x) for x in body]
    if len(body) != 3 or not srcs[0].startswith("path_ctx = PathContext(") or srcs[1] != "solver_output = solve_low_level(path_ctx)" or not isinstance(body[2], ast.If) or body[2].orelse:
        raise TranslateError("setup: unexpected body of the selection loop")
    if "query=query" not in srcs[0].replace(" ", ""):
        raise TranslateError("setup: the selection loop does not solve the path's own query")
    if [ast.unparse(x) for x in body[2].body] != ["setup_exs.append(ex)", "if len(setup_exs) > 1:\n    break"]:
        raise TranslateError("setup: the kept path is not appended as expected (append; stop after the second)")
    t2 = Translator(names={"r": "r"}, consts={"unsat": 0, "sat": 1, "unknown": 2})
    keeps = _truthy(t2, _Sub({"solver_output.result": "r"}).visit(body[2].test))
    arms = [(ast.unparse(c.pattern), ast.unparse(c.guard) if c.guard else None, [type(x).__name__ for x in c.body]) for c in matches[1].cases]
    if [(a, g) for a, g, _ in arms] != [("0", None), ("n", "n > 1")] or arms[0][2] != ["Raise"] or arms[1][2][-1] != "Raise":
        raise TranslateError(f"setup: unexpected `match len(setup_exs)`: {arms}")
    after = [ast.unparse(st) for st in fn.body[fn.body.index(matches[1]) + 1:]]
    if not after or after[0] != "[setup_ex] = setup_exs" or after[-1] != "return setup_ex":
        raise TranslateError("setup: the selected state is not `[setup_ex] = setup_exs ... return setup_ex`")
    return path_ok, keeps, rep_text


def translate(src_text):
    tree = ast.parse(src_text)
    codes = _exitcodes(tree)
    run_test = find_function(tree, "run_test")
    setup = find_function(tree, "setup")
    target = find_function(tree, "run_target_function")
    classify, stuck_filter, width, normal_name, stuck_name, stuck_shutdown_breaks, stuck_failure_counts = _classification(run_test)
    verdict = _verdict(run_test, codes, normal_name, stuck_name)
    logs_names = [st.targets[0].id for st in run_test.body if isinstance(st, ast.Assign) and len(st.targets) == 1 and isinstance(st.targets[0], ast.Name) and ast.unparse(st.value) == "sevm.logs"]
    test_warns = any(_warns_loop_bound(run_test, x) for x in logs_names + ["sevm.logs"])
    setup_warns = _warns_loop_bound(setup, "sevm.logs")
    target_warns = _target_warns_loop_bound(target)
    setup_path_ok, setup_keeps, setup_reports = _setup_selection(setup)
    info = {"exitcodes": codes, "stuck_failure_counts": stuck_failure_counts, "test_warns": test_warns, "setup_warns": setup_warns, "target_warns": target_warns}
    b = lambda x: "true" if x else "false"  # noqa: E731
    lines = [
        "(* GENERATED by translate/t_runtest.py from run_test / setup / run_target_function in src/halmos/__main__.py -- do not edit *)",
        "From Coq Require Import ZArith Bool.",
        "Open Scope Z_scope.",
        "",
        "Definition S_UNSAT : Z := 0.  Definition S_SAT : Z := 1.  Definition S_UNKNOWN : Z := 2.  Definition S_ERR : Z := 3.",
        "(* not an answer: the solver call was interrupted by ShutdownError (early exit) *)",
        "Definition S_SHUTDOWN : Z := 4.",
        "",
    ]
    for k, v in codes.items():
        lines.append(f"Definition EX_{k} : Z := {v}.")
    lines += [
        "",
        "Definition CL_POTENTIAL : Z := 0.  Definition CL_STUCK : Z := 1.  Definition CL_NORMAL : Z := 2.  Definition CL_IGNORED : Z := 3.",
        "",
        "Definition classify (panic_found fail_set is_stuck has_error : bool) : Z :=",
        f"  {classify}.",
        "",
        "Definition stuck_counts (r : Z) : bool :=",
        f"  {stuck_filter}.",
        "",
        "(* confirming a stuck path: a ShutdownError (early exit) ends the path loop; any other failure of the solver call",
        "   becomes an `err` answer (SolverOutput.from_error) instead of escaping run_test *)",
        f"Definition stuck_shutdown_breaks : bool := {b(stuck_shutdown_breaks)}.",
        f"Definition stuck_failure_counts : bool := {b(stuck_failure_counts)}.",
        "",
        "Definition width_cut (width path_id : Z) : bool :=",
        f"  {width}.",
        "",
        "Definition verdict (n_sat n_err n_unknown n_stuck normal : Z) : Z :=",
        f"  {verdict}.",
        "",
        "(* setup(): an explored path of setUp counts as successful; a success path is kept given the solver answer on its query *)",
        "Definition setup_path_ok (has_error is_stuck : bool) : bool :=",
        f"  {setup_path_ok}.",
        "",
        "(* the path is dropped with an unconditional INTERNAL_ERROR warning *)",
        "Definition setup_reports (has_error is_stuck : bool) : bool :=",
        f"  {setup_reports}.",
        "",
        "Definition setup_keeps (r : Z) : bool :=",
        f"  {setup_keeps}.",
        "",
        f"Definition setup_warns_loop_bound : bool := {b(setup_warns)}.",
        f"Definition test_warns_loop_bound : bool := {b(test_warns)}.",
        f"Definition target_warns_loop_bound : bool := {b(target_warns)}.",
        "",
    ]
    return "\n".join(lines), info


def selfcheck(info):
    from halmos.__main__ import Exitcode

    bad = []
    real = {e.name: e.value for e in Exitcode}
    if real != info["exitcodes"]:
        bad.append(f"Exitcode: translated {info['exitcodes']} but the module has {real}")
    if info.get("stuck_failure_counts"):
        from halmos.solve import SolverOutput

        r = SolverOutput.from_error(RuntimeError("x"), path_id=0, query_file="f").result
        if r != "err":
            bad.append(f"SolverOutput.from_error(...).result is {r!r}, translated as the `err` answer")
    return bad
