"""T-memwire: the offset/size wiring of the memory instructions in src/halmos/sevm.py -> coq/Gen/GenMemWire.v

For C07 (byte sequences behave as a flat zero-extended array).  ByteVec.slice / set_slice take
(start, stop); Contract.slice, Message.calldata_slice, State.mslice take (start, size).  This
translator regenerates, as Z-valued Gallina definitions, WHICH expression sevm.py hands to which
parameter, together with the guards around the calls:

  State.mslice / State.set_mslice / Message.calldata_slice      (the (start, size) wrappers)
  copy_returndata_to_memory                                     (min, partial slice or whole object)
  the OP_CALLDATACOPY / OP_CODECOPY / OP_EXTCODECOPY / OP_RETURNDATACOPY / OP_MCOPY branches of
  SEVM.run: operand pop order, `if size:` guard, arguments of the source slice, destination
  the OP_MSIZE rounding; OP_MSTORE / OP_MLOAD / OP_MSTORE8 / State.ret and the memory statements of
  SEVM.call are shape-checked only (they pass operands straight through).

Fail-closed: every statement of the translated bodies must have one of the whitelisted shapes; the
MAX_MEMORY_SIZE guards (`if <cmp>: raise OutOfGasError(...)`) are recognised and skipped.
Model/MemOpsModel.v is written against these definitions; Proofs/MemOpsProofs.v proves that they
are the wiring the flat-array semantics needs (a changed wiring breaks those lemmas).
"""
import ast

from .pyexpr import TranslateError, Translator, find_function, strip_docstring

NAME = "T-memwire"
SRC = "sevm.py"
OUT = "GenMemWire.v"


def _u(node):
    return ast.unparse(node)


def _fail(node, why):
    raise TranslateError(f"T-memwire: {why}: {_u(node)[:120]!r} at line {getattr(node, 'lineno', '?')}")


class _Subst(ast.NodeTransformer):
    """replace sub-expressions (by their source text) with names; int(x) -> x"""

    def __init__(self, table):
        self.table = table

    def generic_visit(self, node):
        if isinstance(node, ast.expr):
            s = _u(node)
            if s in self.table:
                return ast.copy_location(ast.Name(id=self.table[s], ctx=ast.Load()), node)
        return super().generic_visit(node)

    def visit_Call(self, node):
        s = _u(node)
        if s in self.table:
            return ast.copy_location(ast.Name(id=self.table[s], ctx=ast.Load()), node)
        if isinstance(node.func, ast.Name) and node.func.id == "int" and len(node.args) == 1 and not node.keywords:
            return self.visit(node.args[0])
        return super().generic_visit(node)


class Ctx:
    """params: python names that are inputs (Z); lets: local name -> Gallina text over the params"""

    def __init__(self, params, table=None):
        self.params = list(params)
        self.env = {p: p for p in params}
        self.table = dict(table or {})

    def z(self, node):
        node = _Subst(self.table).visit(ast.parse(_u(node), mode="eval").body)
        tr = Translator(names=self.env, funcs={"min": ("Z.min", "Z", ["Z", "Z"])})
        return tr.tr(node).as_Z()

    def b(self, node):
        node = _Subst(self.table).visit(ast.parse(_u(node), mode="eval").body)
        tr = Translator(names=self.env, funcs={"min": ("Z.min", "Z", ["Z", "Z"])})
        return tr.tr(node).as_bool()

    def bind(self, name, node):
        self.env[name] = self.z(node)


class Out:
    def __init__(self):
        self.defs = []   # (name, [params], type, text, comment)
        self.names = set()

    def add(self, name, params, ty, text, comment=""):
        if name in self.names:
            raise TranslateError(f"T-memwire: internal: duplicate definition {name}")
        self.names.add(name)
        self.defs.append((name, list(params), ty, text, comment))


def _is_oog_guard(st):
    """if <comparison>: raise OutOfGasError(...)"""
    return (isinstance(st, ast.If) and not st.orelse and len(st.body) == 1 and isinstance(st.body[0], ast.Raise)
            and isinstance(st.body[0].exc, ast.Call) and _u(st.body[0].exc.func) == "OutOfGasError"
            and isinstance(st.test, ast.Compare) and "MAX_MEMORY_SIZE" in _u(st.test))


def _assign(st):
    """(target name, value) of `x = e` / `x: T = e`"""
    if isinstance(st, ast.Assign) and len(st.targets) == 1 and isinstance(st.targets[0], ast.Name):
        return st.targets[0].id, st.value
    if isinstance(st, ast.AnnAssign) and isinstance(st.target, ast.Name) and st.value is not None:
        return st.target.id, st.value
    return None


def _call_args(call, names):
    """arguments of a call given positionally or by keyword, in the order of `names`"""
    if not isinstance(call, ast.Call):
        _fail(call, "call expected")
    got = {}
    if len(call.args) > len(names):
        _fail(call, "too many arguments")
    for n, a in zip(names, call.args):
        got[n] = a
    for kw in call.keywords:
        if kw.arg not in names or kw.arg in got:
            _fail(call, f"unexpected keyword {kw.arg}")
        got[kw.arg] = kw.value
    if set(got) != set(names):
        _fail(call, f"arguments {names} expected")
    return [got[n] for n in names]


def _is_not(node, name):
    return isinstance(node, ast.UnaryOp) and isinstance(node.op, ast.Not) and isinstance(node.operand, ast.Name) and node.operand.id == name


# ----------------------------------------------------------------- the (start, size) wrappers

def tr_mslice(tree, out):
    fn = find_function(tree, "mslice", cls="State")
    if [a.arg for a in fn.args.args] != ["self", "loc", "size"]:
        _fail(fn, "State.mslice: parameters")
    body = strip_docstring(fn.body)
    c = Ctx(["loc", "size"])
    st = body[0]
    if not (isinstance(st, ast.If) and not st.orelse and _is_not(st.test, "size") and len(st.body) == 1
            and isinstance(st.body[0], ast.Return) and _u(st.body[0].value) == "ByteVec()"):
        _fail(st, "State.mslice: `if not size: return ByteVec()` expected first")
    out.add("mslice_empty", ["size"], "bool", Ctx(["size"]).b(st.test), "State.mslice: `if not size: return ByteVec()`")
    rest = body[1:]
    ret = None
    for st in rest:
        a = _assign(st)
        if a is not None:
            c.bind(a[0], a[1])
        elif _is_oog_guard(st):
            continue
        elif isinstance(st, ast.Return) and st is rest[-1]:
            ret = st.value
        else:
            _fail(st, "State.mslice: unexpected statement")
    if ret is None or not (isinstance(ret, ast.Call) and _u(ret.func) == "self.memory.slice"):
        _fail(fn, "State.mslice: must end with `return self.memory.slice(...)`")
    a, b = _call_args(ret, ["start", "stop"])
    out.add("mslice_start", ["loc", "size"], "Z", c.z(a), "State.mslice: self.memory.slice(start=.., stop=..)")
    out.add("mslice_stop", ["loc", "size"], "Z", c.z(b))


def tr_set_mslice(tree, out):
    fn = find_function(tree, "set_mslice", cls="State")
    if [a.arg for a in fn.args.args] != ["self", "loc", "data"]:
        _fail(fn, "State.set_mslice: parameters")
    body = strip_docstring(fn.body)
    c = Ctx(["loc", "size"])
    a0 = _assign(body[0])
    if a0 is None or a0[0] != "size" or _u(a0[1]) != "len(data)":
        _fail(body[0], "State.set_mslice: `size = len(data)` expected first")
    st = body[1]
    if not (isinstance(st, ast.If) and not st.orelse and _is_not(st.test, "size") and len(st.body) == 1
            and isinstance(st.body[0], ast.Return) and st.body[0].value is None):
        _fail(st, "State.set_mslice: `if not size: return` expected")
    out.add("set_mslice_skip", ["size"], "bool", Ctx(["size"]).b(st.test), "State.set_mslice: size = len(data); `if not size: return`")
    last = None
    for st in body[2:]:
        a = _assign(st)
        if a is not None:
            c.bind(a[0], a[1])
        elif _is_oog_guard(st):
            continue
        elif isinstance(st, ast.Expr) and st is body[-1]:
            last = st.value
        else:
            _fail(st, "State.set_mslice: unexpected statement")
    if last is None or not (isinstance(last, ast.Call) and _u(last.func) == "self.memory.set_slice"):
        _fail(fn, "State.set_mslice: must end with `self.memory.set_slice(...)`")
    a, b, v = _call_args(last, ["start", "stop", "value"])
    if _u(v) != "data":
        _fail(last, "State.set_mslice: the value written must be `data`")
    out.add("set_mslice_start", ["loc", "size"], "Z", c.z(a), "State.set_mslice: self.memory.set_slice(start=.., stop=.., value=data)")
    out.add("set_mslice_stop", ["loc", "size"], "Z", c.z(b))


def tr_calldata_slice(tree, out):
    fn = find_function(tree, "calldata_slice", cls="Message")
    if [a.arg for a in fn.args.args] != ["self", "start", "size"]:
        _fail(fn, "Message.calldata_slice: parameters")
    body = strip_docstring(fn.body)
    c = Ctx(["start", "size"])
    ret = None
    for st in body:
        a = _assign(st)
        if a is not None:
            c.bind(a[0], a[1])
        elif _is_oog_guard(st):
            continue
        elif isinstance(st, ast.Return) and st is body[-1]:
            ret = st.value
        else:
            _fail(st, "Message.calldata_slice: unexpected statement")
    if ret is None or not (isinstance(ret, ast.Call) and _u(ret.func) == "self.data.slice"):
        _fail(fn, "Message.calldata_slice: must end with `return self.data.slice(...)`")
    a, b = _call_args(ret, ["start", "stop"])
    out.add("calldata_slice_start", ["start", "size"], "Z", c.z(a), "Message.calldata_slice: self.data.slice(start=.., stop=..)")
    out.add("calldata_slice_stop", ["start", "size"], "Z", c.z(b))


def tr_state_ret(tree):
    fn = find_function(tree, "ret", cls="State")
    body = [_u(s) for s in strip_docstring(fn.body)]
    want = ["loc: int = self.mloc(subst)", "size: int = int_of(self.popi(), 'symbolic return data size', subst)", "return self.mslice(loc, size)"]
    if body != want:
        raise TranslateError(f"T-memwire: State.ret: body differs from the modelled shape: {body}")


# ----------------------------------------------------------------- copy_returndata_to_memory

def tr_copy_returndata(tree, out):
    fn = find_function(tree, "copy_returndata_to_memory")
    if [a.arg for a in fn.args.args] != ["returndata", "ret_loc", "ret_size", "ex"]:
        _fail(fn, "copy_returndata_to_memory: parameters")
    body = strip_docstring(fn.body)
    if len(body) != 5:
        _fail(fn, "copy_returndata_to_memory: five statements expected")
    a0 = _assign(body[0])
    if a0 is None or a0[0] != "actual_ret_size" or _u(a0[1]) != "len(returndata)":
        _fail(body[0], "copy_returndata_to_memory: `actual_ret_size = len(returndata)` expected")
    a1 = _assign(body[1])
    if a1 is None or a1[0] != "effective_ret_size":
        _fail(body[1], "copy_returndata_to_memory: `effective_ret_size = ...` expected")
    out.add("retcopy_effective", ["ret_size", "actual_ret_size"], "Z", Ctx(["ret_size", "actual_ret_size"]).z(a1[1]),
            "copy_returndata_to_memory: effective_ret_size")
    st = body[2]
    if not (isinstance(st, ast.If) and not st.orelse and _is_not(st.test, "effective_ret_size") and len(st.body) == 1
            and isinstance(st.body[0], ast.Return) and st.body[0].value is None):
        _fail(st, "copy_returndata_to_memory: `if not effective_ret_size: return` expected")
    out.add("retcopy_skip", ["effective_ret_size"], "bool", Ctx(["effective_ret_size"]).b(st.test), "`if not effective_ret_size: return`")
    a3 = _assign(body[3])
    c = Ctx(["effective_ret_size", "actual_ret_size"])
    if a3 is None or a3[0] != "data" or not isinstance(a3[1], ast.IfExp):
        _fail(body[3], "copy_returndata_to_memory: `data = <slice> if <cond> else returndata` expected")
    ife = a3[1]
    if _u(ife.orelse) != "returndata":
        _fail(ife, "copy_returndata_to_memory: the else arm must be the returndata object itself")
    if not (isinstance(ife.body, ast.Call) and _u(ife.body.func) == "returndata.slice"):
        _fail(ife, "copy_returndata_to_memory: the then arm must be returndata.slice(..)")
    a, b = _call_args(ife.body, ["start", "stop"])
    out.add("retcopy_partial", c.params, "bool", c.b(ife.test), "data = returndata.slice(..) if <this> else returndata")
    out.add("retcopy_slice_start", c.params, "Z", c.z(a))
    out.add("retcopy_slice_stop", c.params, "Z", c.z(b))
    if _u(body[4]) != "ex.st.set_mslice(ret_loc, data)":
        _fail(body[4], "copy_returndata_to_memory: `ex.st.set_mslice(ret_loc, data)` expected last")


# ----------------------------------------------------------------- opcode branches of SEVM.run

def opcode_branches(tree):
    fn = find_function(tree, "run", cls="SEVM")
    found = {}
    for node in ast.walk(fn):
        if isinstance(node, ast.If) and isinstance(node.test, ast.Compare) and len(node.test.ops) == 1 and isinstance(node.test.ops[0], ast.Eq) \
                and isinstance(node.test.left, ast.Name) and node.test.left.id == "opcode" \
                and isinstance(node.test.comparators[0], ast.Name) and node.test.comparators[0].id.startswith("OP_"):
            name = node.test.comparators[0].id
            found.setdefault(name, []).append(node.body)
    return found


def the_branch(found, name):
    if len(found.get(name, [])) != 1:
        raise TranslateError(f"T-memwire: exactly one `opcode == {name}` branch expected in SEVM.run, found {len(found.get(name, []))}")
    return found[name][0]


POP_SHAPES = {
    # value expression (source text with the message string removed) -> kind
    "ex.mloc(check_size=False)": "mloc",
    "ex.mloc(check_size=True)": "mloc-checked",
    "state.popi()": "popi",
    "state.pop()": "pop",
}


def _pop_kind(value):
    s = _u(value)
    if s in POP_SHAPES:
        return POP_SHAPES[s]
    if isinstance(value, ast.Call) and _u(value.func) == "ex.int_of" and len(value.args) == 2 and _u(value.args[0]) == "state.pop()" \
            and isinstance(value.args[1], ast.Constant) and isinstance(value.args[1].value, str):
        return "int_of"
    return None


def _operands(body, names, what, kinds=None):
    """the first len(names) statements pop the operands, in this order"""
    if len(body) < len(names):
        raise TranslateError(f"T-memwire: {what}: too short")
    for i, n in enumerate(names):
        a = _assign(body[i])
        if a is None or a[0] != n:
            _fail(body[i], f"{what}: operand {i + 1} must be popped into `{n}` (EVM stack order {names})")
        k = _pop_kind(a[1])
        if k is None or (kinds is not None and k not in kinds[i]):
            _fail(body[i], f"{what}: `{n}` is not read from the stack in a modelled way")
    return body[len(names):]


def _size_guard(st, what, var="size"):
    if not (isinstance(st, ast.If) and not st.orelse and isinstance(st.test, ast.Name) and st.test.id == var):
        _fail(st, f"{what}: `if {var}:` expected")
    return st.body


def _set_mslice_call(st, what, data_name):
    if not (isinstance(st, ast.Expr) and isinstance(st.value, ast.Call) and _u(st.value.func) == "state.set_mslice"):
        _fail(st, f"{what}: `state.set_mslice(..)` expected")
    loc, data = _call_args(st.value, ["loc", "data"])
    if _u(data) != data_name:
        _fail(st, f"{what}: the data written must be `{data_name}`")
    return loc


def _emit_copy(out, pfx, params, c, do_test, a1, a2, dst, comment):
    out.add(f"{pfx}_do", [params[-1]], "bool", Ctx([params[-1]]).b(do_test), comment)
    out.add(f"{pfx}_a1", params, "Z", c.z(a1), "first / second argument of the source slice, destination of set_mslice")
    out.add(f"{pfx}_a2", params, "Z", c.z(a2))
    out.add(f"{pfx}_dst", params, "Z", c.z(dst))


def tr_calldatacopy(br, out):
    what = "OP_CALLDATACOPY"
    params = ["loc", "offset", "size"]
    rest = _operands(br, params, what, [("mloc",), ("int_of",), ("int_of",)])
    if len(rest) != 1:
        _fail(rest[0], f"{what}: a single `if size:` expected after the operands")
    inner = _size_guard(rest[0], what)
    if len(inner) != 3:
        _fail(rest[0], f"{what}: three statements expected under `if size:`")
    a = _assign(inner[0])
    if a is None or a[0] != "data" or not (isinstance(a[1], ast.Call) and _u(a[1].func) == "ex.message().calldata_slice"):
        _fail(inner[0], f"{what}: `data = ex.message().calldata_slice(..)` expected")
    a1, a2 = _call_args(a[1], ["start", "size"])
    if _u(inner[1]) != "data = data.concretize(ex.path.concretization.substitution)":
        _fail(inner[1], f"{what}: `data = data.concretize(...)` expected")
    dst = _set_mslice_call(inner[2], what, "data")
    _emit_copy(out, "calldatacopy", params, Ctx(params), rest[0].test, a1, a2, dst, "OP_CALLDATACOPY: `if size:` ; ex.message().calldata_slice(a1, a2) ; state.set_mslice(dst, data)")


def tr_codecopy(br, out):
    what = "OP_CODECOPY"
    params = ["loc", "offset", "size"]
    rest = _operands(br, params, what, [("mloc",), ("popi",), ("int_of",)])
    if len(rest) != 1:
        _fail(rest[0], f"{what}: a single `if size:` expected after the operands")
    inner = [s for s in _size_guard(rest[0], what)]
    if len(inner) != 2:
        _fail(rest[0], f"{what}: two statements expected under `if size:`")
    a = _assign(inner[0])
    if a is None or a[0] != "codeslice" or not isinstance(a[1], ast.IfExp) or _u(a[1].test) != "offset.is_concrete":
        _fail(inner[0], f"{what}: `codeslice = ex.pgm.slice(..) if offset.is_concrete else <symbolic slice>` expected")
    call = a[1].body
    if not (isinstance(call, ast.Call) and _u(call.func) == "ex.pgm.slice"):
        _fail(call, f"{what}: ex.pgm.slice(..) expected for a concrete offset")
    a1, a2 = _call_args(call, ["start", "size"])
    dst = _set_mslice_call(inner[1], what, "codeslice")
    _emit_copy(out, "codecopy", params, Ctx(params), rest[0].test, a1, a2, dst, "OP_CODECOPY (concrete offset): `if size:` ; ex.pgm.slice(a1, a2) ; state.set_mslice(dst, codeslice)")


def tr_extcodecopy(br, out):
    what = "OP_EXTCODECOPY"
    head = [_u(s) for s in br[:3]]
    if head != ["account: BV = uint160(state.peek())", "account_alias = self.resolve_address_alias(ex, account, stack)", "state.pop()"]:
        raise TranslateError(f"T-memwire: {what}: the account operand is not resolved in the modelled way: {head}")
    params = ["loc", "offset", "size"]
    rest = _operands(br[3:], params, what, [("int_of",), ("int_of",), ("int_of",)])
    if len(rest) != 1:
        _fail(rest[0], f"{what}: a single `if size:` expected after the operands")
    inner = list(_size_guard(rest[0], what))
    # optional warning for an unknown address
    if inner and isinstance(inner[0], ast.If) and _u(inner[0].test) == "account_alias is None" and not inner[0].orelse \
            and all(isinstance(s, ast.Expr) and isinstance(s.value, ast.Call) and _u(s.value.func) == "warn" for s in inner[0].body):
        inner = inner[1:]
    if len(inner) != 3:
        _fail(rest[0], f"{what}: `account_code = ..; codeslice = ..; state.set_mslice(..)` expected under `if size:`")
    a = _assign(inner[0])
    if a is None or a[0] != "account_code" or _u(a[1]) != "ex.code.get(account_alias)":
        _fail(inner[0], f"{what}: `account_code = ex.code.get(account_alias)` expected")
    b = _assign(inner[1])
    if b is None or b[0] != "codeslice" or not isinstance(b[1], ast.IfExp) or _u(b[1].test) != "account_code is not None":
        _fail(inner[1], f"{what}: `codeslice = account_code.slice(..) if account_code is not None else ByteVec().slice(..)` expected")
    call, alt = b[1].body, b[1].orelse
    if not (isinstance(call, ast.Call) and _u(call.func) == "account_code.slice"):
        _fail(call, f"{what}: account_code.slice(..) expected")
    if not (isinstance(alt, ast.Call) and _u(alt.func) == "ByteVec().slice"):
        _fail(alt, f"{what}: ByteVec().slice(..) expected for an account without code")
    a1, a2 = _call_args(call, ["start", "size"])
    n1, n2 = _call_args(alt, ["start", "stop"])
    dst = _set_mslice_call(inner[2], what, "codeslice")
    c = Ctx(params)
    _emit_copy(out, "extcodecopy", params, c, rest[0].test, a1, a2, dst, "OP_EXTCODECOPY: `if size:` ; account_code.slice(a1, a2) ; state.set_mslice(dst, codeslice)")
    out.add("extcodecopy_none_start", params, "Z", c.z(n1), "OP_EXTCODECOPY, account without code: ByteVec().slice(start, stop)")
    out.add("extcodecopy_none_stop", params, "Z", c.z(n2))


def tr_returndatacopy(br, out):
    what = "OP_RETURNDATACOPY"
    params = ["loc", "offset", "size"]
    rest = _operands(br, params, what, [("mloc",), ("int_of",), ("int_of",)])
    if len(rest) != 2:
        _fail(rest[0], f"{what}: the bounds check and `if size:` expected after the operands")
    g = rest[0]
    if not (isinstance(g, ast.If) and not g.orelse and len(g.body) == 1 and isinstance(g.body[0], ast.Raise)
            and isinstance(g.body[0].exc, ast.Call) and _u(g.body[0].exc.func) == "OutOfBoundsRead"):
        _fail(g, f"{what}: `if <out of bounds>: raise OutOfBoundsRead(..)` expected before the copy")
    c4 = Ctx(params + ["rdsize"], table={"ex.returndatasize()": "rdsize"})
    out.add("returndatacopy_oob", c4.params, "bool", c4.b(g.test), "OP_RETURNDATACOPY: raise OutOfBoundsRead when this holds (rdsize = ex.returndatasize())")
    inner = _size_guard(rest[1], what)
    if len(inner) != 2:
        _fail(rest[1], f"{what}: two statements expected under `if size:`")
    a = _assign(inner[0])
    if a is None or a[0] != "data" or not (isinstance(a[1], ast.Call) and _u(a[1].func) == "ex.returndata().slice"):
        _fail(inner[0], f"{what}: `data = ex.returndata().slice(..)` expected")
    a1, a2 = _call_args(a[1], ["start", "stop"])
    dst = _set_mslice_call(inner[1], what, "data")
    _emit_copy(out, "returndatacopy", params, Ctx(params), rest[1].test, a1, a2, dst, "OP_RETURNDATACOPY: `if size:` ; ex.returndata().slice(a1, a2) ; state.set_mslice(dst, data)")


def tr_mcopy(br, out):
    what = "OP_MCOPY"
    params = ["dst_offset", "src_offset", "size"]
    rest = _operands(br, params, what, [("int_of",), ("int_of",), ("int_of",)])
    if len(rest) != 1:
        _fail(rest[0], f"{what}: a single `if size:` expected after the operands")
    inner = _size_guard(rest[0], what)
    if len(inner) != 2:
        _fail(rest[0], f"{what}: two statements expected under `if size:`")
    a = _assign(inner[0])
    if a is None or a[0] != "data" or not (isinstance(a[1], ast.Call) and _u(a[1].func) == "state.mslice"):
        _fail(inner[0], f"{what}: `data = state.mslice(..)` expected")
    a1, a2 = _call_args(a[1], ["loc", "size"])
    dst = _set_mslice_call(inner[1], what, "data")
    _emit_copy(out, "mcopy", params, Ctx(params), rest[0].test, a1, a2, dst, "OP_MCOPY: `if size:` ; state.mslice(a1, a2) ; state.set_mslice(dst, data)")


def tr_msize(br, out):
    body = list(br)
    if len(body) != 3:
        raise TranslateError("T-memwire: OP_MSIZE: three statements expected")
    a = _assign(body[0])
    if a is None or a[0] != "size" or _u(a[1]) != "len(state.memory)":
        _fail(body[0], "OP_MSIZE: `size = len(state.memory)` expected")
    b = _assign(body[1])
    if b is None or b[0] != "size":
        _fail(body[1], "OP_MSIZE: `size = <rounding>` expected")
    if _u(body[2]) != "state.push_any(size)":
        _fail(body[2], "OP_MSIZE: `state.push_any(size)` expected")
    out.add("msize_round", ["size"], "Z", Ctx(["size"]).z(b[1]), "OP_MSIZE: size = len(state.memory) rounded")


PLAIN = {
    "OP_MSTORE": ["loc: int = ex.mloc(check_size=True)", "val: BV = state.popi()", "state.memory.set_word(loc, val)"],
    "OP_MLOAD": ["loc: int = ex.mloc(check_size=True)", "state.push_any(state.memory.get_word(loc))"],
    "OP_MSTORE8": ["loc: int = ex.mloc(check_size=True)", "val: Word = state.pop()", "state.memory.set_byte(loc, uint8(val))"],
}

# statements of SEVM.call that carry the memory side of a message call, in this order
CALL_ANCHORS = [
    "arg_loc: int = ex.mloc(check_size=False)",
    "arg_size: int = ex.int_of(ex.st.pop(), 'symbolic CALL input data size')",
    "ret_loc: int = ex.mloc(check_size=False)",
    "ret_size: int = ex.int_of(ex.st.pop(), 'symbolic CALL return data size')",
    "arg = ex.st.mslice(arg_loc, arg_size)",
    "new_ex.st = deepcopy(ex.st)",
    "returndata = subcall.output.data",
    "copy_returndata_to_memory(returndata, ret_loc, ret_size, new_ex)",
]


def tr_call_anchors(tree):
    fn = find_function(tree, "call", cls="SEVM")
    seq = []
    for node in ast.walk(fn):
        if isinstance(node, ast.stmt) and not isinstance(node, (ast.FunctionDef, ast.If, ast.For, ast.While, ast.Try, ast.With)):
            seq.append((node.lineno, _u(node)))
    seq.sort()
    texts = [t for _, t in seq]
    pos = -1
    for a in CALL_ANCHORS:
        try:
            i = texts.index(a, pos + 1)
        except ValueError:
            raise TranslateError(f"T-memwire: SEVM.call: statement `{a}` not found (in the modelled order)") from None
        pos = i
    # the callee's data keyword
    if "data=arg" not in "".join(texts):
        raise TranslateError("T-memwire: SEVM.call: the callee's Message is not built with data=arg")


def translate(src_text):
    tree = ast.parse(src_text)
    out = Out()
    tr_mslice(tree, out)
    tr_set_mslice(tree, out)
    tr_calldata_slice(tree, out)
    tr_state_ret(tree)
    tr_copy_returndata(tree, out)
    br = opcode_branches(tree)
    tr_calldatacopy(the_branch(br, "OP_CALLDATACOPY"), out)
    tr_codecopy(the_branch(br, "OP_CODECOPY"), out)
    tr_extcodecopy(the_branch(br, "OP_EXTCODECOPY"), out)
    tr_returndatacopy(the_branch(br, "OP_RETURNDATACOPY"), out)
    tr_mcopy(the_branch(br, "OP_MCOPY"), out)
    tr_msize(the_branch(br, "OP_MSIZE"), out)
    for name, want in PLAIN.items():
        got = [_u(s) for s in the_branch(br, name)]
        if got != want:
            raise TranslateError(f"T-memwire: {name}: body differs from the modelled shape: {got}")
    tr_call_anchors(tree)
    lines = [
        "(* GENERATED by translate/t_memwire.py from src/halmos/sevm.py -- do not edit *)",
        "From Coq Require Import ZArith Bool.",
        "Local Open Scope Z_scope.",
        "",
    ]
    for name, params, ty, text, comment in out.defs:
        if comment:
            lines.append(f"(* {comment} *)")
        ps = " ".join(params)
        lines.append(f"Definition {name} ({ps} : Z) : {ty} := {text}.")
    lines.append("")
    return "\n".join(lines), {"defs": [(n, p, t, x) for n, p, t, x, _ in out.defs]}


def selfcheck(info):
    """the generated expressions, evaluated in Python, against the imported functions on a small grid"""
    bad = []
    try:
        from halmos.bytevec import ByteVec
        from halmos.sevm import State

        for loc in (0, 1, 5, 40):
            for size in (0, 1, 3, 33):
                mem = ByteVec(bytes(range(1, 21)))
                got = State(stack=[], memory=mem).mslice(loc, size).unwrap()
                want = bytes((mem.get_byte(i) if i < 20 else 0) for i in range(loc, loc + size))
                if (got if isinstance(got, bytes) else None) != want:
                    bad.append(f"State.mslice({loc}, {size}) on 20 bytes returned {got!r}")
    except Exception as e:  # noqa: BLE001
        bad.append(f"selfcheck could not run: {type(e).__name__}: {e}")
    return bad
