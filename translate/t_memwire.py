"""T-memwire: the offset/size wiring of the memory instructions in src/halmos/sevm.py -> coq/Gen/GenMemWire.v

For C07 (byte sequences behave as a flat zero-extended array).  ByteVec.slice / set_slice take
(start, stop); Contract.slice, Message.calldata_slice, State.mslice take (start, size).  This
translator regenerates, as Z-valued Gallina definitions, WHICH expression sevm.py hands to which
parameter, together with the guards around the calls:

  State.mslice / State.set_mslice / Message.calldata_slice      (the (start, size) wrappers)
  copy_returndata_to_memory                                     (min, partial slice or whole object)
  the OP_CALLDATACOPY / OP_CODECOPY / OP_EXTCODECOPY / OP_RETURNDATACOPY / OP_MCOPY branches of
  SEVM.run: operand pop order, the guard of the copy, arguments of the source slice, destination
  the OP_MSIZE rounding; OP_MSTORE / OP_MLOAD / OP_MSTORE8 / State.ret and the memory statements of
  SEVM.call are shape-checked only (they pass operands straight through).

Local variable names are free (a generated definition takes the Python names of the operands as
parameter names), bookkeeping assignments and the MAX_MEMORY_SIZE guards
(`if <cmp>: raise OutOfGasError(...)`) may come in any order, guards may be any translatable
boolean expression over the operands.  Fail-closed otherwise: every statement of the translated
bodies must have one of the whitelisted shapes.
Model/MemOpsModel.v is written against these definitions; Proofs/MemOpsProofs.v proves that they
meet what the flat-array semantics needs (skip only when nothing is to be copied, start = offset,
stop = offset + size, out-of-bounds test of RETURNDATACOPY, ...): a changed wiring breaks those lemmas.
"""
import ast

from .pyexpr import TranslateError, Translator, find_function, strip_docstring

NAME = "T-memwire"
SRC = "sevm.py"
OUT = "GenMemWire.v"

FUNCS = {"min": ("Z.min", "Z", ["Z", "Z"]), "max": ("Z.max", "Z", ["Z", "Z"])}


def _u(node):
    return ast.unparse(node)


def _fail(node, why):
    raise TranslateError(f"T-memwire: {why}: {_u(node)[:120]!r} at line {getattr(node, 'lineno', '?')}")


class _Subst(ast.NodeTransformer):
    """replace sub-expressions (by their source text) with names; int(x) -> x"""

    def __init__(self, table):
        self.table = table

    def generic_visit(self, node):
        if isinstance(node, ast.expr):
            s = _u(node)
            if s in self.table:
                return ast.copy_location(ast.Name(id=self.table[s], ctx=ast.Load()), node)
        return super().generic_visit(node)

    def visit_Call(self, node):
        s = _u(node)
        if s in self.table:
            return ast.copy_location(ast.Name(id=self.table[s], ctx=ast.Load()), node)
        if isinstance(node.func, ast.Name) and node.func.id == "int" and len(node.args) == 1 and not node.keywords:
            return self.visit(node.args[0])
        return super().generic_visit(node)


class Ctx:
    """params: Gallina parameters (Z); env: python name -> Gallina text over the params;
    table: python sub-expression (source text) -> python name standing for it"""

    def __init__(self, params, table=None):
        self.params = list(params)
        self.env = {p: p for p in params}
        self.table = dict(table or {})

    def _tr(self, node):
        node = _Subst(self.table).visit(ast.parse(_u(node), mode="eval").body)
        return Translator(names=self.env, funcs=FUNCS).tr(node)

    def z(self, node):
        return self._tr(node).as_Z()

    def b(self, node):
        return self._tr(node).as_bool()

    def bind(self, name, node):
        self.env[name] = self.z(node)


class Out:
    def __init__(self):
        self.defs = []   # (name, [params], type, text, comment)
        self.names = set()

    def add(self, name, params, ty, text, comment=""):
        if name in self.names:
            raise TranslateError(f"T-memwire: internal: duplicate definition {name}")
        if len(set(params)) != len(params):
            raise TranslateError(f"T-memwire: {name}: parameter names are not distinct: {params}")
        self.names.add(name)
        self.defs.append((name, list(params), ty, text, comment))


def _is_oog_guard(st):
    """if <comparison>: raise OutOfGasError(...)"""
    return (isinstance(st, ast.If) and not st.orelse and len(st.body) == 1 and isinstance(st.body[0], ast.Raise)
            and isinstance(st.body[0].exc, ast.Call) and _u(st.body[0].exc.func) == "OutOfGasError"
            and "MAX_MEMORY_SIZE" in _u(st.test))


def _assign(st):
    """(target name, value) of `x = e` / `x: T = e`"""
    if isinstance(st, ast.Assign) and len(st.targets) == 1 and isinstance(st.targets[0], ast.Name):
        return st.targets[0].id, st.value
    if isinstance(st, ast.AnnAssign) and isinstance(st.target, ast.Name) and st.value is not None:
        return st.target.id, st.value
    return None


def _call_args(call, names):
    """arguments of a call given positionally or by keyword, in the order of `names`"""
    if not isinstance(call, ast.Call):
        _fail(call, "call expected")
    got = {}
    if len(call.args) > len(names):
        _fail(call, "too many arguments")
    for n, a in zip(names, call.args):
        got[n] = a
    for kw in call.keywords:
        if kw.arg not in names or kw.arg in got:
            _fail(call, f"unexpected keyword {kw.arg}")
        got[kw.arg] = kw.value
    if set(got) != set(names):
        _fail(call, f"arguments {names} expected")
    return [got[n] for n in names]


def _params(fn, n, what):
    ps = [a.arg for a in fn.args.args]
    if len(ps) != n + 1 or ps[0] != "self" or fn.args.vararg or fn.args.kwarg or fn.args.kwonlyargs:
        _fail(fn, f"{what}: (self, {n} parameters) expected")
    return ps[1:]


def _is_early_return(st, value_text):
    """if <test>: return [<value_text>]"""
    if not (isinstance(st, ast.If) and not st.orelse and len(st.body) == 1 and isinstance(st.body[0], ast.Return)):
        return False
    v = st.body[0].value
    return (v is None and value_text is None) or (v is not None and value_text is not None and _u(v) == value_text)


# ----------------------------------------------------------------- the (start, size) wrappers

def tr_wrapper(out, fn, what, pfx, c, early_value, early_name, final_func, final_names, final_is_return, extra_check=None, len_of=None):
    """bookkeeping assignments / OutOfGas guards / at most one early return in any order, then the final call"""
    body = strip_docstring(fn.body)
    if not body:
        _fail(fn, f"{what}: empty body")
    early = None
    for st in body[:-1]:
        a = _assign(st)
        if a is not None:
            if len_of is not None and _u(a[1]) == f"len({len_of[0]})":
                c.env[a[0]] = len_of[1]
            else:
                c.bind(a[0], a[1])
        elif _is_oog_guard(st):
            continue
        elif early_name is not None and early is None and _is_early_return(st, early_value):
            early = c.b(st.test)
        else:
            _fail(st, f"{what}: unexpected statement")
    last = body[-1]
    call = last.value if isinstance(last, ast.Return if final_is_return else ast.Expr) else None
    if not (isinstance(call, ast.Call) and _u(call.func) == final_func):
        _fail(last, f"{what}: must end with `{'return ' if final_is_return else ''}{final_func}(...)`")
    args = _call_args(call, final_names)
    if early_name is not None:
        out.add(early_name, c.params, "bool", early if early is not None else "false",
                f"{what}: the early `return{' ' + early_value if early_value else ''}` is taken when this holds")
    out.add(f"{pfx}_start", c.params, "Z", c.z(args[0]), f"{what}: {final_func}(start=.., stop=..)")
    out.add(f"{pfx}_stop", c.params, "Z", c.z(args[1]))
    if extra_check is not None:
        extra_check(args, call)


def tr_mslice(tree, out):
    fn = find_function(tree, "mslice", cls="State")
    ps = _params(fn, 2, "State.mslice")
    tr_wrapper(out, fn, "State.mslice", "mslice", Ctx(ps), "ByteVec()", "mslice_empty", "self.memory.slice", ["start", "stop"], True)


def tr_set_mslice(tree, out):
    fn = find_function(tree, "set_mslice", cls="State")
    ps = _params(fn, 2, "State.set_mslice")
    loc, data = ps
    if "size" == loc:
        _fail(fn, "State.set_mslice: parameter name clash")

    def check(args, call):
        if _u(args[2]) != data:
            _fail(call, f"State.set_mslice: the value written must be the `{data}` parameter")

    tr_wrapper(out, fn, "State.set_mslice", "set_mslice", Ctx([loc, "size"]), None, "set_mslice_skip", "self.memory.set_slice",
               ["start", "stop", "value"], False, extra_check=check, len_of=(data, "size"))


def tr_calldata_slice(tree, out):
    """the source is `self.data`, or -- in a creation frame, whose message data is the init code -- an empty ByteVec:
         <d> = ByteVec() if self.is_create() else self.data ; return <d>.slice(start=.., stop=..)"""
    what = "Message.calldata_slice"
    fn = find_function(tree, "calldata_slice", cls="Message")
    ps = _params(fn, 2, what)
    ic = find_function(tree, "is_create", cls="Message")
    if [_u(st) for st in strip_docstring(ic.body)] != ["return self.call_scheme in (OP_CREATE, OP_CREATE2)"]:
        _fail(ic, "Message.is_create: body differs from the modelled shape")
    body = strip_docstring(fn.body)
    src, kept = None, []
    for st in body:
        a = _assign(st)
        if a is not None and isinstance(a[1], ast.IfExp) and _u(a[1].test) == "self.is_create()":
            if src is not None or _u(a[1].body) != "ByteVec()" or _u(a[1].orelse) != "self.data":
                _fail(st, f"{what}: `<d> = ByteVec() if self.is_create() else self.data` expected")
            src = a[0]
        else:
            kept.append(st)
    fn2 = ast.FunctionDef(name=fn.name, args=fn.args, body=kept, decorator_list=[], lineno=fn.lineno)
    tr_wrapper(out, fn2, what, "calldata_slice", Ctx(ps), None, None, f"{src}.slice" if src else "self.data.slice", ["start", "stop"], True)
    out.add("calldata_empty_in_create", [ps[0]], "bool", "true" if src else "false",
            f"{what}: a creation frame (message data = init code) reads an empty sequence")


class _Canon(ast.NodeTransformer):
    def __init__(self, ren):
        self.ren = ren

    def visit_Name(self, node):
        return ast.copy_location(ast.Name(id=self.ren.get(node.id, node.id), ctx=node.ctx), node)


def canon(stmts):
    """statements with the assigned local names renamed v0, v1, .. and annotations dropped"""
    ren = {}
    for st in stmts:
        a = _assign(st)
        if a is not None and a[0] not in ren:
            ren[a[0]] = f"v{len(ren)}"
    out = []
    for st in stmts:
        a = _assign(st)
        text = f"{a[0]} = {_u(a[1])}" if a is not None else _u(st)
        out.append(_u(_Canon(ren).visit(ast.parse(text).body[0])))
    return out


def tr_state_ret(tree):
    fn = find_function(tree, "ret", cls="State")
    body = canon(strip_docstring(fn.body))
    want = ["v0 = self.mloc(subst)", "v1 = int_of(self.popi(), 'symbolic return data size', subst)", "return self.mslice(v0, v1)"]
    if body != want:
        raise TranslateError(f"T-memwire: State.ret: body differs from the modelled shape: {body}")


# ----------------------------------------------------------------- copy_returndata_to_memory

def tr_copy_returndata(tree, out):
    what = "copy_returndata_to_memory"
    fn = find_function(tree, what)
    ps = [a.arg for a in fn.args.args]
    if len(ps) != 4:
        _fail(fn, f"{what}: four parameters expected")
    rd, ret_loc, ret_size, exn = ps
    body = strip_docstring(fn.body)
    c = Ctx([ret_size, "actual_size"])
    skip = None
    data_name = None
    partial = None
    for st in body[:-1]:
        a = _assign(st)
        if a is not None and _u(a[1]) == f"len({rd})":
            c.env[a[0]] = "actual_size"
        elif a is not None and isinstance(a[1], ast.IfExp) and data_name is None:
            ife = a[1]
            if _u(ife.orelse) != rd:
                _fail(ife, f"{what}: the else arm must be the returndata object itself")
            if not (isinstance(ife.body, ast.Call) and _u(ife.body.func) == f"{rd}.slice"):
                _fail(ife, f"{what}: the then arm must be {rd}.slice(..)")
            s0, s1 = _call_args(ife.body, ["start", "stop"])
            partial = (c.b(ife.test), c.z(s0), c.z(s1))
            data_name = a[0]
        elif a is not None:
            c.bind(a[0], a[1])
        elif skip is None and _is_early_return(st, None):
            skip = c.b(st.test)
        else:
            _fail(st, f"{what}: unexpected statement")
    if partial is None:
        _fail(fn, f"{what}: `data = {rd}.slice(..) if <cond> else {rd}` not found")
    if _u(body[-1]) != f"{exn}.st.set_mslice({ret_loc}, {data_name})":
        _fail(body[-1], f"{what}: `{exn}.st.set_mslice({ret_loc}, {data_name})` expected last")
    out.add("retcopy_skip", c.params, "bool", skip if skip is not None else "false",
            f"{what}(returndata, ret_loc, {ret_size}, ex), actual_size = len(returndata): nothing is written when this holds")
    out.add("retcopy_partial", c.params, "bool", partial[0], "data = returndata.slice(start, stop) if <this> else returndata")
    out.add("retcopy_slice_start", c.params, "Z", partial[1])
    out.add("retcopy_slice_stop", c.params, "Z", partial[2])


# ----------------------------------------------------------------- opcode branches of SEVM.run

def opcode_branches(tree):
    fn = find_function(tree, "run", cls="SEVM")
    found = {}
    for node in ast.walk(fn):
        if isinstance(node, ast.If) and isinstance(node.test, ast.Compare) and len(node.test.ops) == 1 and isinstance(node.test.ops[0], ast.Eq) \
                and isinstance(node.test.left, ast.Name) and node.test.left.id == "opcode" \
                and isinstance(node.test.comparators[0], ast.Name) and node.test.comparators[0].id.startswith("OP_"):
            name = node.test.comparators[0].id
            found.setdefault(name, []).append(node.body)
    return found


def the_branch(found, name):
    if len(found.get(name, [])) != 1:
        raise TranslateError(f"T-memwire: exactly one `opcode == {name}` branch expected in SEVM.run, found {len(found.get(name, []))}")
    return found[name][0]


def _pop_kind(value):
    s = _u(value)
    if s in ("ex.mloc(check_size=False)", "ex.mloc(check_size=True)", "state.popi()", "state.pop()"):
        return s
    if isinstance(value, ast.Call) and _u(value.func) == "ex.int_of" and len(value.args) == 2 and _u(value.args[0]) == "state.pop()" \
            and isinstance(value.args[1], ast.Constant) and isinstance(value.args[1].value, str):
        return "int_of"
    return None


def _operands(body, n, what):
    """the first n statements pop the operands off the stack (top first: that is the EVM operand order);
    -> (their python names, rest of the body)"""
    if len(body) < n:
        raise TranslateError(f"T-memwire: {what}: too short")
    names = []
    for i in range(n):
        a = _assign(body[i])
        if a is None or _pop_kind(a[1]) is None:
            _fail(body[i], f"{what}: operand {i + 1} is not read from the stack in a modelled way")
        names.append(a[0])
    if len(set(names)) != n:
        raise TranslateError(f"T-memwire: {what}: operand names are not distinct: {names}")
    return names, body[n:]


def _copy_body(inner, what, allow_concretize=False):
    """X = <source call>(..) ; [X = X.concretize(..)] ; state.set_mslice(D, X)   ->  (source expression, D)"""
    if len(inner) < 2:
        raise TranslateError(f"T-memwire: {what}: the copy needs a source slice and a set_mslice")
    a = _assign(inner[0])
    if a is None:
        _fail(inner[0], f"{what}: `<data> = <source slice>` expected")
    x, val = a
    rest = inner[1:]
    if allow_concretize and len(rest) == 2 and _u(rest[0]) == f"{x} = {x}.concretize(ex.path.concretization.substitution)":
        rest = rest[1:]
    if len(rest) != 1:
        _fail(rest[0], f"{what}: unexpected statement between the source slice and set_mslice")
    st = rest[0]
    if not (isinstance(st, ast.Expr) and isinstance(st.value, ast.Call) and _u(st.value.func) == "state.set_mslice"):
        _fail(st, f"{what}: `state.set_mslice(..)` expected")
    dst, data = _call_args(st.value, ["loc", "data"])
    if _u(data) != x:
        _fail(st, f"{what}: the data written must be `{x}`")
    return val, dst


def _guarded(st, what):
    if not (isinstance(st, ast.If) and not st.orelse):
        _fail(st, f"{what}: `if <something to copy>:` expected")
    return st.test, list(st.body)


def _emit_copy(out, pfx, c, test, a1, a2, dst, comment):
    out.add(f"{pfx}_do", c.params, "bool", c.b(test), comment)
    out.add(f"{pfx}_a1", c.params, "Z", c.z(a1), "first / second argument of the source slice, destination of set_mslice")
    out.add(f"{pfx}_a2", c.params, "Z", c.z(a2))
    out.add(f"{pfx}_dst", c.params, "Z", c.z(dst))


def _src_call(val, what, func, names):
    if not (isinstance(val, ast.Call) and _u(val.func) == func):
        _fail(val, f"{what}: the source must be {func}(..)")
    return _call_args(val, names)


def tr_calldatacopy(br, out):
    what = "OP_CALLDATACOPY"
    params, rest = _operands(br, 3, what)
    if len(rest) != 1:
        _fail(rest[0], f"{what}: a single guarded copy expected after the operands")
    test, inner = _guarded(rest[0], what)
    val, dst = _copy_body(inner, what, allow_concretize=True)
    a1, a2 = _src_call(val, what, "ex.message().calldata_slice", ["start", "size"])
    _emit_copy(out, "calldatacopy", Ctx(params), test, a1, a2, dst, f"{what}: operands {params}; `if <do>:` ex.message().calldata_slice(a1, a2) ; state.set_mslice(dst, data)")


def tr_codecopy(br, out):
    what = "OP_CODECOPY"
    params, rest = _operands(br, 3, what)
    if len(rest) != 1:
        _fail(rest[0], f"{what}: a single guarded copy expected after the operands")
    test, inner = _guarded(rest[0], what)
    val, dst = _copy_body(inner, what)
    if not (isinstance(val, ast.IfExp) and _u(val.test) == f"{params[1]}.is_concrete"):
        _fail(val, f"{what}: `ex.pgm.slice(..) if {params[1]}.is_concrete else <symbolic slice>` expected")
    a1, a2 = _src_call(val.body, what, "ex.pgm.slice", ["start", "size"])
    _emit_copy(out, "codecopy", Ctx(params), test, a1, a2, dst, f"{what} (concrete offset): operands {params}; `if <do>:` ex.pgm.slice(a1, a2) ; state.set_mslice(dst, codeslice)")


def tr_extcodecopy(br, out):
    what = "OP_EXTCODECOPY"
    head = canon(br[:3])
    if head != ["v0 = uint160(state.peek())", "v1 = self.resolve_address_alias(ex, v0, stack)", "state.pop()"]:
        raise TranslateError(f"T-memwire: {what}: the account operand is not resolved in the modelled way: {head}")
    alias = _assign(br[1])[0]
    params, rest = _operands(br[3:], 3, what)
    if len(rest) != 1:
        _fail(rest[0], f"{what}: a single guarded copy expected after the operands")
    test, inner = _guarded(rest[0], what)
    # optional warning for an unknown address
    if inner and isinstance(inner[0], ast.If) and _u(inner[0].test) == f"{alias} is None" and not inner[0].orelse \
            and all(isinstance(s, ast.Expr) and isinstance(s.value, ast.Call) and _u(s.value.func) == "warn" for s in inner[0].body):
        inner = inner[1:]
    a = _assign(inner[0]) if inner else None
    if a is None or _u(a[1]) != f"ex.code.get({alias})":
        _fail(inner[0] if inner else rest[0], f"{what}: `<account code> = ex.code.get({alias})` expected")
    acct = a[0]
    val, dst = _copy_body(inner[1:], what)
    if not (isinstance(val, ast.IfExp) and _u(val.test) == f"{acct} is not None"):
        _fail(val, f"{what}: `{acct}.slice(..) if {acct} is not None else ByteVec().slice(..)` expected")
    a1, a2 = _src_call(val.body, what, f"{acct}.slice", ["start", "size"])
    n1, n2 = _src_call(val.orelse, what, "ByteVec().slice", ["start", "stop"])
    c = Ctx(params)
    _emit_copy(out, "extcodecopy", c, test, a1, a2, dst, f"{what}: operands {params} (after the address); `if <do>:` account_code.slice(a1, a2) ; state.set_mslice(dst, codeslice)")
    out.add("extcodecopy_none_start", params, "Z", c.z(n1), f"{what}, account without code: ByteVec().slice(start, stop)")
    out.add("extcodecopy_none_stop", params, "Z", c.z(n2))


def tr_returndatacopy(br, out):
    what = "OP_RETURNDATACOPY"
    params, rest = _operands(br, 3, what)
    if len(rest) != 2:
        _fail(rest[0], f"{what}: the bounds check and one guarded copy expected after the operands")
    g = rest[0]
    if not (isinstance(g, ast.If) and not g.orelse and len(g.body) == 1 and isinstance(g.body[0], ast.Raise)
            and isinstance(g.body[0].exc, ast.Call) and _u(g.body[0].exc.func) == "OutOfBoundsRead"):
        _fail(g, f"{what}: `if <out of bounds>: raise OutOfBoundsRead(..)` expected before the copy")
    if "rdsize" in params:
        _fail(g, f"{what}: operand name clash")
    c4 = Ctx(params + ["rdsize"], table={"ex.returndatasize()": "rdsize"})
    out.add("returndatacopy_oob", c4.params, "bool", c4.b(g.test), f"{what}: operands {params}; raise OutOfBoundsRead when this holds (rdsize = ex.returndatasize())")
    test, inner = _guarded(rest[1], what)
    val, dst = _copy_body(inner, what)
    a1, a2 = _src_call(val, what, "ex.returndata().slice", ["start", "stop"])
    _emit_copy(out, "returndatacopy", Ctx(params), test, a1, a2, dst, f"{what}: `if <do>:` ex.returndata().slice(a1, a2) ; state.set_mslice(dst, data)")


def tr_mcopy(br, out):
    what = "OP_MCOPY"
    params, rest = _operands(br, 3, what)
    if len(rest) != 1:
        _fail(rest[0], f"{what}: a single guarded copy expected after the operands")
    test, inner = _guarded(rest[0], what)
    val, dst = _copy_body(inner, what)
    a1, a2 = _src_call(val, what, "state.mslice", ["loc", "size"])
    _emit_copy(out, "mcopy", Ctx(params), test, a1, a2, dst, f"{what}: operands {params}; `if <do>:` state.mslice(a1, a2) ; state.set_mslice(dst, data)")


def tr_msize(br, out):
    body = list(br)
    if len(body) < 2:
        raise TranslateError("T-memwire: OP_MSIZE: too short")
    c = Ctx(["size"])
    for st in body[:-1]:
        a = _assign(st)
        if a is None:
            _fail(st, "OP_MSIZE: unexpected statement")
        if _u(a[1]) == "len(state.memory)":
            c.env[a[0]] = "size"
        else:
            c.bind(a[0], a[1])
    last = body[-1]
    if not (isinstance(last, ast.Expr) and isinstance(last.value, ast.Call) and _u(last.value.func) == "state.push_any" and len(last.value.args) == 1):
        _fail(last, "OP_MSIZE: `state.push_any(<size>)` expected last")
    out.add("msize_round", ["size"], "Z", c.z(last.value.args[0]), "OP_MSIZE: what is pushed, size = len(state.memory)")


PLAIN = {
    "OP_MSTORE": ["v0 = ex.mloc(check_size=True)", "v1 = state.popi()", "state.memory.set_word(v0, v1)"],
    "OP_MLOAD": ["v0 = ex.mloc(check_size=True)", "state.push_any(state.memory.get_word(v0))"],
    "OP_MSTORE8": ["v0 = ex.mloc(check_size=True)", "v1 = state.pop()", "state.memory.set_byte(v0, uint8(v1))"],
}

# statements of SEVM.call that carry the memory side of a message call, in this order
CALL_ANCHORS = [
    "arg_loc: int = ex.mloc(check_size=False)",
    "arg_size: int = ex.int_of(ex.st.pop(), 'symbolic CALL input data size')",
    "ret_loc: int = ex.mloc(check_size=False)",
    "ret_size: int = ex.int_of(ex.st.pop(), 'symbolic CALL return data size')",
    "arg = ex.st.mslice(arg_loc, arg_size)",
    "new_ex.st = deepcopy(ex.st)",
    "returndata = subcall.output.data",
    "copy_returndata_to_memory(returndata, ret_loc, ret_size, new_ex)",
]


def tr_call_anchors(tree):
    fn = find_function(tree, "call", cls="SEVM")
    seq = []
    for node in ast.walk(fn):
        if isinstance(node, ast.stmt) and not isinstance(node, (ast.FunctionDef, ast.If, ast.For, ast.While, ast.Try, ast.With)):
            seq.append((node.lineno, _u(node)))
    seq.sort()
    texts = [t for _, t in seq]
    pos = -1
    for a in CALL_ANCHORS:
        try:
            i = texts.index(a, pos + 1)
        except ValueError:
            raise TranslateError(f"T-memwire: SEVM.call: statement `{a}` not found (in the modelled order)") from None
        pos = i
    # the callee's data keyword
    if "data=arg" not in "".join(texts):
        raise TranslateError("T-memwire: SEVM.call: the callee's Message is not built with data=arg")


# ----------------------------------------------------------------- census of the slicing call sites

CENSUS_NAMES = ("slice", "mslice", "set_mslice", "calldata_slice", "set_slice")

# every call site of a slicing method in sevm.py, per enclosing top-level function / method: each one is either
# translated above or shape-checked below; a new one is an unreviewed (start, size) / (start, stop) hand-over
CENSUS = {
    "copy_returndata_to_memory": {"slice": 1, "set_mslice": 1},
    "Message.calldata_slice": {"slice": 1},
    "State.mslice": {"slice": 1},
    "State.set_mslice": {"set_slice": 1},
    "State.ret": {"mslice": 1},
    "Exec.sha3": {"mslice": 1},
    "Exec.path_slice": {"slice": 1},          # Path.slice(var_set): not a byte sequence
    "SEVM.call": {"mslice": 1},
    "SEVM.create": {"mslice": 1},
    "SEVM.run": {"slice": 4, "mslice": 2, "set_mslice": 5, "calldata_slice": 1},
}

# memory reads that hand (loc, size) straight to State.mslice: canonical statements (locals renamed v0, v1, ..)
SHA3_SHAPE = ["v0 = self.mloc(check_size=False)", "v1 = self.int_of(self.st.pop(), 'symbolic SHA3 data size')",
              "v2 = self.st.mslice(v0, v1).unwrap() if v1 else b''"]
LOG_SHAPE = ["v0 = opcode - OP_LOG0", "v1 = ex.mloc()", "v2 = ex.int_of(state.pop(), 'symbolic LOG data size')",
             "v3 = list((state.pop() for _ in range(v0)))", "v4 = state.mslice(v1, v2)", "ex.emit_log(EventLog(ex.this(), v3, v4))"]
CREATE_SHAPE = ["v0 = ex.st.popi()", "v1 = ex.int_of(ex.st.pop(), 'symbolic CREATE offset')", "v2 = ex.int_of(ex.st.pop(), 'symbolic CREATE size')"]


def census(tree):
    got = {}

    def count(fn, qual):
        for node in ast.walk(fn):
            if isinstance(node, ast.Call) and isinstance(node.func, ast.Attribute) and node.func.attr in CENSUS_NAMES:
                got.setdefault(qual, {}).setdefault(node.func.attr, 0)
                got[qual][node.func.attr] += 1

    for n in tree.body:
        if isinstance(n, (ast.FunctionDef, ast.AsyncFunctionDef)):
            count(n, n.name)
        elif isinstance(n, ast.ClassDef):
            for m in n.body:
                if isinstance(m, (ast.FunctionDef, ast.AsyncFunctionDef)):
                    count(m, f"{n.name}.{m.name}")
        else:
            for node in ast.walk(n):
                if isinstance(node, ast.Call) and isinstance(node.func, ast.Attribute) and node.func.attr in CENSUS_NAMES:
                    raise TranslateError(f"T-memwire: slicing call at module level: {_u(node)[:80]!r}")
    if got != CENSUS:
        diff = {k: (got.get(k), CENSUS.get(k)) for k in set(got) | set(CENSUS) if got.get(k) != CENSUS.get(k)}
        raise TranslateError(f"T-memwire: the slicing call sites of sevm.py differ from the reviewed ones (found, expected): {diff}")


def tr_read_sites(tree):
    fn = find_function(tree, "sha3", cls="Exec")
    got = canon(strip_docstring(fn.body)[:3])
    if got != SHA3_SHAPE:
        raise TranslateError(f"T-memwire: Exec.sha3 reads memory in an unmodelled way: {got}")
    run = find_function(tree, "run", cls="SEVM")
    logs = [n for n in ast.walk(run) if isinstance(n, ast.If) and _u(n.test) == "OP_LOG0 <= opcode <= OP_LOG4"]
    if len(logs) != 1:
        raise TranslateError("T-memwire: the LOG branch of SEVM.run was not found")
    body = [st for st in logs[0].body if not (isinstance(st, ast.If) and _u(st.test) == "ex.message().is_static")]
    got = canon(body)
    if got != LOG_SHAPE:
        raise TranslateError(f"T-memwire: LOG reads memory in an unmodelled way: {got}")
    cr = find_function(tree, "create", cls="SEVM")
    body = [st for st in strip_docstring(cr.body) if not (isinstance(st, ast.If) and _u(st.test) == "ex.message().is_static")]
    got = canon(body[:3])
    if got != CREATE_SHAPE:
        raise TranslateError(f"T-memwire: SEVM.create pops its operands in an unmodelled way: {got}")
    names = [_assign(st)[0] for st in body[:3]]
    want = f"ex.st.mslice({names[1]}, {names[2]})"
    if not any(_assign(st) is not None and _u(_assign(st)[1]) == want for st in body[3:]):
        raise TranslateError(f"T-memwire: SEVM.create: `{want}` not found")


def translate(src_text):
    tree = ast.parse(src_text)
    census(tree)
    tr_read_sites(tree)
    out = Out()
    tr_mslice(tree, out)
    tr_set_mslice(tree, out)
    tr_calldata_slice(tree, out)
    tr_state_ret(tree)
    tr_copy_returndata(tree, out)
    br = opcode_branches(tree)
    tr_calldatacopy(the_branch(br, "OP_CALLDATACOPY"), out)
    tr_codecopy(the_branch(br, "OP_CODECOPY"), out)
    tr_extcodecopy(the_branch(br, "OP_EXTCODECOPY"), out)
    tr_returndatacopy(the_branch(br, "OP_RETURNDATACOPY"), out)
    tr_mcopy(the_branch(br, "OP_MCOPY"), out)
    tr_msize(the_branch(br, "OP_MSIZE"), out)
    for name, want in PLAIN.items():
        got = canon(the_branch(br, name))
        if got != want:
            raise TranslateError(f"T-memwire: {name}: body differs from the modelled shape: {got}")
    tr_call_anchors(tree)
    lines = [
        "(* GENERATED by translate/t_memwire.py from src/halmos/sevm.py -- do not edit *)",
        "From Coq Require Import ZArith Bool.",
        "Local Open Scope Z_scope.",
        "",
    ]
    for name, params, ty, text, comment in out.defs:
        if comment:
            lines.append(f"(* {comment} *)")
        ps = " ".join(params)
        lines.append(f"Definition {name} ({ps} : Z) : {ty} := {text}.")
    lines.append("")
    return "\n".join(lines), {"defs": [(n, p, t, x) for n, p, t, x, _ in out.defs]}


def selfcheck(info):
    """State.mslice of the imported module against zero-padded reads on a small grid"""
    bad = []
    try:
        from halmos.bytevec import ByteVec
        from halmos.sevm import State

        for loc in (0, 1, 5, 40):
            for size in (0, 1, 3, 33):
                mem = ByteVec(bytes(range(1, 21)))
                got = State(stack=[], memory=mem).mslice(loc, size).unwrap()
                want = bytes((mem.get_byte(i) if i < 20 else 0) for i in range(loc, loc + size))
                if (got if isinstance(got, bytes) else None) != want:
                    bad.append(f"State.mslice({loc}, {size}) on 20 bytes returned {got!r}")
    except Exception as e:  # noqa: BLE001
        bad.append(f"selfcheck could not run: {type(e).__name__}: {e}")
    return bad
