"""T-dynroom: how much room Calldata.encode (src/halmos/calldata.py) gives to the symbolic content of a dynamic
parameter, as a function of its list of length candidates -> coq/Gen/GenDynRoom.v

    T[]            sizes, size_var = self.get_dyn_sizes(name, typ)
                   items = [self.encode(f"{name}[{i}]", typ.base) for i in range(<E1(sizes)>)]
    bytes/string   sizes, size_var = self.get_dyn_sizes(name, typ)
                   size = <E2(sizes)>;  size_pad_right = (size + 31) // 32 * 32;  BitVec(new_symbol, 8 * size_pad_right)

Emits   array_room (sizes : list Z) : Z  :=  E1       (number of symbolic elements)
        bytes_room (sizes : list Z) : Z  :=  E2       (number of symbolic bytes before padding)
        bytes_room_padded (sizes)        :=  the regenerated padding expression over bytes_room
        value_symbol_uid_fresh / length_symbol_uid_fresh : bool   is the uid part of the z3 constant's name a uid() call
                                                                  made for this very symbol
        sizes_are_sorted_by_halmos : bool             (does get_dyn_sizes sort / normalise the candidate list)
The expressions over `sizes` may be max(sizes), min(sizes), sizes[k] for an integer literal k (negative from the
end), len(sizes), integer arithmetic over these.  The candidate list itself comes verbatim from the options
(get_dyn_sizes is checked to hand it over unchanged).  Fail-closed.
"""
import ast

from .pyexpr import TranslateError, find_function

NAME = "T-dynroom"
SRC = "calldata.py"
OUT = "GenDynRoom.v"


def _expr(node, local, var="sizes"):
    """integer expression over the candidate list (python local `var`) -> Gallina (Z) over `sizes`"""
    if isinstance(node, ast.Constant) and isinstance(node.value, int) and not isinstance(node.value, bool):
        return f"({node.value})" if node.value < 0 else str(node.value)
    if isinstance(node, ast.Name) and node.id in local:
        return local[node.id]
    if isinstance(node, ast.Call) and isinstance(node.func, ast.Name) and len(node.args) == 1 and not node.keywords and ast.unparse(node.args[0]) == var:
        if node.func.id == "max":
            return "(list_max_z sizes)"
        if node.func.id == "min":
            return "(list_min_z sizes)"
        if node.func.id == "len":
            return "(Z.of_nat (length sizes))"
    if isinstance(node, ast.Subscript) and ast.unparse(node.value) == var:
        k = node.slice
        if isinstance(k, ast.UnaryOp) and isinstance(k.op, ast.USub) and isinstance(k.operand, ast.Constant) and isinstance(k.operand.value, int):
            return f"(nth_from_end {k.operand.value} sizes)"
        if isinstance(k, ast.Constant) and isinstance(k.value, int) and not isinstance(k.value, bool):
            return f"(nth {k.value} sizes 0)"
    if isinstance(node, ast.BinOp):
        op = {ast.Add: "Z.add", ast.Sub: "Z.sub", ast.Mult: "Z.mul", ast.FloorDiv: "Z.div"}.get(type(node.op))
        if op:
            return f"({op} {_expr(node.left, local, var)} {_expr(node.right, local, var)})"
    raise TranslateError(f"Calldata.encode: unsupported size expression {ast.unparse(node)!r}")


def _symbol_parts(node, what):
    """f"p_{name}_..._{<uid part>}_{self.new_symbol_id():>02}" -> (is the uid part a fresh `uid()` call, does the text carry `name`,
    does it carry the per-calldata counter new_symbol_id)"""
    if not isinstance(node, ast.JoinedStr):
        raise TranslateError(f"{what}: the symbol name is not an f-string")
    vals = [ast.unparse(v.value) for v in node.values if isinstance(v, ast.FormattedValue)]
    lits = "".join(v.value for v in node.values if isinstance(v, ast.Constant))
    if not lits.startswith("p_"):
        raise TranslateError(f"{what}: symbol names are expected to start with p_")
    known = {"name", "typ.typ", "uid()", "self.new_symbol_id()"}
    unknown = [v for v in vals if v not in known]
    fresh = "uid()" in vals
    if unknown and fresh:
        raise TranslateError(f"{what}: unexpected component(s) {unknown} in the symbol name")
    # anything else than a direct uid() call (an attribute computed once, a constant ...) is NOT fresh per symbol
    return fresh, "name" in vals, "self.new_symbol_id()" in vals


def translate(src_text):
    tree = ast.parse(src_text)
    enc = find_function(tree, "encode", cls="Calldata")
    gds = find_function(tree, "get_dyn_sizes", cls="Calldata")
    # get_dyn_sizes hands the configured list over unchanged
    src = [ast.unparse(s) for s in gds.body if not (isinstance(s, ast.Expr) and isinstance(s.value, ast.Constant))]
    ret = gds.body[-1]
    if not (isinstance(ret, ast.Return) and isinstance(ret.value, ast.Tuple) and len(ret.value.elts) == 2 and all(isinstance(e, ast.Name) for e in ret.value.elts)):
        raise TranslateError("get_dyn_sizes: expected `return (<sizes>, <size_var>)`")
    gv, sv = ret.value.elts[0].id, ret.value.elts[1].id
    if not src or src[0] != f"{gv} = self.args.array_lengths.get(name)":
        raise TranslateError(f"get_dyn_sizes: expected `{gv} = self.args.array_lengths.get(name)` first")
    assigns = [n for n in ast.walk(gds) if isinstance(n, (ast.Assign, ast.AugAssign)) and gv in [ast.unparse(t) for t in (n.targets if isinstance(n, ast.Assign) else [n.target])]]
    for a in assigns:
        v = ast.unparse(a.value)
        if v not in ("self.args.array_lengths.get(name)", "self.args.default_array_lengths if isinstance(typ, DynamicArrayType) else self.args.default_bytes_lengths"):
            raise TranslateError(f"get_dyn_sizes: the candidate list is transformed: {gv} = {v}")
    if any(isinstance(n, ast.Call) and isinstance(n.func, ast.Attribute) and ast.unparse(n.func.value) == gv for n in ast.walk(gds)):
        raise TranslateError("get_dyn_sizes: a method is called on the candidate list")
    if f"DynamicParam(name, {gv}, {sv}, typ)" not in ast.unparse(gds):
        raise TranslateError("get_dyn_sizes: the DynamicParam (the candidates the paths branch over) is not built from the same list")

    def dyn_target(st):
        """`<X>, <V> = self.get_dyn_sizes(name, typ)` -> X"""
        if (isinstance(st, ast.Assign) and len(st.targets) == 1 and isinstance(st.targets[0], ast.Tuple) and len(st.targets[0].elts) == 2
                and all(isinstance(e, ast.Name) for e in st.targets[0].elts) and ast.unparse(st.value) == "self.get_dyn_sizes(name, typ)"):
            return st.targets[0].elts[0].id, st.targets[0].elts[1].id
        return None

    # the two arms of encode
    arr = [st for st in enc.body if isinstance(st, ast.If) and ast.unparse(st.test) == "isinstance(typ, DynamicArrayType)"]
    if len(arr) != 1:
        raise TranslateError("Calldata.encode: the DynamicArrayType arm not found")
    body = arr[0].body
    tv = dyn_target(body[0])
    if tv is None:
        raise TranslateError("Calldata.encode: T[] arm does not start with `<sizes>, <size_var> = self.get_dyn_sizes(name, typ)`")
    comp = body[1]
    if not (isinstance(comp, ast.Assign) and isinstance(comp.value, ast.ListComp) and len(comp.value.generators) == 1
            and ast.unparse(comp.value.elt) == "self.encode(f'{name}[{i}]', typ.base)" and not comp.value.generators[0].ifs
            and isinstance(comp.value.generators[0].iter, ast.Call) and ast.unparse(comp.value.generators[0].iter.func) == "range" and len(comp.value.generators[0].iter.args) == 1):
        raise TranslateError("Calldata.encode: T[] arm: expected `items = [self.encode(f\"{name}[{i}]\", typ.base) for i in range(<E>)]`")
    array_room = _expr(comp.value.generators[0].iter.args[0], {}, tv[0])
    rest = [ast.unparse(s) for s in body[2:]]
    if rest != ["encoded = self.encode_tuple(items)", f"return EncodingResult([{tv[1]}] + encoded.data, 32 + encoded.size, False)"]:
        raise TranslateError(f"Calldata.encode: T[] arm: unexpected tail {rest}")
    bys = [n for n in ast.walk(enc) if isinstance(n, ast.If) and ast.unparse(n.test) == "typ.typ in ['bytes', 'string']"]
    if len(bys) != 1:
        raise TranslateError("Calldata.encode: the bytes/string arm not found")
    bb = bys[0].body
    bv = dyn_target(bb[0])
    if bv is None or not (isinstance(bb[1], ast.Assign) and isinstance(bb[1].targets[0], ast.Name)):
        raise TranslateError("Calldata.encode: bytes arm: expected `<sizes>, <size_var> = ...; <size> = <E>`")
    sz = bb[1].targets[0].id
    bytes_room = _expr(bb[1].value, {}, bv[0])
    if not (isinstance(bb[2], ast.Assign) and isinstance(bb[2].targets[0], ast.Name)):
        raise TranslateError("Calldata.encode: bytes arm: `size_pad_right = ...` expected")
    pd = bb[2].targets[0].id
    padded = _expr(bb[2].value, {sz: "(bytes_room sizes)"}, bv[0])
    tail = [ast.unparse(s) for s in bb[3:]]
    if tail != [f"data = [BitVec(new_symbol, 8 * {pd})] if {sz} > 0 else []", f"return EncodingResult([{bv[1]}] + data, 32 + {pd}, False)"]:
        raise TranslateError(f"Calldata.encode: bytes arm: unexpected tail {tail}")
    # the names of the z3 constants: value symbols (encode, BaseType arm) and length symbols (get_dyn_sizes)
    ns = [n for n in ast.walk(enc) if isinstance(n, ast.Assign) and ast.unparse(n.targets[0]) == "new_symbol"]
    if len(ns) != 1:
        raise TranslateError("Calldata.encode: expected exactly one `new_symbol = f\"p_...\"`")
    uses = [n for n in ast.walk(enc) if isinstance(n, ast.Call) and ast.unparse(n.func) == "BitVec"]
    if not uses or any(ast.unparse(u.args[0]) != "new_symbol" for u in uses):
        raise TranslateError("Calldata.encode: a BitVec is created from something else than new_symbol")
    val_fresh, val_name, val_sid = _symbol_parts(ns[0].value, "Calldata.encode")
    ls = [n for n in ast.walk(gds) if isinstance(n, ast.Call) and ast.unparse(n.func) == "BitVec"]
    if len(ls) != 1:
        raise TranslateError("get_dyn_sizes: expected exactly one BitVec(...) (the length symbol)")
    len_fresh, len_name, len_sid = _symbol_parts(ls[0].args[0], "get_dyn_sizes")
    b = lambda x: "true" if x else "false"  # noqa: E731
    lines = [
        "(* GENERATED by translate/t_dynroom.py from Calldata.encode / get_dyn_sizes in src/halmos/calldata.py -- do not edit *)",
        "From Coq Require Import ZArith List.",
        "Import ListNotations.",
        "Open Scope Z_scope.",
        "",
        "(* python max(l) / min(l) / l[-k] on a non-empty list of ints *)",
        "Definition list_max_z (l : list Z) : Z := match l with [] => 0 | x :: r => fold_left Z.max r x end.",
        "Definition list_min_z (l : list Z) : Z := match l with [] => 0 | x :: r => fold_left Z.min r x end.",
        "Definition nth_from_end (k : nat) (l : list Z) : Z := nth (k - 1) (rev l) 0.",
        "",
        "(* number of symbolic elements laid out for a T[] parameter with length candidates `sizes` *)",
        "Definition array_room (sizes : list Z) : Z :=",
        f"  {array_room}.",
        "",
        "(* number of symbolic bytes laid out for a bytes / string parameter, and its padded size *)",
        "Definition bytes_room (sizes : list Z) : Z :=",
        f"  {bytes_room}.",
        "",
        "Definition bytes_room_padded (sizes : list Z) : Z :=",
        f"  {padded}.",
        "",
        "(* the name of the z3 constant of a parameter value / of a dynamic length: does it contain a uid() drawn for",
        "   THIS symbol (else: whatever stands there is the same for all symbols of the calldata) *)",
        f"Definition value_symbol_uid_fresh : bool := {b(val_fresh)}.",
        f"Definition length_symbol_uid_fresh : bool := {b(len_fresh)}.",
        "",
    ]
    return "\n".join(lines), {"array_room": array_room, "bytes_room": bytes_room}


def selfcheck(info):
    return []
