"""T-invfilters: /repo/src/halmos/__main__.py -> coq/Gen/GenInvFilters.v

Regenerates, from the source text (ast, fail-closed):
  * the six invariant-filter getters (`get_target_senders` ...): selector literal and
    function name -> `filter_getters : list (N * string)` (selector, signature);
  * `resolve_target_contracts` statement by statement as a Gallina function over list-sets;
  * the sender restriction of `run_target_contract` (`effective_target_senders`, the
    `msg_sender_cond` conditional expression) as `sender_allowed : ... -> Z -> bool`;
  * `resolve_target_selectors` (three branches, each a filter over the method identifiers)
    as `selector_selected : ... -> method -> bool`.
Set expressions are translated compositionally (names, ctx.<field>, `-`, `|`, `.keys()`,
`.get(x)`, `{x}`, conditional expressions, `in` / `not in`, `and` / `or` / `not`, truthiness).
"""
import ast

from .pyexpr import TranslateError, find_function

NAME = "T-invfilters"
SRC = "__main__.py"
OUT = "GenInvFilters.v"

GETTERS = ["get_target_senders", "get_excluded_senders", "get_target_contracts", "get_excluded_contracts",
           "get_target_selectors", "get_excluded_selectors"]
CTX_FIELDS = {"target_contracts": ("tc", "set"), "excluded_contracts": ("ec", "set"),
              "target_selectors": ("tsel", "map"), "excluded_selectors": ("esel", "map"),
              "target_senders": ("tsend", "set"), "excluded_senders": ("esend", "set")}
MUT_CODES = {"pure": 0, "view": 1, "nonpayable": 2, "payable": 3}


def _fail(node, why):
    try:
        src = ast.unparse(node)
    except Exception:  # noqa: BLE001
        src = repr(node)
    raise TranslateError(f"T-invfilters: unsupported shape ({why}): {src!r} at line {getattr(node, 'lineno', '?')}")


class SetTr:
    """expression translator; values are (text, type) with type in set | map | bool | elem | str | optcond"""

    def __init__(self, env, ctx_names=("ctx",)):
        self.env = dict(env)          # python name -> (gallina text, type)
        self.ctx_names = ctx_names

    def truth(self, v):
        t, ty = v
        if ty == "bool":
            return t
        if ty == "set":
            return f"(nonempty {t})"
        _fail(ast.parse("0"), f"truthiness of type {ty}")

    def tr(self, n):
        if isinstance(n, ast.Name):
            if n.id in self.env:
                return self.env[n.id]
            _fail(n, "unknown name")
        if isinstance(n, ast.Attribute) and isinstance(n.value, ast.Name) and n.value.id in self.ctx_names and n.attr in CTX_FIELDS:
            return CTX_FIELDS[n.attr]
        if isinstance(n, ast.NamedExpr) and isinstance(n.target, ast.Name):
            v = self.tr(n.value)
            self.env[n.target.id] = v
            return v
        if isinstance(n, ast.Call) and isinstance(n.func, ast.Attribute):
            f = n.func
            # ex.code.keys()
            if f.attr == "keys" and not n.args and isinstance(f.value, ast.Attribute) and f.value.attr == "code" and isinstance(f.value.value, ast.Name) and f.value.value.id == "ex":
                return ("deployed", "set")
            if f.attr == "keys" and not n.args:
                m, ty = self.tr(f.value)
                if ty != "map":
                    _fail(n, ".keys() of a non-map")
                return (f"(ts_keys {m})", "set")
            # m.get(k, frozenset()) / m.get(k, set()): the empty set for a missing key -- what ts_get gives anyway
            if f.attr == "get" and len(n.args) == 2 and not n.keywords and isinstance(n.args[1], ast.Call) and not n.args[1].args and not n.args[1].keywords \
                    and isinstance(n.args[1].func, ast.Name) and n.args[1].func.id in ("frozenset", "set"):
                m, ty = self.tr(f.value)
                k, kty = self.tr(n.args[0])
                if ty != "map" or kty != "elem":
                    _fail(n, ".get on a non-map / non-element key")
                return (f"(ts_get {m} {k})", "set")
            if f.attr == "get" and len(n.args) == 1 and not n.keywords:
                m, ty = self.tr(f.value)
                k, kty = self.tr(n.args[0])
                if ty != "map" or kty != "elem":
                    _fail(n, ".get on a non-map / non-element key")
                return (f"(ts_get {m} {k})", "set")
            # bytes.fromhex(fun_selector)
            if f.attr == "fromhex" and isinstance(f.value, ast.Name) and f.value.id == "bytes" and len(n.args) == 1:
                v, ty = self.tr(n.args[0])
                if ty != "selhex":
                    _fail(n, "bytes.fromhex of something that is not the selector string")
                return (v, "elem")
            if f.attr == "startswith" and len(n.args) == 1 and isinstance(n.args[0], ast.Constant) and isinstance(n.args[0].value, str):
                v, ty = self.tr(f.value)
                if ty != "str":
                    _fail(n, "startswith on a non-string")
                return (f'(prefix "{n.args[0].value}" {v})', "bool")
            _fail(n, "call")
        if isinstance(n, ast.Call) and isinstance(n.func, ast.Name) and n.func.id == "eq" and len(n.args) == 2:
            a, aty = self.tr(n.args[0])
            b, bty = self.tr(n.args[1])
            if aty != "elem" or bty != "elem":
                _fail(n, "eq of non-elements")
            return (f"(Z.eqb {a} {b})", "bool")
        if isinstance(n, ast.BinOp) and isinstance(n.op, (ast.Sub, ast.BitOr)):
            a, aty = self.tr(n.left)
            b, bty = self.tr(n.right)
            if aty != "set" or bty != "set":
                _fail(n, "set operator on non-sets")
            return (f"({'set_diff' if isinstance(n.op, ast.Sub) else 'set_union'} {a} {b})", "set")
        if isinstance(n, ast.Set) and len(n.elts) == 1:
            e, ety = self.tr(n.elts[0])
            if ety != "elem":
                _fail(n, "set literal of a non-element")
            return (f"[{e}]", "set")
        if isinstance(n, ast.IfExp):
            c = self.truth(self.tr(n.test))
            a, aty = self.tr(n.body)
            b, bty = self.tr(n.orelse)
            if aty != bty:
                _fail(n, f"branches of different types {aty}/{bty}")
            return (f"(if {c} then {a} else {b})", aty)
        if isinstance(n, ast.BoolOp):
            parts = [self.truth(self.tr(v)) for v in n.values]
            op = " || " if isinstance(n.op, ast.Or) else " && "
            return ("(" + op.join(parts) + ")", "bool")
        if isinstance(n, ast.UnaryOp) and isinstance(n.op, ast.Not):
            return (f"(negb {self.truth(self.tr(n.operand))})", "bool")
        if isinstance(n, ast.Compare) and len(n.ops) == 1:
            op = n.ops[0]
            l, lty = self.tr(n.left)
            r = n.comparators[0]
            if isinstance(op, (ast.In, ast.NotIn)):
                if lty == "mut" and isinstance(r, ast.List) and all(isinstance(e, ast.Constant) and e.value in MUT_CODES for e in r.elts):
                    txt = f"(mem {l} [{'; '.join(str(MUT_CODES[e.value]) for e in r.elts)}])"
                else:
                    rr, rty = self.tr(r)
                    if lty != "elem" or rty != "set":
                        _fail(n, f"membership {lty} in {rty}")
                    txt = f"(mem {l} {rr})"
                return (txt if isinstance(op, ast.In) else f"(negb {txt})", "bool")
            if isinstance(op, (ast.Eq, ast.NotEq)):
                if lty == "str" and isinstance(r, ast.Constant) and isinstance(r.value, str):
                    txt = f'(String.eqb {l} "{r.value}")'
                else:
                    rr, rty = self.tr(r)
                    if lty != "elem" or rty != "elem":
                        _fail(n, "comparison of non-elements")
                    txt = f"(Z.eqb {l} {rr})"
                return (txt if isinstance(op, ast.Eq) else f"(negb {txt})", "bool")
        # abi[fun_sig]["stateMutability"]
        if isinstance(n, ast.Subscript) and isinstance(n.slice, ast.Constant) and n.slice.value == "stateMutability" \
                and isinstance(n.value, ast.Subscript) and isinstance(n.value.value, ast.Name) and n.value.value.id == "abi" \
                and isinstance(n.value.slice, ast.Name) and self.env.get(n.value.slice.id, (None, None))[1] == "str":
            return ("(m_mut m)", "mut")
        _fail(n, "expression")


def _getters(tree):
    out = []
    for g in GETTERS:
        fn = find_function(tree, g)
        vals = {}
        for st in fn.body:
            if isinstance(st, ast.Assign) and len(st.targets) == 1 and isinstance(st.targets[0], ast.Name) and isinstance(st.value, ast.Constant) and isinstance(st.value.value, str):
                vals[st.targets[0].id] = st.value.value
        if "selector" not in vals or "funname" not in vals:
            raise TranslateError(f"{g}: expected `selector = \"..\"` and `funname = \"..\"` literals")
        # fun_info = FunctionInfo(ctx.name, "funname", f"{funname}()", selector)
        ok = False
        for st in fn.body:
            if isinstance(st, ast.Assign) and isinstance(st.value, ast.Call) and getattr(st.value.func, "id", None) == "FunctionInfo":
                a = st.value.args
                if len(a) == 4 and isinstance(a[3], ast.Name) and a[3].id == "selector" and ast.unparse(a[2]) in ("f'{funname}()'", 'f"{funname}()"'):
                    ok = True
        if not ok:
            raise TranslateError(f"{g}: FunctionInfo(..., f\"{{funname}}()\", selector) not found")
        int(vals["selector"], 16)
        if len(vals["selector"]) != 8:
            raise TranslateError(f"{g}: selector literal is not 4 bytes")
        out.append((g, vals["selector"], vals["funname"] + "()"))
    return out


def _resolve_contracts(tree):
    fn = find_function(tree, "resolve_target_contracts")
    if [a.arg for a in fn.args.args] != ["ctx", "ex"]:
        raise TranslateError("resolve_target_contracts: expected parameters (ctx, ex)")
    tr = SetTr({"FOUNDRY_TEST": ("test", "elem")})
    lets = []
    ret = None
    raises = None
    n = 0
    for st in fn.body:
        if isinstance(st, ast.Expr) and isinstance(st.value, ast.Constant):
            continue  # docstring
        if isinstance(st, ast.Assign) and len(st.targets) == 1 and isinstance(st.targets[0], ast.Name):
            v, ty = tr.tr(st.value)
            n += 1
            name = f"v{n}_{st.targets[0].id}"
            lets.append((name, v))
            tr.env[st.targets[0].id] = (name, ty)
        elif isinstance(st, ast.AugAssign) and isinstance(st.target, ast.Name) and isinstance(st.op, (ast.Sub, ast.BitOr)):
            cur = tr.env.get(st.target.id)
            if not cur or cur[1] != "set":
                _fail(st, "augmented assignment to a non-set")
            r, rty = tr.tr(st.value)
            if rty != "set":
                _fail(st, "augmented assignment with a non-set")
            n += 1
            name = f"v{n}_{st.target.id}"
            lets.append((name, f"({'set_diff' if isinstance(st.op, ast.Sub) else 'set_union'} {cur[0]} {r})"))
            tr.env[st.target.id] = (name, "set")
        elif isinstance(st, ast.If) and not st.orelse and len(st.body) == 1 and isinstance(st.body[0], ast.Raise):
            if raises is not None:
                _fail(st, "second raise")
            raises = tr.truth(tr.tr(st.test))
        elif isinstance(st, ast.Return):
            v, ty = tr.tr(st.value)
            if ty != "set":
                _fail(st, "returns a non-set")
            ret = v
        else:
            _fail(st, "statement")
    if ret is None or raises is None:
        raise TranslateError("resolve_target_contracts: expected `if not ...: raise` and a return")
    body = "".join(f"  let {k} := {v} in\n" for k, v in lets)
    sig = "(tc ec : list Z) (tsel : list (Z * list Z)) (deployed : list Z) (test : Z)"
    txt = f"Definition resolve_target_contracts {sig} : list Z :=\n{body}  {ret}.\n\n"
    txt += f"Definition resolve_target_contracts_raises {sig} : bool :=\n{body}  {raises}.\n"
    return txt


def _sender(tree):
    fn = find_function(tree, "run_target_contract")
    tr = SetTr({}, ctx_names=("inv_ctx",))
    lets = []
    cond = None
    for st in ast.walk(fn):
        if isinstance(st, ast.Assign) and len(st.targets) == 1 and isinstance(st.targets[0], ast.Name):
            tgt = st.targets[0].id
            if tgt in ("excluded_senders", "effective_target_senders"):
                v, ty = tr.tr(st.value)
                if ty != "set":
                    _fail(st, "not a set")
                lets.append((tgt, v))
                tr.env[tgt] = (tgt, "set")
            elif tgt == "msg_sender_cond":
                cond = st.value
    if cond is None or [k for k, _ in lets] != ["excluded_senders", "effective_target_senders"]:
        raise TranslateError("run_target_contract: sender restriction not found in the expected form")

    def quant(n):
        """smt_or([msg_sender == t for t in S]) | smt_and([msg_sender != t for t in S]) | None"""
        if isinstance(n, ast.Constant) and n.value is None:
            return "true"
        if isinstance(n, ast.IfExp):
            c = tr.truth(tr.tr(n.test))
            return f"(if {c} then {quant(n.body)} else {quant(n.orelse)})"
        if isinstance(n, ast.Call) and isinstance(n.func, ast.Name) and n.func.id in ("smt_or", "smt_and") and len(n.args) == 1 and isinstance(n.args[0], ast.ListComp):
            lc = n.args[0]
            if len(lc.generators) != 1 or lc.generators[0].ifs or not isinstance(lc.generators[0].target, ast.Name):
                _fail(n, "comprehension")
            var = lc.generators[0].target.id
            s, sty = tr.tr(lc.generators[0].iter)
            if sty != "set":
                _fail(n, "comprehension over a non-set")
            e = lc.elt
            if not (isinstance(e, ast.Compare) and len(e.ops) == 1 and isinstance(e.ops[0], (ast.Eq, ast.NotEq))
                    and isinstance(e.left, ast.Name) and e.left.id == "msg_sender"
                    and isinstance(e.comparators[0], ast.Name) and e.comparators[0].id == var):
                _fail(n, "comprehension element")
            body = "Z.eqb s x" if isinstance(e.ops[0], ast.Eq) else "negb (Z.eqb s x)"
            return f"({'existsb' if n.func.id == 'smt_or' else 'forallb'} (fun x => {body}) {s})"
        _fail(n, "sender condition")

    body = "".join(f"  let {k} := {v} in\n" for k, v in lets)
    return f"Definition sender_allowed (tsend esend : list Z) (s : Z) : bool :=\n{body}  {quant(cond)}.\n"


def _loop_pred(tr, loop):
    """for fun_sig, fun_selector in method_identifiers: <body>  -> boolean `selected` over method m"""
    if not (isinstance(loop, ast.For) and isinstance(loop.target, ast.Tuple) and [getattr(e, "id", None) for e in loop.target.elts] == ["fun_sig", "fun_selector"]
            and isinstance(loop.iter, ast.Name) and loop.iter.id == "method_identifiers" and not loop.orelse):
        _fail(loop, "loop header")
    tr.env["fun_sig"] = ("(m_sig m)", "str")
    tr.env["fun_selector"] = ("(m_sel m)", "selhex")
    conds = []
    body = list(loop.body)
    while body:
        st = body.pop(0)
        if isinstance(st, ast.Expr) and isinstance(st.value, ast.Constant):
            continue
        if isinstance(st, ast.If) and not st.orelse:
            inner = [s for s in st.body if not (isinstance(s, ast.Expr) and isinstance(s.value, ast.Call) and getattr(s.value.func, "id", None) == "debug")]
            c = tr.truth(tr.tr(st.test))
            if len(inner) == 1 and isinstance(inner[0], ast.Continue):
                conds.append(f"(negb {c})")
                continue
            if len(inner) == 1 and _is_yield(inner[0]) and not body:
                conds.append(c)
                return " && ".join(conds)
            _fail(st, "if body")
        if _is_yield(st) and not body:
            return " && ".join(conds) if conds else "true"
        _fail(st, "loop statement")
    _fail(loop, "loop without yield")


def _is_yield(st):
    return (isinstance(st, ast.Expr) and isinstance(st.value, ast.Yield) and isinstance(st.value.value, ast.Tuple)
            and [getattr(e, "id", None) for e in st.value.value.elts] == ["fun_sig", "fun_selector"])


def _resolve_selectors(tree):
    fn = find_function(tree, "resolve_target_selectors")
    if [a.arg for a in fn.args.args] != ["ctx", "addr", "contract_json"]:
        raise TranslateError("resolve_target_selectors: expected parameters (ctx, addr, contract_json)")
    tr = SetTr({"addr": ("addr", "elem"), "FOUNDRY_TEST": ("test", "elem")})
    stmts = [s for s in fn.body if not (isinstance(s, ast.Expr) and isinstance(s.value, ast.Constant))]
    # abi = get_abi(contract_json); method_identifiers = contract_json["methodIdentifiers"].items()
    pre, rest = stmts[:-1], stmts[-1]
    want = {"abi = get_abi(contract_json)", "method_identifiers = contract_json['methodIdentifiers'].items()"}
    if {ast.unparse(s) for s in pre} != want:
        raise TranslateError("resolve_target_selectors: unexpected preamble " + "; ".join(ast.unparse(s) for s in pre))
    if not isinstance(rest, ast.If):
        _fail(rest, "expected if/elif/else")

    def branch(node):
        c = tr.truth(tr.tr(node.test))
        if len(node.body) != 1:
            _fail(node, "branch body")
        a = _loop_pred(tr, node.body[0])
        if len(node.orelse) == 1 and isinstance(node.orelse[0], ast.If):
            b = branch(node.orelse[0])
        else:
            els = list(node.orelse)
            # is_test_contract = eq(addr, FOUNDRY_TEST)
            while els and isinstance(els[0], ast.Assign):
                st = els.pop(0)
                v, ty = tr.tr(st.value)
                tr.env[st.targets[0].id] = (v, ty)
            if len(els) != 1:
                _fail(node, "else body")
            b = _loop_pred(tr, els[0])
        return f"(if {c} then ({a}) else {b})"

    body = branch(rest)
    return ("Definition selector_selected (tsel esel : list (Z * list Z)) (addr test : Z) (m : method) : bool :=\n  " + body + ".\n\n"
            "Definition resolve_target_selectors (tsel esel : list (Z * list Z)) (addr test : Z) (methods : list method) : list method :=\n"
            "  filter (selector_selected tsel esel addr test) methods.\n")


def _assignments(fn, name):
    """all statements of fn that (re)bind `name` (assignment, walrus, augmented, loop / with targets)"""
    out = []
    for n in ast.walk(fn):
        tgts = []
        if isinstance(n, ast.Assign):
            tgts = n.targets
        elif isinstance(n, (ast.AugAssign, ast.AnnAssign, ast.NamedExpr)):
            tgts = [n.target]
        elif isinstance(n, (ast.For, ast.comprehension)):
            tgts = [n.target]
        elif isinstance(n, ast.withitem) and n.optional_vars is not None:
            tgts = [n.optional_vars]
        def bound(t):
            if isinstance(t, ast.Name):
                return [t.id]
            if isinstance(t, (ast.Tuple, ast.List)):
                return [x for e in t.elts for x in bound(e)]
            if isinstance(t, ast.Starred):
                return bound(t.value)
            return []  # attribute / subscript stores do not rebind a name

        for t in tgts:
            if name in bound(t):
                out.append(n)
    return out


def _call_sites(tree):
    """How the resolved targets are USED: the functions run on an account must be resolved for that
    account's address, in the call that runs them (target / exclude selectors are per address, several
    accounts may be instances of one contract):
        _compute_frontier:   for addr in resolve_target_contracts(ctx.inv_ctx, pre_ex): ... run_target_contract(ctx, pre_ex, addr)
        run_target_contract: for fun_sig, fun_selector in <resolve_target_selectors(<inv ctx>, addr, contract_json)>: ...
                             run_target_function(args, ex, addr, ...)
    with addr / ex / contract_json bound exactly once (parameter resp. the artifact of ex.code[addr])."""
    rtc = find_function(tree, "run_target_contract")
    if [a.arg for a in rtc.args.args] != ["ctx", "ex", "addr"]:
        raise TranslateError("run_target_contract: expected parameters (ctx, ex, addr)")
    for p in ("ctx", "ex", "addr"):
        if _assignments(rtc, p):
            raise TranslateError(f"run_target_contract: parameter {p} is rebound")
    calls = [n for n in ast.walk(rtc) if isinstance(n, ast.Call) and isinstance(n.func, ast.Name) and n.func.id == "resolve_target_selectors"]
    names = [n for n in ast.walk(rtc) if isinstance(n, ast.Name) and n.id == "resolve_target_selectors"]
    if len(calls) != 1 or len(names) != 1:
        raise TranslateError("run_target_contract: resolve_target_selectors must be called exactly once")
    call = calls[0]
    if ast.unparse(call) not in ("resolve_target_selectors(ctx.inv_ctx, addr, contract_json)", "resolve_target_selectors(inv_ctx, addr, contract_json)"):
        _fail(call, "arguments of resolve_target_selectors")
    if "inv_ctx" in ast.unparse(call.args[0]) and not ast.unparse(call.args[0]).startswith("ctx."):
        b = _assignments(rtc, "inv_ctx")
        if len(b) != 1 or ast.unparse(b[0]) != "inv_ctx = ctx.inv_ctx":
            raise TranslateError("run_target_contract: inv_ctx is not ctx.inv_ctx")
    # contract_json: the artifact of the contract at addr
    want = {"contract_json": "contract_json = BuildOut().get_by_name(contract_name, filename)", "contract_name": "contract_name = code.contract_name",
            "filename": "filename = code.filename", "code": "code = ex.code[addr]"}
    for nm, src in want.items():
        b = _assignments(rtc, nm)
        if len(b) != 1 or ast.unparse(b[0]) != src:
            raise TranslateError(f"run_target_contract: `{src}` expected as the only binding of {nm}, found {[ast.unparse(x) for x in b]}")
    # the loop over the resolved functions iterates the result of THIS call
    loops = [n for n in ast.walk(rtc) if isinstance(n, ast.For) and ast.unparse(n.target) == "(fun_sig, fun_selector)"]
    if len(loops) != 1:
        raise TranslateError("run_target_contract: the loop `for fun_sig, fun_selector in ...` not found")
    it = loops[0].iter
    if it is not call:
        if not isinstance(it, ast.Name):
            _fail(it, "iterable of the loop over the target functions")
        b = _assignments(rtc, it.id)
        if len(b) != 1 or not isinstance(b[0], ast.Assign) or b[0].value is not call:
            raise TranslateError(f"run_target_contract: {it.id} is not (only) the result of resolve_target_selectors(..., addr, ...) of this call: "
                                 f"{[ast.unparse(x)[:120] for x in b]}")
    rtf = [n for n in ast.walk(loops[0]) if isinstance(n, ast.Call) and isinstance(n.func, ast.Name) and n.func.id == "run_target_function"]
    if len(rtf) != 1 or [ast.unparse(a) for a in rtf[0].args[:5]] != ["args", "ex", "addr", "abi", "fun_info"]:
        raise TranslateError("run_target_contract: run_target_function(args, ex, addr, abi, fun_info, ...) expected inside the loop")
    b = _assignments(rtc, "fun_info")
    if len(b) != 1 or ast.unparse(b[0]) != "fun_info = FunctionInfo(contract_name, fun_name, fun_sig, fun_selector)":
        raise TranslateError("run_target_contract: fun_info is not FunctionInfo(contract_name, fun_name, fun_sig, fun_selector)")
    # _compute_frontier
    cf = find_function(tree, "_compute_frontier")
    loops = [n for n in ast.walk(cf) if isinstance(n, ast.For) and ast.unparse(n.iter) == "resolve_target_contracts(ctx.inv_ctx, pre_ex)"]
    if len(loops) != 1 or ast.unparse(loops[0].target) != "addr":
        raise TranslateError("_compute_frontier: `for addr in resolve_target_contracts(ctx.inv_ctx, pre_ex)` not found")
    runs = [n for n in ast.walk(cf) if isinstance(n, ast.Call) and isinstance(n.func, ast.Name) and n.func.id == "run_target_contract"]
    if len(runs) != 1 or ast.unparse(runs[0]) != "run_target_contract(ctx, pre_ex, addr)" or not any(runs[0] is n for n in ast.walk(loops[0])):
        raise TranslateError("_compute_frontier: run_target_contract(ctx, pre_ex, addr) expected inside the loop over the target contracts")
    if len(_assignments(cf, "addr")) != 1 or len(_assignments(cf, "pre_ex")) != 1:
        raise TranslateError("_compute_frontier: addr / pre_ex are rebound")
    return (
        "(* run_target_contract(ctx, ex, addr): the functions run on the account at addr are those resolved for addr, in this call *)\n"
        "Definition run_target_functions (tsel esel : list (Z * list Z)) (test : Z) (methods_of : Z -> list method) (addr : Z) : list method :=\n"
        "  resolve_target_selectors tsel esel addr test (methods_of addr).\n\n"
        "(* _compute_frontier: for addr in resolve_target_contracts(ctx.inv_ctx, pre_ex): run_target_contract(ctx, pre_ex, addr) *)\n"
        "Definition frontier_targets (tc ec : list Z) (tsel esel : list (Z * list Z)) (deployed : list Z) (test : Z) (methods_of : Z -> list method) : list (Z * method) :=\n"
        "  flat_map (fun addr => map (pair addr) (run_target_functions tsel esel test methods_of addr)) (resolve_target_contracts tc ec tsel deployed test).\n")


def _setup_visited(tree):
    """run_contract: how the frontier caches are initialised from the post-setUp state:
    `ctx.frontier_states[0] = [setup_ex]`, and is the setUp state registered in ctx.visited?"""
    fn = find_function(tree, "run_contract")
    top = [ast.unparse(s) for s in fn.body]
    if top.count("ctx.frontier_states[0] = [setup_ex]") != 1:
        raise TranslateError("run_contract: `ctx.frontier_states[0] = [setup_ex]` expected once at the top level")
    i0 = top.index("ctx.frontier_states[0] = [setup_ex]")
    runs = [i for i, s in enumerate(top) if "run_tests(" in s]
    if len(runs) != 1 or runs[0] < i0:
        raise TranslateError("run_contract: the single call of run_tests must follow the initialisation of the frontier")
    uses = [n for n in ast.walk(fn) if isinstance(n, ast.Attribute) and n.attr == "visited"]
    if not uses:
        flag = False
    elif len(uses) == 1 and top.count("ctx.visited.add(get_state_id(setup_ex))") == 1 and i0 < top.index("ctx.visited.add(get_state_id(setup_ex))") < runs[0]:
        flag = True
    else:
        raise TranslateError("run_contract: ctx.visited is used in an unexpected way")
    if len([n for n in ast.walk(fn) if isinstance(n, ast.Attribute) and n.attr == "frontier_states"]) != 1:
        raise TranslateError("run_contract: ctx.frontier_states is used in an unexpected way")
    return ("(* run_contract: ctx.frontier_states[0] = [setup_ex]; is the setUp state registered in ctx.visited before the tests run? *)\n"
            f"Definition setup_registered_as_visited : bool := {str(flag).lower()}.\n")


def translate(src_text):
    tree = ast.parse(src_text)
    getters = _getters(tree)
    lines = ["(* GENERATED by translate/t_invfilters.py from src/halmos/__main__.py -- do not edit *)",
             "From Coq Require Import ZArith NArith List Bool String.",
             "From HV Require Import Model.SetOps.",
             "Import ListNotations.", "Local Open Scope string_scope.", "Local Open Scope bool_scope.", "Local Open Scope Z_scope.", ""]
    lines.append("Definition filter_getters : list (N * string) :=\n  [ " + ";\n    ".join(f'({int(s, 16)}%N, "{sig}")' for _, s, sig in getters) + " ].\n")
    lines.append(_resolve_contracts(tree))
    lines.append(_sender(tree))
    lines.append(_resolve_selectors(tree))
    lines.append(_call_sites(tree))
    lines.append(_setup_visited(tree))
    return "\n".join(lines), {"getters": getters}


def selfcheck(info):
    """the selector literals are those of the function names (real keccak), and importing the
    module gives functions of the same names"""
    from eth_hash.auto import keccak

    import halmos.__main__ as m

    bad = []
    for g, s, sig in info["getters"]:
        if not hasattr(m, g):
            bad.append(f"{g} missing in module")
        if keccak(sig.encode())[:4].hex() != s:
            bad.append(f"{g}: selector {s} is not keccak({sig})[:4] = {keccak(sig.encode())[:4].hex()}")
    return bad
