"""T-dynparams: /repo/src/halmos/sevm.py -> coq/Gen/GenDynParams.v

Regenerates how the size candidates of a calldata reach -- and stay in -- the path:

* `Concretization.process_dyn_params(self, dyn_params)`  -> gen_process_dyn_params
  a statement list over the dict `self.candidates`, translated statement by statement into a
  function on association lists (newest binding first, lookup = first match, which is the
  dict's overwrite semantics):
      for d in dyn_params: self.candidates[d.size_symbol] = d.size_choices      (registration)
      self.candidates.update({d.size_symbol: d.size_choices for d in dyn_params})  (same)
      self.candidates.clear()                                                    (reset)
      if not dyn_params: return      /  pass                                     (no-ops)
* `SEVM.calldataload`: the decision made on the loaded word            -> gen_calldataload
      loaded = ex.calldata().get_word(offset)
      if is_expr_var(loaded):
          <c> = <substitution>.get(loaded)
          if <c> is not None: loaded = <c>                  (reads as the fixed constant)
          elif loaded in <candidates>:
              for <cand> in <candidates>[loaded]:            (one successor per candidate:
                  new = self.create_branch(ex, loaded == <cand>, ex.pc)   condition, candidate pushed)
                  new.st.push_any(<cand>); new.advance(); stack.push(new)
              return
      ex.st.push_any(loaded); ex.advance(); stack.push(ex)  (the word itself, one successor)
  The if/elif chain is translated arm by arm in source order (so an arm tested earlier wins, as in
  Python); logging calls are ignored; anything else raises.
* `Path.process_dyn_params` must forward to the concretization;
* what a new path gets as its concretization: `Path.__init__` (empty), `Path.branch`
  (`path.concretization = <copy of self.concretization>`) and `Path.extend_path`
  (`self.concretization = <copy of path.concretization>`)  -> gen_branch_conc, gen_extend_conc.
  A deep copy is the identity of the model; a fresh `Concretization()` is the empty one.
  Sharing the object without a copy (aliasing between sibling paths) is refused.

Fail-closed: any other statement / right-hand side raises TranslateError.
"""
import ast

from .pyexpr import TranslateError, find_function, strip_docstring

NAME = "T-dynparams"
SRC = "sevm.py"
OUT = "GenDynParams.v"

DICT = "self.candidates"
KEY, VAL = "size_symbol", "size_choices"


def _fail(node, why):
    raise TranslateError(f"line {getattr(node, 'lineno', '?')}: {why}: {ast.unparse(node)[:160]}")


def _is_attr(node, var, attr):
    return isinstance(node, ast.Attribute) and node.attr == attr and isinstance(node.value, ast.Name) and node.value.id == var


def _value_ok(node, var):
    """d.size_choices, possibly copied (list(..) / ..copy() / [*..] do not change the content)"""
    if _is_attr(node, var, VAL):
        return True
    if isinstance(node, ast.Call) and isinstance(node.func, ast.Name) and node.func.id == "list" and len(node.args) == 1 and not node.keywords:
        return _value_ok(node.args[0], var)
    if isinstance(node, ast.Call) and isinstance(node.func, ast.Attribute) and node.func.attr == "copy" and not node.args and not node.keywords:
        return _value_ok(node.func.value, var)
    return False


def _iter_param(node, param):
    """the iterable of a registration loop must be dyn_params itself"""
    if isinstance(node, ast.Name) and node.id == param:
        return "ds"
    return None


def _is_empty_test(node, param):
    u = ast.unparse(node)
    return u in (f"not {param}", f"len({param}) == 0", f"{param} == []")


def tr_stmts(stmts, param, ops):
    """-> Gallina expression of type `list (nat * list nat)` with `m` (current dict) and `ds` free"""
    if not stmts:
        return "m"
    s, rest = stmts[0], stmts[1:]
    if isinstance(s, ast.Pass):
        return tr_stmts(rest, param, ops)
    if isinstance(s, ast.Return) and s.value is None:
        ops.append(("return",))
        return "m"
    if isinstance(s, ast.For) and not s.orelse and isinstance(s.target, ast.Name):
        it = _iter_param(s.iter, param)
        if it is None:
            _fail(s, "process_dyn_params: loop over something else than dyn_params")
        var = s.target.id
        for a in s.body:
            if not (isinstance(a, ast.Assign) and len(a.targets) == 1 and isinstance(a.targets[0], ast.Subscript)
                    and ast.unparse(a.targets[0].value) == DICT and _is_attr(a.targets[0].slice, var, KEY)
                    and _value_ok(a.value, var)):
                _fail(a, f"process_dyn_params: loop body is not `{DICT}[{var}.{KEY}] = {var}.{VAL}`")
        n = len(s.body)
        ops.append(("register", it != "ds", n))
        return f"(let m := fold_left (fun m d => (fst d, snd d) :: m) {it} m in {tr_stmts(rest, param, ops)})"
    if isinstance(s, ast.Expr) and isinstance(s.value, ast.Call) and isinstance(s.value.func, ast.Attribute) \
            and ast.unparse(s.value.func.value) == DICT:
        c = s.value
        if c.func.attr == "clear" and not c.args and not c.keywords:
            ops.append(("clear",))
            return f"(let m := @nil (nat * list nat) in {tr_stmts(rest, param, ops)})"
        if c.func.attr == "update" and len(c.args) == 1 and not c.keywords and isinstance(c.args[0], ast.DictComp):
            dc = c.args[0]
            if len(dc.generators) == 1 and not dc.generators[0].ifs and isinstance(dc.generators[0].target, ast.Name):
                g = dc.generators[0]
                it = _iter_param(g.iter, param)
                if it is not None and _is_attr(dc.key, g.target.id, KEY) and _value_ok(dc.value, g.target.id):
                    ops.append(("register", it != "ds", 1))
                    return f"(let m := fold_left (fun m d => (fst d, snd d) :: m) {it} m in {tr_stmts(rest, param, ops)})"
        _fail(s, f"process_dyn_params: unsupported operation on {DICT}")
    if isinstance(s, ast.If) and not s.orelse and _is_empty_test(s.test, param):
        sub = []
        then = tr_stmts(s.body, param, sub)
        ops.append(("if-empty", sub))
        # the arm either returns (then the rest is skipped) or falls through
        falls = not any(isinstance(x, ast.Return) for x in s.body)
        if falls:
            _fail(s, "process_dyn_params: `if not dyn_params` arm that does not return")
        return f"(match ds with [] => {then} | _ :: _ => {tr_stmts(rest, param, ops)} end)"
    _fail(s, "process_dyn_params: unsupported statement")


def _conc_rhs(node, owner):
    """right-hand side giving a path its concretization -> Gallina over (subst, cands)"""
    if isinstance(node, ast.Call) and not node.keywords:
        f = node.func
        fname = f.id if isinstance(f, ast.Name) else f.attr if isinstance(f, ast.Attribute) else None
        if fname == "deepcopy" and len(node.args) == 1 and ast.unparse(node.args[0]) == f"{owner}.concretization":
            return "(subst, cands)", "copy"
        if fname == "Concretization" and not node.args:
            return "(@nil (nat * Z), @nil (nat * list nat))", "fresh"
    _fail(node, f"the concretization of the new path is neither deepcopy({owner}.concretization) nor Concretization()")


def _single_assign(fn, target):
    found = [n for n in ast.walk(fn) if isinstance(n, (ast.Assign, ast.AugAssign, ast.AnnAssign))
             and any(ast.unparse(t) == target for t in (n.targets if isinstance(n, ast.Assign) else [n.target]))]
    if len(found) != 1 or not isinstance(found[0], ast.Assign) or len(found[0].targets) != 1:
        raise TranslateError(f"{fn.name}: expected exactly one plain assignment to {target}, found {len(found)}")
    if found[0] not in fn.body:
        _fail(found[0], f"{fn.name}: the assignment to {target} is conditional")
    for st in fn.body[:fn.body.index(found[0])]:
        if any(isinstance(n, ast.Return) for n in ast.walk(st)):
            _fail(st, f"{fn.name}: may return before the assignment to {target}")
    return found[0].value


SUBST = "ex.path.concretization.substitution"
CANDS = "ex.path.concretization.candidates"
LOGGING = ("debug", "debug_once", "info", "warn")


def _drop_logging(stmts):
    return [x for x in stmts if not (isinstance(x, ast.Expr) and isinstance(x.value, ast.Call)
                                     and isinstance(x.value.func, ast.Name) and x.value.func.id in LOGGING)]


def _u(node):
    return ast.unparse(node)


def tr_calldataload(fn):
    """-> Gallina body of gen_calldataload (continuations fixed/branch/same) and a description"""
    body = _drop_logging(strip_docstring(fn.body))
    if len(body) != 6:
        _fail(fn, f"calldataload: {len(body)} statements, the modelled shape has 6")
    s_off, s_load, s_if, s_push, s_adv, s_stack = body
    if not (isinstance(s_off, (ast.Assign, ast.AnnAssign)) and "ex.st.pop()" in _u(s_off.value)):
        _fail(s_off, "calldataload: the offset is not popped from the stack")
    off = _u(s_off.target if isinstance(s_off, ast.AnnAssign) else s_off.targets[0])
    if not (isinstance(s_load, ast.Assign) and len(s_load.targets) == 1 and isinstance(s_load.targets[0], ast.Name)
            and _u(s_load.value) == f"ex.calldata().get_word({off})"):
        _fail(s_load, "calldataload: the word is not ex.calldata().get_word(offset)")
    w = s_load.targets[0].id
    if [_u(s_push), _u(s_adv), _u(s_stack)] != [f"ex.st.push_any({w})", "ex.advance()", "stack.push(ex)"]:
        _fail(s_push, "calldataload: the fall-through does not push the word and continue with the same state")
    if not (isinstance(s_if, ast.If) and not s_if.orelse and _u(s_if.test) == f"is_expr_var({w})"):
        _fail(s_if, "calldataload: the size-symbol handling is not guarded by is_expr_var(word)")
    inner = _drop_logging(s_if.body)
    if len(inner) != 2 or not isinstance(inner[0], ast.Assign) or not isinstance(inner[1], ast.If):
        _fail(s_if, "calldataload: expected `<c> = substitution.get(word)` followed by one if/elif chain")
    binds = {}
    a = inner[0]
    if len(a.targets) == 1 and isinstance(a.targets[0], ast.Name) and _u(a.value) == f"{SUBST}.get({w})":
        binds[a.targets[0].id] = "sub"
    else:
        _fail(a, "calldataload: expected the lookup of the word in the substitution")
    # the chain, arm by arm
    arms, node = [], inner[1]
    while True:
        arms.append((node.test, _drop_logging(node.body)))
        if len(node.orelse) == 1 and isinstance(node.orelse[0], ast.If):
            node = node.orelse[0]
        elif not node.orelse:
            break
        else:
            _fail(node, "calldataload: the chain ends with an else arm")
    desc = []

    def arm_expr(test, stmts, rest):
        t = _u(test)
        cvar = next((v for v in binds if t == f"{v} is not None"), None)
        if cvar is not None:
            guard = ("sub", "Some z")
        elif t == f"{w} in {CANDS}":
            guard = ("cs", "Some l")
        else:
            _fail(test, "calldataload: unsupported test in the chain")
        # the arm
        if len(stmts) == 1 and isinstance(stmts[0], ast.Assign) and _u(stmts[0]) == f"{w} = {cvar}" and guard[0] == "sub":
            act = "fixed z"   # falls through to the final push of the (now constant) word
            desc.append("fixed")
        elif len(stmts) == 2 and isinstance(stmts[0], ast.For) and isinstance(stmts[1], ast.Return) and stmts[1].value is None and guard[0] == "cs":
            loop = stmts[0]
            if loop.orelse or not isinstance(loop.target, ast.Name) or _u(loop.iter) != f"{CANDS}[{w}]":
                _fail(loop, "calldataload: the loop is not over the candidates of the word")
            c = loop.target.id
            lb = _drop_logging(loop.body)
            if len(lb) != 4 or not (isinstance(lb[0], ast.Assign) and len(lb[0].targets) == 1 and isinstance(lb[0].targets[0], ast.Name)):
                _fail(loop, "calldataload: unexpected loop body")
            n = lb[0].targets[0].id
            if [_u(lb[0].value), _u(lb[1]), _u(lb[2]), _u(lb[3])] != [f"self.create_branch(ex, {w} == {c}, ex.pc)", f"{n}.st.push_any({c})", f"{n}.advance()", f"stack.push({n})"]:
                _fail(loop, "calldataload: a successor is not (branch on word == candidate, push the candidate, advance, onto the work list)")
            act = "branch l"
            desc.append("branch")
        else:
            _fail(test, "calldataload: unsupported arm")
        return f"match {guard[0]} with {guard[1]} => {act} | None => {rest} end"

    expr = "same"
    for test, stmts in reversed(arms):
        expr = arm_expr(test, stmts, expr)
    desc.reverse()
    return f"if is_var then {expr} else same", desc


def translate(src_text):
    tree = ast.parse(src_text)
    info = {}

    fn = find_function(tree, "process_dyn_params", cls="Concretization")
    params = [a.arg for a in fn.args.args]
    if len(params) != 2 or params[0] != "self" or fn.args.vararg or fn.args.kwarg or fn.args.kwonlyargs:
        raise TranslateError(f"Concretization.process_dyn_params: signature changed: {params}")
    ops = []
    body = tr_stmts(strip_docstring(fn.body), params[1], ops)
    info["ops"] = ops

    # the dict consulted by calldataload must be the one written here
    fields = [n.target.id for n in ast.walk(next(c for c in tree.body if isinstance(c, ast.ClassDef) and c.name == "Concretization"))
              if isinstance(n, ast.AnnAssign) and isinstance(n.target, ast.Name)]
    if "candidates" not in fields or "substitution" not in fields:
        raise TranslateError(f"Concretization: fields changed: {fields}")
    cl = find_function(tree, "calldataload", cls="SEVM")
    reads = sorted({ast.unparse(n) for n in ast.walk(cl) if isinstance(n, ast.Attribute) and n.attr in ("candidates", "substitution")})
    if reads != ["ex.path.concretization.candidates", "ex.path.concretization.substitution"]:
        raise TranslateError(f"SEVM.calldataload: reads {reads}, expected the candidates and the substitution of ex.path.concretization")

    g_load, info["calldataload"] = tr_calldataload(cl)

    # Path.process_dyn_params forwards
    pf = find_function(tree, "process_dyn_params", cls="Path")
    pbody = strip_docstring(pf.body)
    pparams = [a.arg for a in pf.args.args]
    if len(pbody) != 1 or len(pparams) != 2 or ast.unparse(pbody[0]) != f"self.concretization.process_dyn_params({pparams[1]})":
        raise TranslateError("Path.process_dyn_params does not simply forward to self.concretization.process_dyn_params")

    init = find_function(tree, "__init__", cls="Path")
    if ast.unparse(_single_assign(init, "self.concretization")) != "Concretization()":
        raise TranslateError("Path.__init__: a new path does not start with an empty Concretization()")
    br = find_function(tree, "branch", cls="Path")
    ret = [n for n in br.body if isinstance(n, ast.Return)]
    if len(ret) != 1 or ast.unparse(ret[0].value) != "path":
        raise TranslateError("Path.branch: does not `return path`")
    g_branch, info["branch"] = _conc_rhs(_single_assign(br, "path.concretization"), "self")
    ep = find_function(tree, "extend_path", cls="Path")
    eparams = [a.arg for a in ep.args.args]
    if len(eparams) != 2:
        raise TranslateError("Path.extend_path: signature changed")
    g_extend, info["extend"] = _conc_rhs(_single_assign(ep, "self.concretization"), eparams[1])

    lines = [
        "(* GENERATED by translate/t_dynparams.py from src/halmos/sevm.py -- do not edit *)",
        "From Coq Require Import ZArith List.",
        "Import ListNotations.",
        "",
        "(* Concretization.process_dyn_params: ds = [(size symbol, size choices)], m = self.candidates *)",
        "Definition gen_process_dyn_params (ds : list (nat * list nat)) (m : list (nat * list nat)) : list (nat * list nat) :=",
        f"  {body}.",
        "",
        "(* SEVM.calldataload: what happens to the loaded word, given whether it is a symbol, its entry in the substitution",
        "   and its entry in the candidates *)",
        "Definition gen_calldataload {B : Type} (is_var : bool) (sub : option Z) (cs : option (list nat))",
        "    (fixed : Z -> B) (branch : list nat -> B) (same : B) : B :=",
        f"  {g_load}.",
        "",
        "(* the concretization (substitution, candidates) of the path made by Path.branch / of a path after extend_path *)",
        "Definition gen_branch_conc (subst : list (nat * Z)) (cands : list (nat * list nat)) : list (nat * Z) * list (nat * list nat) :=",
        f"  {g_branch}.",
        "Definition gen_extend_conc (subst : list (nat * Z)) (cands : list (nat * list nat)) : list (nat * Z) * list (nat * list nat) :=",
        f"  {g_extend}.",
        "",
    ]
    return "\n".join(lines), info


def _interp(ops, ds, m):
    for op in ops:
        if op[0] == "clear":
            m.clear()
        elif op[0] == "register":
            for k, v in (reversed(ds) if op[1] else ds):
                m[k] = v
        elif op[0] == "return":
            return m
        elif op[0] == "if-empty":
            if not ds:
                return _interp(op[1], ds, m)
    return m


def selfcheck(info):
    """the translated statement list, interpreted on dicts, against the real method"""
    bad = []
    from types import SimpleNamespace

    from halmos.sevm import Concretization

    def dp(k, v):
        return SimpleNamespace(size_symbol=k, size_choices=v, name=f"n{k}", typ=None)

    probes = [[[(1, [0, 1])], [(2, [3])]], [[(1, [1]), (2, [2, 5])], [], [(2, [7]), (3, [0])]], [[], [(4, [1])]], [[(5, [1]), (5, [2])]]]
    for seq in probes:
        real, mine = Concretization(), {}
        for ds in seq:
            real.process_dyn_params([dp(k, v) for k, v in ds])
            mine = _interp(info["ops"], ds, mine)
            if dict(real.candidates) != mine:
                bad.append(f"process_dyn_params: after {seq} the real candidates are {dict(real.candidates)}, the translation gives {mine}")
                break
    return bad
