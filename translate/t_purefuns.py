"""T-purefuns: /repo/src/halmos/bitvec.py -> coq/Gen/GenBitvecGuards.v

Regenerates, from the source text of bitvec.py:
  * `is_power_of_two`, `to_signed` as Gallina functions;
  * every comparison guard (`==`, `<`, `<=`, `>`, `>=` over names / attributes / integer
    literals) of the HalmosBitVec methods listed in METHODS, in source order, as
    `g_<method>_<k> (free names, sorted) : bool`;
  * the integer assignments listed in EXPRS (`bl`, `byte_length`, `lo`, `hi`) as
    `e_<method>_<name> (free names, sorted) : Z`.
  * every concrete-path return `return HalmosBitVec(<int arithmetic>, size=...)` of the methods
    listed in RETS, in source order, as three definitions over the sorted free names:
      `r_<method>_<k>  : Z`       the value (Python int semantics: `//`, `%` floor, `>>` = py_shr,
                                  `pow(a, b, m)` = py_pow3, `~a` = -a - 1),
      `rd_<method>_<k> : list Z`  the right operands of every `//` and `%` (Python raises
                                  ZeroDivisionError when one of them is 0),
      `rw_<method>_<k> : Z`       the work measure: bits of the largest integer CPython
                                  materialises while evaluating it (rules in Model/PyInt.v).
Model/BitVecModel.v calls these definitions, so a boundary change in the source
(`>= 31` -> `> 31`, `rhs == 1` -> `rhs == 2`, `lo + 7` -> `lo + 8`, `pow(a, b, m)` -> `a ** b`,
a dropped `== 0` guard in front of a `%`, swapped operands, ...) changes the model the
theorems are proved about.  Fail-closed: the number of guards / returns per method and their
free names must be exactly the expected ones.
"""
import ast

from .pyexpr import TranslateError, Translator, find_function, strip_docstring

NAME = "T-purefuns"
SRC = "bitvec.py"
OUT = "GenBitvecGuards.v"

# method -> list of expected guards, each the sorted tuple of free names
METHODS = {
    "mul": [("lhs",), ("lhs",), ("rhs",), ("rhs",)],
    "div": [("rhs",), ("rhs",)],
    "sdiv": [("rhs",), ("rhs",)],
    "mod": [("rhs",), ("rhs",)],
    "smod": [("rhs",), ("rhs",)],
    "exp": [("rhs",), ("rhs",), ("rhs", "smt_exp_by_const")],
    "signextend": [("size",)],
    "lshl": [("shift_amount",), ("shift_amount", "size")],
    "lshr": [("shift_amount",), ("shift_amount", "size")],
    "ashr": [("shift_value",)],
    "ult": [("other_value", "self_value")],
    "ugt": [("other_value", "self_value")],
    "slt": [("left", "right")],
    "sgt": [("left", "right")],
    "ule": [("other_value", "self_value")],
    "uge": [("other_value", "self_value")],
    "byte": [("byte_length", "idx")],
    "addmod": [("modulus_value",)],
    "mulmod": [("modulus_value",)],
    "eq": [("other_value", "self_value")],     # `self._value == other._value`: int reading of the overloaded ==
    "is_zero": [("self_value",)],              # `self._value == 0`
}
# method -> expected concrete-path returns `return HalmosBitVec(<int arithmetic>, size=...)`, in
# source order, each the sorted tuple of the names it may use (= the parameters of r_/rd_/rw_)
RETS = {
    "add": [("other_value", "self_value")],
    "sub": [("other_value", "self_value")],
    "mul": [("lhs", "rhs"), ("lhs", "rhs"), ("lhs", "rhs")],
    "div": [("lhs", "rhs")],
    "mod": [("lhs", "rhs")],
    "exp": [("lhs", "rhs", "size")],
    "addmod": [("modulus_value", "other_value", "self_value")],
    "mulmod": [("modulus_value", "other_value", "self_value")],
    "lshl": [("self_value", "shift_amount")],
    "lshr": [("self_value", "shift_amount")],
    "bitwise_not": [("self_size", "self_value")],
    "bitwise_and": [("other_value", "self_value")],
    "bitwise_or": [("other_value", "self_value")],
    "bitwise_xor": [("other_value", "self_value")],
}
EXPRS = {
    "signextend": {"bl": ("size",)},
    "byte": {"byte_length": ("size",), "lo": ("byte_length", "idx"), "hi": ("lo",)},
    "mod": {"bitsize": ("rhs_bit_length",)},        # `rhs.bit_length()` is the parameter rhs_bit_length
    "addmod": {"newsize": ("size",)},
    "mulmod": {"newsize": ("size",)},
}
# every operation method of HalmosBitVec: the ones not listed in METHODS / RETS must have no
# comparison guard / no arithmetic concrete-path return (a new native fast path has to be modelled
# before it is trusted)
OPS = ["add", "sub", "mul", "div", "sdiv", "mod", "smod", "exp", "addmod", "mulmod", "signextend", "lshl", "lshr",
       "ashr", "bitwise_not", "bitwise_and", "bitwise_or", "bitwise_xor", "ult", "ugt", "slt", "sgt", "ule", "uge",
       "eq", "byte", "is_zero"]
# number of branch points (if / conditional expression / match case) of every method the model follows
# branch by branch (HalmosBool.__new__/__init__ are not: the model only has TRUE/FALSE | BoolRef)
BRANCHES = {
    "HalmosBitVec": {"__new__": 2, "__init__": 11, "as_z3": 1, "is_zero": 0, "is_non_zero": 0, "add": 0, "sub": 0,
                     "mul": 10, "div": 6, "sdiv": 5, "mod": 6, "smod": 5, "exp": 6, "addmod": 4, "mulmod": 4,
                     "signextend": 1, "lshl": 3, "lshr": 4, "ashr": 1, "bitwise_not": 1, "bitwise_and": 0,
                     "bitwise_or": 0, "bitwise_xor": 0, "ult": 1, "ugt": 2, "slt": 1, "sgt": 1, "ule": 1, "uge": 1,
                     "eq": 0, "byte": 2},
    "HalmosBool": {"as_z3": 1, "value": 2, "is_zero": 2, "is_non_zero": 0, "eq": 0, "neg": 0, "bitwise_not": 0,
                   "bitwise_and": 4, "bitwise_or": 4, "bitwise_xor": 4, "as_bv": 4},
}
# the HalmosBool constructor as modelled (hb_new / hb_init in Model/BitVecModel.v), statement by
# statement; only the presence of the singleton guard at the top of __init__ is regenerated
HB_NEW = [
    "type_value = type(value)",
    "if type_value is bool:\n    return TRUE if value else FALSE",
    "if type_value is HalmosBool:\n    return value",
    "if type_value is HalmosBitVec:\n    return value.is_non_zero()",
    "if type_value is BoolRef:\n    if do_simplify:\n        value = simplify(value)\n    if is_true(value):\n        return TRUE\n    if is_false(value):\n        return FALSE",
    "return super().__new__(cls)",
]
HB_INIT_GUARD = "if self is TRUE or self is FALSE:\n    return"
HB_INIT = [
    "match value:\n    case bool():\n        self.con_val = value\n        self.sym_val = None\n    case BoolRef():\n        simplified = simplify(value) if do_simplify else value\n        self.sym_val = simplified\n        self.con_val = None\n    case str():\n        self.sym_val = Bool(value)\n        self.con_val = None\n    case HalmosBool():\n        return\n    case HalmosBitVec():\n        return\n    case _:\n        raise TypeError(f'Cannot create HalmosBool from {type(value)}')",
    "assert self.con_val is None or self.sym_val is None",
    "assert self.con_val is not None or self.sym_val is not None",
]
HB_SINGLETONS = [
    "TRUE = object.__new__(HalmosBool)", "FALSE = object.__new__(HalmosBool)",
    "TRUE.con_val = True", "TRUE.sym_val = None", "FALSE.con_val = False", "FALSE.sym_val = None",
]
CMP_OK = (ast.Eq, ast.Lt, ast.LtE, ast.Gt, ast.GtE)


class _Flatten(ast.NodeTransformer):
    """`a.b` -> Name `a_b` (only Name.attr, one level)."""

    def visit_Call(self, node):
        f = node.func   # `x.bit_length()` -> Name `x_bit_length`
        if (isinstance(f, ast.Attribute) and f.attr == "bit_length" and isinstance(f.value, ast.Name)
                and not node.args and not node.keywords):
            return ast.copy_location(ast.Name(id=f"{f.value.id}_bit_length", ctx=ast.Load()), node)
        if isinstance(f, ast.Name) and f.id == "pow" and not node.keywords:
            node.args = [self.visit(a) for a in node.args]
            return node
        raise TranslateError(f"unsupported call shape {ast.unparse(node)!r}")

    def visit_Attribute(self, node):
        if isinstance(node.value, ast.Name):
            return ast.copy_location(ast.Name(id=f"{node.value.id}_{node.attr.lstrip(chr(95))}", ctx=ast.Load()), node)
        raise TranslateError(f"unsupported attribute shape {ast.unparse(node)!r}")


def _canon(node):
    """equivalent spellings of one guard give the same Gallina: `a >= b` -> `b <= a`,
    `a > b` -> `b < a`, `<literal> == a` -> `a == <literal>`"""
    if isinstance(node, ast.Compare) and len(node.ops) == 1:
        op, l, r = node.ops[0], node.left, node.comparators[0]
        if isinstance(op, ast.GtE):
            return ast.Compare(left=r, ops=[ast.LtE()], comparators=[l])
        if isinstance(op, ast.Gt):
            return ast.Compare(left=r, ops=[ast.Lt()], comparators=[l])
        if isinstance(op, ast.Eq) and isinstance(l, ast.Constant) and not isinstance(r, ast.Constant):
            return ast.Compare(left=r, ops=[ast.Eq()], comparators=[l])
    return node


def _free_names(node):
    return tuple(sorted({n.id for n in ast.walk(node) if isinstance(n, ast.Name)}))


def _simple(node):
    """only names, attributes of names, int literals and arithmetic"""
    for n in ast.walk(node):
        if isinstance(n, (ast.Call, ast.Subscript, ast.Lambda)):
            return False
    return True


SANITY = {"addmod": 2, "mulmod": 2}   # expected number of `if r.size != newsize: raise` checks


def _guards(fn):
    out = []
    sanity = []

    class V(ast.NodeVisitor):
        def visit_Assert(self, node):  # asserts are not branches
            pass

        def visit_If(self, node):
            # `if r.size != newsize: raise ValueError(r)`: internal size sanity checks of addmod /
            # mulmod; sizes are tracked by the model's own n / n2 bookkeeping (bv_resize)
            if (len(node.body) == 1 and isinstance(node.body[0], ast.Raise) and not node.orelse
                    and isinstance(node.test, ast.Compare) and len(node.test.ops) == 1
                    and isinstance(node.test.ops[0], ast.NotEq)
                    and ast.unparse(node.test).endswith(".size != newsize")):
                sanity.append(ast.unparse(node.test))
                return
            self.generic_visit(node)

        def visit_Compare(self, node):
            if all(isinstance(o, (ast.Is, ast.IsNot)) for o in node.ops):
                return  # identity tests (`abstraction is None`) are modelled by hand
            if not _simple(node):
                return  # z3 operator overloads such as `self.as_z3() < other.as_z3()`
            if not all(isinstance(o, CMP_OK) for o in node.ops):
                raise TranslateError(f"{fn.name}: unsupported comparison {ast.unparse(node)!r}")
            out.append(node)

    V().visit(fn)
    if len(sanity) != SANITY.get(fn.name, 0):
        raise TranslateError(f"{fn.name}: expected {SANITY.get(fn.name, 0)} size sanity checks, found {sanity}")
    return out


def _arith(node):
    """int arithmetic only: names, attributes of names, int literals, binary / unary arithmetic,
    pow(a, b[, m])"""
    for n in ast.walk(node):
        if isinstance(n, ast.Call):
            if not (isinstance(n.func, ast.Name) and n.func.id == "pow" and len(n.args) in (2, 3) and not n.keywords):
                return False
        elif isinstance(n, ast.Constant):
            if isinstance(n.value, bool) or not isinstance(n.value, int):
                return False
        elif isinstance(n, ast.BinOp) and isinstance(n.op, (ast.Div, ast.MatMult)):
            return False   # `/` is never int arithmetic here (z3 overload, or the latent `other / self`)
        elif not isinstance(n, (ast.BinOp, ast.UnaryOp, ast.Name, ast.Attribute, ast.Load, ast.operator, ast.unaryop)):
            return False
    return True


def _returns(fn):
    """the `return HalmosBitVec(<E>, size=...)` statements whose <E> is an arithmetic expression
    with at least one operator, in source order"""
    out = []
    for node in ast.walk(fn):
        if not isinstance(node, ast.Return) or not isinstance(node.value, ast.Call):
            continue
        c = node.value
        if not (isinstance(c.func, ast.Name) and c.func.id == "HalmosBitVec" and len(c.args) == 1):
            continue
        e = c.args[0]
        if isinstance(e, (ast.BinOp, ast.UnaryOp, ast.Call)) and _arith(e):
            out.append(node)
    return sorted(out, key=lambda n: (n.lineno, n.col_offset))


class _Ret:
    """one arithmetic expression -> (value, bits) Gallina texts; collects the divisors and the bits
    of every sub-expression"""

    SAME = {ast.FloorDiv: "Z.div", ast.Mod: "Z.modulo", ast.RShift: "py_shr", ast.BitAnd: "Z.land",
            ast.BitOr: "Z.lor", ast.BitXor: "Z.lxor"}

    def __init__(self):
        self.divisors = []
        self.bits = []

    def note(self, v, b):
        self.bits.append(b)
        return v, b

    def tr(self, n):
        if isinstance(n, ast.Constant):
            v = n.value
            return self.note(f"({v})" if v < 0 else f"{v}", str(max(1, abs(v).bit_length())))
        if isinstance(n, ast.Name):
            return self.note(n.id, f"(py_bits {n.id})")
        if isinstance(n, ast.UnaryOp):
            v, b = self.tr(n.operand)
            if isinstance(n.op, ast.USub):
                return self.note(f"(Z.opp {v})", b)
            if isinstance(n.op, ast.Invert):   # ~a == -a - 1
                return self.note(f"(Z.sub (Z.opp {v}) 1)", f"(Z.add {b} 1)")
            raise TranslateError(f"unsupported unary operator in {ast.unparse(n)!r}")
        if isinstance(n, ast.Call):
            args = [self.tr(a) for a in n.args]
            if len(args) == 3:
                (a, ba), (e, be), (m, bm) = args
                return self.note(f"(py_pow3 {a} {e} {m})", f"(Z.max (Z.max {ba} {be}) (Z.mul 2 {bm}))")
            (a, ba), (e, _) = args
            return self.note(f"(Z.pow {a} {e})", f"(Z.mul {ba} (Z.max 1 {e}))")
        if isinstance(n, ast.BinOp):
            a, ba = self.tr(n.left)
            c, bc = self.tr(n.right)
            op = type(n.op)
            if op in (ast.Add, ast.Sub):
                f = "Z.add" if op is ast.Add else "Z.sub"
                return self.note(f"({f} {a} {c})", f"(Z.add (Z.max {ba} {bc}) 1)")
            if op is ast.Mult:
                return self.note(f"(Z.mul {a} {c})", f"(Z.add {ba} {bc})")
            if op in (ast.FloorDiv, ast.Mod):
                self.divisors.append(c)
            if op in self.SAME:
                return self.note(f"({self.SAME[op]} {a} {c})", f"(Z.max {ba} {bc})")
            if op is ast.LShift:
                return self.note(f"(Z.shiftl {a} {c})", f"(Z.add {ba} (Z.max 0 {c}))")
            if op is ast.Pow:
                return self.note(f"(Z.pow {a} {c})", f"(Z.mul {ba} (Z.max 1 {c}))")
        raise TranslateError(f"unsupported arithmetic shape {ast.unparse(n)!r}")


def _emit(name, params, body, ty):
    ps = "".join(f" ({p} : Z)" for p in params)
    return f"Definition {name}{ps} : {ty} := {body}."


def translate(src_text):
    tree = ast.parse(src_text)
    lines = [
        "(* GENERATED by translate/t_purefuns.py from src/halmos/bitvec.py -- do not edit *)",
        "From Coq Require Import ZArith Bool List.",
        "From HV Require Import Model.PyInt.",
        "Import ListNotations.",
        "Open Scope Z_scope.",
        "",
    ]
    info = {"guards": {}, "exprs": {}, "rets": {}}

    # ---- is_power_of_two
    fn = find_function(tree, "is_power_of_two")
    if [a.arg for a in fn.args.args] != ["x"]:
        raise TranslateError("is_power_of_two: expected parameter x")
    body = strip_docstring(fn.body)
    if len(body) != 1 or not isinstance(body[0], ast.Return):
        raise TranslateError("is_power_of_two: expected a single return")
    e = Translator(names={"x": "x"}).tr(body[0].value)
    lines.append(_emit("is_power_of_two", ["x"], e.as_bool(), "bool"))
    info["is_power_of_two"] = ast.unparse(body[0].value)

    # ---- to_signed: `sign_bit = <expr>; return <ifexp>`
    fn = find_function(tree, "to_signed")
    if [a.arg for a in fn.args.args] != ["x", "bit_size"]:
        raise TranslateError("to_signed: expected parameters (x, bit_size)")
    body = strip_docstring(fn.body)
    if (len(body) != 2 or not isinstance(body[0], ast.Assign) or len(body[0].targets) != 1
            or not isinstance(body[0].targets[0], ast.Name) or not isinstance(body[1], ast.Return)):
        raise TranslateError("to_signed: expected `name = expr; return expr`")
    local = body[0].targets[0].id
    tr = Translator(names={"x": "x", "bit_size": "bit_size"})
    e1 = tr.tr(body[0].value).as_Z()
    tr2 = Translator(names={"x": "x", "bit_size": "bit_size", local: local})
    e2 = tr2.tr(body[1].value).as_Z()
    lines.append(_emit("to_signed", ["x", "bit_size"], f"let {local} := {e1} in {e2}", "Z"))
    info["to_signed"] = [ast.unparse(body[0]), ast.unparse(body[1])]
    lines.append("")

    # ---- HalmosBool constructor (__new__ + __init__) and the TRUE / FALSE singletons
    new = find_function(tree, "__new__", cls="HalmosBool")
    got = [ast.unparse(s) for s in strip_docstring(new.body)]
    if got != HB_NEW:
        raise TranslateError("HalmosBool.__new__: body differs from the modelled shape:\n" + "\n".join(got))
    init = find_function(tree, "__init__", cls="HalmosBool")
    got = [ast.unparse(s) for s in strip_docstring(init.body)]
    guarded = bool(got) and got[0] == HB_INIT_GUARD
    if (got[1:] if guarded else got) != HB_INIT:
        raise TranslateError("HalmosBool.__init__: body differs from the modelled shape:\n" + "\n".join(got))
    nz = find_function(tree, "is_non_zero", cls="HalmosBitVec")
    if [ast.unparse(s) for s in strip_docstring(nz.body)] != ["return HalmosBool(self._value != 0)"]:
        raise TranslateError("HalmosBitVec.is_non_zero: body differs from the modelled shape")
    singles = [ast.unparse(s) for s in tree.body if isinstance(s, ast.Assign)
               and ast.unparse(s.targets[0]).split(".")[0] in ("TRUE", "FALSE")]
    if singles != HB_SINGLETONS:
        raise TranslateError(f"TRUE / FALSE: definitions differ from the modelled shape: {singles}")
    lines.append("(* HalmosBool.__init__ starts with `if self is TRUE or self is FALSE: return`"
                 + ("" if guarded else " -- NOT FOUND") + " *)")
    lines.append(f"Definition hb_init_guards_singletons : bool := {'true' if guarded else 'false'}.")
    lines.append("")
    info["hb_init_guarded"] = guarded

    # ---- branch structure
    info["branches"] = {}
    for cls, table in BRANCHES.items():
        for m, want in table.items():
            fn = find_function(tree, m, cls=cls)
            got_n = sum(isinstance(x, (ast.If, ast.IfExp, ast.match_case)) for x in ast.walk(fn))
            if got_n != want:
                raise TranslateError(f"{cls}.{m}: {got_n} branch points, the model follows {want}")
            info["branches"][f"{cls}.{m}"] = got_n

    # ---- guards and integer expressions of the HalmosBitVec methods
    for m in OPS:
        expected = METHODS.get(m, [])
        fn = find_function(tree, m, cls="HalmosBitVec")
        gs = _guards(fn)
        got = []
        for k, g in enumerate(gs, 1):
            g2 = _canon(_Flatten().visit(ast.parse(ast.unparse(g), mode="eval").body))
            params = _free_names(g2)
            got.append(params)
            e = Translator(names={p: p for p in params}).tr(g2)
            lines.append(f"(* {m}: `{ast.unparse(g)}` *)")
            lines.append(_emit(f"g_{m}_{k}", params, e.as_bool(), "bool"))
        if got != [tuple(x) for x in expected]:
            raise TranslateError(f"{m}: expected guards over {expected}, found {got}")
        info["guards"][m] = [ast.unparse(g) for g in gs]
        for name, params in EXPRS.get(m, {}).items():
            asg = [s for s in ast.walk(fn) if isinstance(s, ast.Assign) and len(s.targets) == 1
                   and isinstance(s.targets[0], ast.Name) and s.targets[0].id == name]
            if len(asg) != 1:
                raise TranslateError(f"{m}: expected exactly one assignment to {name}")
            v = _Flatten().visit(ast.parse(ast.unparse(asg[0].value), mode="eval").body)
            if _free_names(v) != tuple(sorted(params)):
                raise TranslateError(f"{m}.{name}: expected free names {params}, found {_free_names(v)}")
            e = Translator(names={p: p for p in params}).tr(v)
            lines.append(f"(* {m}: `{ast.unparse(asg[0])}` *)")
            lines.append(_emit(f"e_{m}_{name}", sorted(params), e.as_Z(), "Z"))
            info["exprs"][f"{m}.{name}"] = ast.unparse(asg[0].value)
        lines.append("")

    # ---- concrete-path return expressions
    for m in OPS:
        expected = RETS.get(m, [])
        fn = find_function(tree, m, cls="HalmosBitVec")
        rs = _returns(fn)
        got, texts = [], []
        for k, r in enumerate(rs, 1):
            e = _Flatten().visit(ast.parse(ast.unparse(r.value.args[0]), mode="eval").body)
            free = tuple(p for p in _free_names(e) if p != "pow")
            # the parameter list is the expected one; the expression may use fewer names (the
            # theorems about the regenerated definition decide whether that is still right)
            params = tuple(expected[k - 1]) if k <= len(expected) and set(free) <= set(expected[k - 1]) else free
            got.append(params)
            t = _Ret()
            v, _ = t.tr(e)
            w = t.bits[-1]
            for b in reversed(t.bits[:-1]):
                w = f"(Z.max {b} {w})"
            lines.append(f"(* {m}: `{ast.unparse(r)}` *)")
            lines.append(_emit(f"r_{m}_{k}", params, v, "Z"))
            lines.append(_emit(f"rd_{m}_{k}", params, "[" + "; ".join(t.divisors) + "]", "list Z"))
            lines.append(_emit(f"rw_{m}_{k}", params, w, "Z"))
            texts.append(ast.unparse(r.value.args[0]))
        if got != [tuple(x) for x in expected]:
            raise TranslateError(f"{m}: expected concrete-path returns over {expected}, found {got} ({texts})")
        info["rets"][m] = texts
        lines.append("")
    return "\n".join(lines), info


def selfcheck(info):
    """The source text that was translated must be what the imported module executes:
    re-evaluate the recorded source expressions and compare with the imported functions."""
    import halmos.bitvec as b

    bad = []
    vals = [0, 1, 2, 3, 4, 5, 7, 8, 255, 256, 2**255 - 1, 2**255, 2**255 + 1, 2**256 - 1, 6, 12, 2**64, 2**64 + 1]
    for x in vals:
        want = eval(info["is_power_of_two"], {}, {"x": x})  # noqa: S307 (source text of /repo)
        if bool(b.is_power_of_two(x)) != bool(want):
            bad.append(f"is_power_of_two({x}): module {b.is_power_of_two(x)}, source text {want}")
        for n in (8, 256):
            xm = x & ((1 << n) - 1)
            env = {"x": xm, "bit_size": n}
            exec(info["to_signed"][0], {}, env)  # noqa: S102
            want = eval(info["to_signed"][1].removeprefix("return "), {}, env)  # noqa: S307
            if b.to_signed(xm, n) != want:
                bad.append(f"to_signed({xm},{n}): module {b.to_signed(xm, n)}, source text {want}")
    return bad
