"""T-frontiercls: the per-path decision logic of `_compute_frontier` (src/halmos/__main__.py, invariant
testing) -> coq/Gen/GenFrontierCls.v

Every result state `post_ex` of a target transaction passes through a sequence of filters (stopped by an
internal error / reverted / assertion failure inside the target ("probe") / already visited / new frontier
state).  The ORDER of these filters decides what happens to a state that satisfies several tests at once
(a call stopped by an internal error raised in the target's own frame has `output.error` set AND is stuck).
The body of `for post_ex in post_exs:` is executed symbolically, statement by statement, in source order;
the result is the decision tree

    frontier_step (is_stuck has_error : bool) (panic : ptri) (fail_set probe_reported visited : bool) : Z

whose value is the bit set of the EFFECTS that were performed before the iteration ended (`continue` or the
end of the body):

    FE_ERROR   1   error(<text>) was called (an ERROR line of the 'halmos' logger, never de-duplicated)
    FE_PROBE   2   handler.handle_assertion_violation(ex=post_ex, panic_found=panic_found, ...) was called
    FE_NEXT    4   next_exs.append(post_ex); yield post_ex   (the state joins the next frontier)
    FE_MARK    8   visited.add(post_id)
    FE_RAISE  16   post_ex.is_panic_of(...) raised (panic = PRaise): the exception leaves _compute_frontier
    FE_WARN   32   warn(...) / warn_code(...) was called

Observations (whatever the local temporaries are called -- single-assignment locals of the loop body are inlined):
    post_ex.context.is_stuck() -> is_stuck        post_ex.context.output.error (truthiness) -> has_error
    is_global_fail_set(post_ex.context) -> fail_set
    post_ex.context.message.fun_info in ctx.probes_reported -> probe_reported
    get_state_id(post_ex) in visited -> visited   (visited = ctx.visited)
    <v> = post_ex.is_panic_of(panic_error_codes)  evaluated AT the assignment: `match panic with PRaise => ... `
Fail-closed: any other statement / expression shape raises TranslateError.
"""
import ast

from .pyexpr import TranslateError, Translator, find_function

NAME = "T-frontiercls"
SRC = "__main__.py"
OUT = "GenFrontierCls.v"

FE = {"ERROR": 1, "PROBE": 2, "NEXT": 4, "MARK": 8, "RAISE": 16, "WARN": 32}

OBS = {
    "post_ex.context.is_stuck()": "is_stuck",
    "post_ex.context.output.error": "has_error",
    "is_global_fail_set(post_ex.context)": "fail_set",
    "post_ex.context.message.fun_info in ctx.probes_reported": "probe_reported",
    "get_state_id(post_ex) in visited": "visited",
    "get_state_id(post_ex) in ctx.visited": "visited",
}
PANIC_CALL = "post_ex.is_panic_of(panic_error_codes)"
PANIC_CALLS = (PANIC_CALL, "post_ex.is_panic_of(args.panic_error_codes)", "post_ex.is_panic_of(ctx.args.panic_error_codes)")

# calls without influence on what happens to the state (no control flow, no report)
NOOP_CALLS = ("post_ex.path_slice", "post_ex.path.append", "ui.update_status", "call_flamegraph.add_with_sequence",
              "call_flamegraph.add", "print", "traceback.print_exc", "debug")
# calls that may appear inside the value of a local temporary
PURE_FUNCS = ("get_state_id", "hexify", "uid", "ZeroExt", "BitVec", "len", "str", "color_info", "is_global_fail_set")
# switches that only guard tracing / output
NOOP_GUARDS = ("flamegraph_enabled", "args.debug", "args.flamegraph")


def _src(n):
    try:
        return ast.unparse(n)
    except Exception:  # noqa: BLE001
        return repr(n)


def _fail(why, node=None):
    at = f" at line {getattr(node, 'lineno', '?')}: {_src(node)[:140]!r}" if node is not None else ""
    raise TranslateError(f"T-frontiercls: {why}{at}")


class _Inline(ast.NodeTransformer):
    def __init__(self, defs):
        self.defs = defs

    def visit_Name(self, n):
        if isinstance(n.ctx, ast.Load) and n.id in self.defs:
            return self.visit(ast.parse(self.defs[n.id], mode="eval").body)
        return n


class _Sub(ast.NodeTransformer):
    def __init__(self, table):
        self.table = table

    def visit(self, node):
        if isinstance(node, ast.expr):
            s = ast.unparse(node)
            if s in self.table:
                return ast.Name(id=self.table[s], ctx=ast.Load())
        return super().visit(node)


def _truthy(tr, node):
    if isinstance(node, ast.BoolOp):
        f = "andb" if isinstance(node.op, ast.And) else "orb"
        parts = [_truthy(tr, v) for v in node.values]
        text = parts[-1]
        for p in reversed(parts[:-1]):
            text = f"({f} {p} {text})"
        return text
    if isinstance(node, ast.UnaryOp) and isinstance(node.op, ast.Not):
        return f"(negb {_truthy(tr, node.operand)})"
    return tr.tr(node).as_bool()


def _only_noops(stmts):
    for st in stmts:
        if isinstance(st, ast.Pass):
            continue
        if isinstance(st, ast.Expr) and isinstance(st.value, ast.Call) and _src(st.value.func) in NOOP_CALLS:
            continue
        if isinstance(st, ast.If) and _src(st.test) in NOOP_GUARDS and _only_noops(st.body) and _only_noops(st.orelse):
            continue
        return False
    return True


def _pure_value(node):
    """the value of a local temporary: names, attributes, constants, f-strings, subscripts, lists, + and whitelisted calls"""
    for n in ast.walk(node):
        if isinstance(n, ast.Call):
            if _src(n.func) not in PURE_FUNCS and not _src(n.func).endswith(".new_symbol_id"):
                return False
        elif isinstance(n, (ast.NamedExpr, ast.Yield, ast.YieldFrom, ast.Await, ast.Lambda)):
            return False
    return True


class _NotIn(ast.NodeTransformer):
    """`a not in b` -> `not (a in b)`; `x is None` / `x is not None` stay (not understood: fail closed later)"""

    def visit_Compare(self, n):
        self.generic_visit(n)
        if len(n.ops) == 1 and isinstance(n.ops[0], ast.NotIn):
            return ast.UnaryOp(op=ast.Not(), operand=ast.Compare(left=n.left, ops=[ast.In()], comparators=n.comparators))
        return n


class _Exec:
    def __init__(self):
        self.defs = {}              # inlinable locals: name -> source text of the value
        self.panic_seen = False     # is_panic_of(...) is evaluated somewhere
        self.n_leaves = 0
        self.order = []             # observation names in the order they are first tested

    def cond(self, test, pname):
        node = _Inline(self.defs).visit(ast.parse(_src(test), mode="eval").body)
        node = ast.parse(_src(_NotIn().visit(node)), mode="eval").body
        table = dict(OBS)
        names = {"is_stuck", "has_error", "fail_set", "probe_reported", "visited"}
        if pname:
            table[pname] = "panic_found"
            names = names | {"panic_found"}
        node = _Sub(table).visit(node)
        for n in ast.walk(node):
            if isinstance(n, ast.Name) and n.id not in names:
                _fail(f"condition mentions `{n.id}`, which is not one of the recognised observations", test)
            if isinstance(n, ast.Name) and n.id not in self.order:
                self.order.append(n.id)
        tr = Translator(bool_names=names)
        return _truthy(tr, node)

    def go(self, stmts, eff, pname, pending_append):
        """-> Gallina text (Z): the effects performed when this iteration of the loop ends"""
        if not stmts:
            if pending_append:
                _fail("next_exs.append(post_ex) without `yield post_ex` before the iteration ends")
            self.n_leaves += 1
            return str(eff)
        st, rest = stmts[0], stmts[1:]
        if isinstance(st, ast.Continue):
            if pending_append:
                _fail("next_exs.append(post_ex) without `yield post_ex` before the iteration ends", st)
            self.n_leaves += 1
            return str(eff)
        if isinstance(st, (ast.Break, ast.Return, ast.Raise)):
            _fail("the loop over the result states is left / an exception is raised", st)
        if isinstance(st, ast.Pass):
            return self.go(rest, eff, pname, pending_append)
        if isinstance(st, ast.AugAssign):
            if not (isinstance(st.target, ast.Name) and st.target.id == "path_id"):
                _fail("unexpected augmented assignment", st)
            return self.go(rest, eff, pname, pending_append)
        if isinstance(st, ast.Assign):
            if len(st.targets) != 1:
                _fail("multiple assignment targets", st)
            t = st.targets[0]
            if isinstance(t, ast.Attribute):
                if _src(t) not in ("post_ex.call_sequence", "post_ex.block.timestamp") or not _pure_value(st.value):
                    _fail("unexpected store", st)
                return self.go(rest, eff, pname, pending_append)
            if not isinstance(t, ast.Name):
                _fail("unexpected assignment target", st)
            if t.id in ("post_ex", "pre_ex", "addr", "ctx", "visited", "next_exs", "panic_error_codes", "args", "handler") or t.id in self.defs or t.id == pname:
                _fail(f"`{t.id}` is rebound inside the loop over the result states", st)
            val = _Inline(self.defs).visit(ast.parse(_src(st.value), mode="eval").body)
            if _src(val) in PANIC_CALLS:
                if pname is not None:
                    _fail("is_panic_of(...) evaluated twice", st)
                self.panic_seen = True
                inner = self.go(rest, eff, t.id, pending_append)
                return (f"(match panic with PRaise => {eff | FE['RAISE']} | _ => "
                        f"let panic_found := (match panic with PTrue => true | _ => false end) in {inner} end)")
            if "is_panic_of" in _src(val) or not _pure_value(val):
                _fail("the value of a local temporary is not understood", st)
            self.defs[t.id] = _src(val)
            try:
                return self.go(rest, eff, pname, pending_append)
            finally:
                del self.defs[t.id]
        if isinstance(st, ast.If):
            if _src(st.test) in NOOP_GUARDS:
                if not (_only_noops(st.body) and _only_noops(st.orelse)):
                    _fail("a tracing switch guards something that is not tracing", st)
                return self.go(rest, eff, pname, pending_append)
            c = self.cond(st.test, pname)
            a = self.go(list(st.body) + rest, eff, pname, pending_append)
            b = self.go(list(st.orelse) + rest, eff, pname, pending_append)
            return f"(if {c} then {a} else {b})"
        if isinstance(st, ast.Try):
            # try: handler.handle_assertion_violation(...)  except ShutdownError: <tracing>
            if (len(st.body) != 1 or not isinstance(st.body[0], ast.Expr) or not isinstance(st.body[0].value, ast.Call)
                    or _src(st.body[0].value.func) != "handler.handle_assertion_violation" or st.orelse or st.finalbody):
                _fail("unexpected try statement", st)
            if len(st.handlers) != 1 or _src(st.handlers[0].type) != "ShutdownError" or not _only_noops(st.handlers[0].body):
                _fail("the probe handler call may only be guarded by `except ShutdownError: <tracing>`", st)
            return self.go([st.body[0]] + rest, eff, pname, pending_append)
        if isinstance(st, ast.Expr) and isinstance(st.value, ast.Yield):
            if _src(st.value.value) != "post_ex" or not pending_append:
                _fail("`yield post_ex` expected right after next_exs.append(post_ex)", st)
            return self.go(rest, eff | FE["NEXT"], pname, False)
        if isinstance(st, ast.Expr) and isinstance(st.value, ast.Call):
            call = st.value
            f = _src(call.func)
            if f == "error":
                if len(call.args) != 1 or call.keywords:
                    _fail("error(...) must be a plain error(<text>) (never de-duplicated)", st)
                return self.go(rest, eff | FE["ERROR"], pname, pending_append)
            if f in ("warn", "warn_code"):
                if any(k.arg == "allow_duplicate" for k in call.keywords) or len(call.args) > (1 if f == "warn" else 2):
                    _fail("a de-duplicated warning", st)
                return self.go(rest, eff | FE["WARN"], pname, pending_append)
            if f == "handler.handle_assertion_violation":
                kw = {k.arg: _src(_Inline(self.defs).visit(ast.parse(_src(k.value), mode="eval").body)) for k in call.keywords}
                if call.args or kw.get("ex") != "post_ex" or not pname or kw.get("panic_found") != pname:
                    _fail(f"handle_assertion_violation called with {kw} (ex=post_ex, panic_found=<the evaluated is_panic_of> expected)", st)
                return self.go(rest, eff | FE["PROBE"], pname, pending_append)
            if f in ("visited.add", "ctx.visited.add"):
                arg = _src(_Inline(self.defs).visit(ast.parse(_src(call.args[0]), mode="eval").body)) if len(call.args) == 1 else None
                if arg != "get_state_id(post_ex)":
                    _fail("visited.add(<state id of post_ex>) expected", st)
                return self.go(rest, eff | FE["MARK"], pname, pending_append)
            if f == "next_exs.append":
                if len(call.args) != 1 or _src(call.args[0]) != "post_ex" or pending_append:
                    _fail("next_exs.append(post_ex) expected (once)", st)
                return self.go(rest, eff, pname, True)
            if f in NOOP_CALLS:
                return self.go(rest, eff, pname, pending_append)
            _fail(f"call of `{f}` is not understood", st)
        _fail(f"statement {type(st).__name__} is not understood", st)


def _find_loop(fn):
    """the loop over the result states, with its chain of enclosing statements (all must be `for` loops)"""
    found = []

    def rec(node, chain):
        for ch in ast.iter_child_nodes(node):
            if isinstance(ch, (ast.FunctionDef, ast.AsyncFunctionDef, ast.ClassDef, ast.Lambda)):
                _fail("nested definition in _compute_frontier", ch)
            if isinstance(ch, ast.For) and isinstance(ch.target, ast.Name) and ch.target.id == "post_ex":
                found.append((ch, chain))
            rec(ch, chain + [ch] if isinstance(ch, ast.stmt) else chain)

    rec(fn, [])
    if len(found) != 1:
        _fail(f"expected exactly one `for post_ex in ...` loop in _compute_frontier, found {len(found)}")
    loop, chain = found[0]
    if loop.orelse:
        _fail("the loop over the result states has an else clause", loop)
    for anc in chain:
        if not isinstance(anc, ast.For):
            _fail("the loop over the result states is nested in something else than for loops", anc)
    # nothing in the enclosing loops may skip / end the loop over the result states or swallow what it raises

    def outside(node):
        for ch in ast.iter_child_nodes(node):
            if ch is loop:
                continue
            if isinstance(ch, (ast.Continue, ast.Break, ast.Return, ast.Raise, ast.Try, ast.With, ast.While)):
                _fail("control flow around the loop over the result states is not understood", ch)
            outside(ch)

    for anc in chain:
        outside(anc)
    # ... and the function itself must be the plain generator: no statement after the outermost loop, no try around it
    if chain and fn.body[-1] is not chain[0]:
        _fail("statements after the loop over the frontier states", fn.body[-1])
    for st in fn.body:
        if isinstance(st, (ast.Try, ast.With, ast.While, ast.Return)) or (isinstance(st, ast.If) and any(isinstance(n, (ast.Return, ast.Raise)) for n in ast.walk(st))):
            _fail("the prelude of _compute_frontier may end the computation early", st)
    return loop, chain


def translate(src_text):
    tree = ast.parse(src_text)
    fn = find_function(tree, "_compute_frontier")
    loop, chain = _find_loop(fn)
    # where the result states come from: run_target_contract(ctx, pre_ex, addr), directly or through one local
    it = _src(loop.iter)
    prelude = {}
    for n in ast.walk(fn):
        if isinstance(n, ast.Assign) and len(n.targets) == 1 and isinstance(n.targets[0], ast.Name):
            prelude.setdefault(n.targets[0].id, []).append(_src(n.value))
    if not it.startswith("run_target_contract("):
        if prelude.get(it) is None or len(prelude[it]) != 1 or not prelude[it][0].startswith("run_target_contract("):
            _fail("the result states are not those of run_target_contract(...)", loop)
    for name, want in (("visited", "ctx.visited"), ("panic_error_codes", "args.panic_error_codes"), ("args", "ctx.args")):
        if name in prelude and prelude[name] != [want]:
            _fail(f"`{name}` is not `{want}` (assigned {prelude[name]})")
    # the generator must not be wrapped: every statement of the function body after the loops is absent / no try around
    ex = _Exec()
    body = list(loop.body)
    # the alias of the call context
    text = ex.go(body, 0, None, False)
    # `subcall`-style aliases were inlined; check that the observations really talk about post_ex.context
    lines = [
        "(* GENERATED by translate/t_frontiercls.py from _compute_frontier in src/halmos/__main__.py -- do not edit *)",
        "From Coq Require Import ZArith Bool.",
        "Open Scope Z_scope.",
        "",
        "(* post_ex.is_panic_of(panic_error_codes): True / False / raises *)",
        "Inductive ptri := PTrue | PFalse | PRaise.",
        "",
    ]
    for k, v in FE.items():
        lines.append(f"Definition FE_{k} : Z := {v}.")
    lines += [
        "",
        "(* effects performed on one result state of a target transaction before the iteration ends *)",
        "Definition frontier_step (is_stuck has_error : bool) (panic : ptri) (fail_set probe_reported visited : bool) : Z :=",
        f"  {text}.",
        "",
    ]
    info = {"leaves": ex.n_leaves, "observation_order": ex.order, "panic_evaluated": ex.panic_seen,
            "text": text}
    return "\n".join(lines), info


def selfcheck(info):
    """the names the decision tree relies on exist at run time with the expected meaning"""
    bad = []
    import inspect

    import halmos.__main__ as hm
    from halmos import logs
    from halmos.sevm import CallContext, Exec

    if hm.error is not logs.error:
        bad.append("__main__.error is not logs.error")
    ps = list(inspect.signature(logs.error).parameters.values())
    if [p.name for p in ps] != ["text", "allow_duplicate"] or ps[1].default is not True:
        bad.append(f"logs.error has the signature {inspect.signature(logs.error)}: a plain error(<text>) may be de-duplicated")
    try:
        src = inspect.getsource(logs.error)
        if "logger_for(allow_duplicate).error(text)" not in src:
            bad.append("logs.error does not log at ERROR level through logger_for(allow_duplicate)")
    except OSError:
        bad.append("no source for logs.error")
    for cls, name in ((CallContext, "is_stuck"), (CallContext, "get_stuck_reason"), (Exec, "is_panic_of"), (Exec, "path_slice")):
        if not callable(getattr(cls, name, None)):
            bad.append(f"{cls.__name__}.{name} does not exist")
    if not callable(getattr(hm, "is_global_fail_set", None)) or not callable(getattr(hm, "get_state_id", None)):
        bad.append("is_global_fail_set / get_state_id missing")
    return bad
