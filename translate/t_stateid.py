"""T-stateid: /repo/src/halmos/cheatcodes.py -> coq/Gen/GenStateId.v

Regenerates `snapshot_state` (the digest behind get_state_id, i.e. what the `visited` set of
the invariant frontier compares) from the source text, statement by statement (ast,
fail-closed), as Gallina over Model/StateIdModel.v:

    snapshot_inputs include_path ex : list (list (item D128))   the hash input of each of the
                                                                concatenated digests, in the
                                                                order of the returned ByteVec
    snapshot_raises include_path ex : bool                      `raise ValueError("path not yet sliced")`
    snapshot_state  include_path ex : option (list D64)         None = raises

The body is read as a straight-line program over hash accumulators:
    X = xxh3_64_digest(ITEM)              one-shot digest of one item
    m = xxh3_64()                         new accumulator (the name may be rebound)
    m.update(ITEM)                        append an item
    for <vars> in ITER: <updates / ifs>   flat_map over ITER
    if COND: <updates / loops / raise>    guarded part (no else)
    X = m.digest()
    return ByteVec(X1 + X2 + ...)
  ITEM  = int.to_bytes(VAL, length=32)  |  <storage>.digest()
  VAL   = ex.balance.get_id() | int_of(<addr>) | id(<code object>) | <term>.get_id() | <int variable>
          | BV(<block field>).as_z3().get_id()
  ITER  = ex.code.items() | ex.storage.items() | enumerate(ex.path.conditions) | ex.path.conditions
          | sorted(ex.path.sliced) | (<blk>.basefee, <blk>.number, ...) with <blk> = ex.block or an alias of it
  COND  = include_path | <int> in ex.path.sliced | ex.path.sliced is None | isinstance(<key>, int)
Anything else raises TranslateError.  The intermediate representation is also interpreted in
Python (with the real xxhash) by `selfcheck`, against the imported function on fabricated
states.  The same engine serves T-storedigest (StorageData.digest in sevm.py).
"""
import ast

from .pyexpr import TranslateError, find_function

NAME = "T-stateid"
SRC = "cheatcodes.py"
OUT = "GenStateId.v"


def _fail(node, why):
    try:
        src = ast.unparse(node)
    except Exception:  # noqa: BLE001
        src = repr(node)
    raise TranslateError(f"hash-program translator: unsupported shape ({why}): {src!r} at line {getattr(node, 'lineno', '?')}")


def _neg(c):
    """negation of a condition, without stacking double negations"""
    return c[1] if c[0] == "not" else ("not", c)


def _is_attr_chain(n, names):
    """n == names[0].names[1]...."""
    for name in reversed(names[1:]):
        if not (isinstance(n, ast.Attribute) and n.attr == name):
            return False
        n = n.value
    return isinstance(n, ast.Name) and n.id == names[0]


# --------------------------------------------------------------------------- IR
# ops:   ("item", ITEM) | ("for", ITERKIND, [var kinds], [ops]) | ("if", COND, [ops]) | ("raise", tag)
# ITEM:  ("w32", VAL) | ("dg", var)
# VAL:   ("balance",) | ("var", name)            (name is an IR variable of kind int)
# COND:  ("param", name) | ("in_sliced", VAL) | ("sliced_none",) | ("key_is_int", var) | ("not", COND)

ITERS = {
    # kind -> (gallina list expression, [kind of each bound variable])
    "code_items": ("(x_code ex)", ["addr", "codeobj"]),
    "storage_items": ("(x_storage ex)", ["addr", "storageobj"]),
    "enum_conds": ("(enumerate (x_conds ex))", ["int", "term"]),
    "conds": ("(x_conds ex)", ["term"]),
    "sorted_sliced": ("(zsorted (sliced_set ex))", ["int"]),
    "mapping_items": ("self", ["key", "term"]),
    "key_tuple": (None, ["int"]),
    "block_fields": (None, ["blockfield"]),
}

BLOCK_FIELDS = {"basefee": "BBasefee", "chainid": "BChainid", "coinbase": "BCoinbase", "difficulty": "BDifficulty",
                "gaslimit": "BGaslimit", "number": "BNumber", "timestamp": "BTimestamp"}


class HashProgram:
    """Symbolic reading of a function body as a program over hash accumulators."""

    def __init__(self, hasher_ctor, oneshot, bool_params=(), self_mode=False):
        self.hasher_ctor = hasher_ctor      # e.g. "xxh3_64" / ("xxhash", "xxh3_128")
        self.oneshot = oneshot              # e.g. "xxh3_64_digest" or None
        self.bool_params = set(bool_params)
        self.self_mode = self_mode
        self.env = {}                       # python name -> ("acc", ops list) | ("digest", ops list) | ("var", kind, irname)
        self.nvar = 0
        self.narrowed = {}                  # irname -> "int" | "tuple" (after isinstance(key, int))

    # ---- expressions
    def val(self, n):
        if isinstance(n, ast.Call) and not n.keywords:
            f = n.func
            if isinstance(f, ast.Attribute) and f.attr == "get_id" and not n.args:
                if _is_attr_chain(f.value, ["ex", "balance"]):
                    return ("balance",)
                # BV(<block field>).as_z3().get_id(): the id of the term held in the field (ints / BV / z3 alike)
                g = f.value
                if isinstance(g, ast.Call) and not g.args and not g.keywords and isinstance(g.func, ast.Attribute) and g.func.attr == "as_z3" \
                        and isinstance(g.func.value, ast.Call) and isinstance(g.func.value.func, ast.Name) and g.func.value.func.id == "BV" \
                        and len(g.func.value.args) == 1 and not g.func.value.keywords:
                    return ("var", self.var(g.func.value.args[0], "blockfield"))
                v = self.var(f.value, "term")
                return ("var", v)
            if isinstance(f, ast.Name) and f.id == "int_of" and len(n.args) == 1:
                return ("var", self.var(n.args[0], "addr"))
            if isinstance(f, ast.Name) and f.id == "id" and len(n.args) == 1:
                return ("var", self.var(n.args[0], "codeobj"))
        if isinstance(n, ast.Name):
            e = self.env.get(n.id)
            if e and e[0] == "var" and (e[1] == "int" or (e[1] == "key" and self.narrowed.get(e[2]) == "int")):
                return ("var", e[2])
        _fail(n, "value fed to int.to_bytes")

    def var(self, n, kind):
        if isinstance(n, ast.Name):
            e = self.env.get(n.id)
            if e and e[0] == "var" and e[1] == kind:
                return e[2]
        _fail(n, f"expected a variable of kind {kind}")

    def item(self, n):
        # int.to_bytes(VAL, length=32)
        if isinstance(n, ast.Call) and _is_attr_chain(n.func, ["int", "to_bytes"]) and len(n.args) == 1 \
                and len(n.keywords) == 1 and n.keywords[0].arg == "length" and isinstance(n.keywords[0].value, ast.Constant) and n.keywords[0].value.value == 32:
            return ("w32", self.val(n.args[0]))
        # <storage>.digest()
        if isinstance(n, ast.Call) and isinstance(n.func, ast.Attribute) and n.func.attr == "digest" and not n.args and not n.keywords:
            return ("dg", self.var(n.func.value, "storageobj"))
        _fail(n, "hash item")

    def cond(self, n):
        if isinstance(n, ast.Name) and n.id in self.bool_params:
            return ("param", n.id)
        if isinstance(n, ast.Compare) and len(n.ops) == 1:
            op, r = n.ops[0], n.comparators[0]
            if isinstance(op, (ast.In, ast.NotIn)) and _is_attr_chain(r, ["ex", "path", "sliced"]):
                c = ("in_sliced", self.val(n.left))
                return c if isinstance(op, ast.In) else _neg(c)
            if isinstance(op, (ast.Is, ast.IsNot)) and _is_attr_chain(n.left, ["ex", "path", "sliced"]) and isinstance(r, ast.Constant) and r.value is None:
                return ("sliced_none",) if isinstance(op, ast.Is) else _neg(("sliced_none",))
        if isinstance(n, ast.Call) and isinstance(n.func, ast.Name) and n.func.id == "isinstance" and len(n.args) == 2 \
                and isinstance(n.args[1], ast.Name) and n.args[1].id == "int":
            return ("key_is_int", self.var(n.args[0], "key"))
        if isinstance(n, ast.UnaryOp) and isinstance(n.op, ast.Not):
            return _neg(self.cond(n.operand))
        _fail(n, "condition")

    def iterable(self, n):
        if isinstance(n, ast.Call) and not n.keywords:
            f = n.func
            if isinstance(f, ast.Attribute) and f.attr == "items" and not n.args:
                if _is_attr_chain(f.value, ["ex", "code"]):
                    return "code_items", None
                if _is_attr_chain(f.value, ["ex", "storage"]):
                    return "storage_items", None
                if self.self_mode and _is_attr_chain(f.value, ["self", "_mapping"]):
                    return "mapping_items", None
            if isinstance(f, ast.Name) and f.id == "enumerate" and len(n.args) == 1 and _is_attr_chain(n.args[0], ["ex", "path", "conditions"]):
                return "enum_conds", None
            if isinstance(f, ast.Name) and f.id == "sorted" and len(n.args) == 1 and _is_attr_chain(n.args[0], ["ex", "path", "sliced"]):
                return "sorted_sliced", None
        if _is_attr_chain(n, ["ex", "path", "conditions"]):
            return "conds", None
        if isinstance(n, (ast.Tuple, ast.List)) and n.elts:
            flds = []
            for e in n.elts:
                if isinstance(e, ast.Attribute) and e.attr in BLOCK_FIELDS and (
                        _is_attr_chain(e.value, ["ex", "block"]) or (isinstance(e.value, ast.Name) and self.env.get(e.value.id) == ("alias", "block"))):
                    flds.append(e.attr)
                else:
                    _fail(e, "element of a tuple of block fields")
            return "block_fields", flds
        if isinstance(n, ast.Name):
            e = self.env.get(n.id)
            if e and e[0] == "var" and e[1] == "key" and self.narrowed.get(e[2]) == "tuple":
                return "key_tuple", e[2]
        _fail(n, "iterable")

    # ---- statements
    def fresh(self, hint):
        self.nvar += 1
        return f"v{self.nvar}_{''.join(ch for ch in hint if ch.isalnum() or ch == '_')}"

    def is_ctor(self, n):
        if not (isinstance(n, ast.Call) and not n.args and not n.keywords):
            return False
        c = self.hasher_ctor
        if isinstance(c, tuple):
            return _is_attr_chain(n.func, list(c))
        return isinstance(n.func, ast.Name) and n.func.id == c

    def block(self, stmts, acc_name, toplevel=False, in_loop=False):
        """Translates statements that may only touch the accumulator `acc_name` (None at top
        level: any); returns the list of ops appended to it (top level: returns nothing)."""
        ops = []
        for pos, st in enumerate(stmts):
            if isinstance(st, ast.Expr) and isinstance(st.value, ast.Constant) and isinstance(st.value.value, str):
                continue  # docstring
            # `if COND: continue` directly in a loop body: the rest of the body runs under `not COND`
            if in_loop and isinstance(st, ast.If) and not st.orelse and len(st.body) == 1 and isinstance(st.body[0], ast.Continue):
                c = self.cond(st.test)
                if c[0] == "key_is_int":
                    _fail(st, "continue on a key test")
                ops.append(("if", _neg(c), self.block(stmts[pos + 1:], acc_name, in_loop=True)))
                return ops
            # m.update(ITEM)
            if isinstance(st, ast.Expr) and isinstance(st.value, ast.Call) and isinstance(st.value.func, ast.Attribute) and st.value.func.attr == "update" \
                    and isinstance(st.value.func.value, ast.Name) and len(st.value.args) == 1 and not st.value.keywords:
                m = st.value.func.value.id
                e = self.env.get(m)
                if not e or e[0] != "acc":
                    _fail(st, "update of something that is not a live accumulator")
                if acc_name is not None and m != acc_name:
                    _fail(st, "a nested block feeds a different accumulator")
                op = ("item", self.item(st.value.args[0]))
                (e[1] if toplevel else ops).append(op)
                continue
            if isinstance(st, ast.Assign) and len(st.targets) == 1 and isinstance(st.targets[0], ast.Name) and _is_attr_chain(st.value, ["ex", "block"]):
                if st.targets[0].id in self.env:
                    _fail(st, "alias rebinds a name")
                self.env[st.targets[0].id] = ("alias", "block")
                continue
            if isinstance(st, ast.For) and not st.orelse:
                kind, src = self.iterable(st.iter)
                kinds = ITERS[kind][1]
                tg = st.target
                names = [tg] if isinstance(tg, ast.Name) else (list(tg.elts) if isinstance(tg, ast.Tuple) else None)
                if names is None or len(names) != len(kinds) or not all(isinstance(x, ast.Name) for x in names):
                    _fail(st, "loop target does not match the iterable")
                saved = dict(self.env)
                irs = []
                for x, k in zip(names, kinds):
                    ir = self.fresh(x.id)
                    irs.append(ir)
                    self.env[x.id] = ("var", k, ir)
                acc = acc_name or self._single_acc(st)
                if acc is None:
                    _fail(st, "loop without accumulator")
                body = self.block(st.body, acc, in_loop=True)
                self.env = saved
                op = ("for", kind, src, irs, body)
                (self.env[acc][1] if toplevel else ops).append(op)
                continue
            if isinstance(st, ast.If):
                c = self.cond(st.test)
                acc = acc_name or self._single_acc(st)
                saved_n = dict(self.narrowed)
                if c[0] == "key_is_int":
                    self.narrowed[c[1]] = "int"
                body = self.block(st.body, acc)
                out = [("if", c, body)]
                if st.orelse:
                    self.narrowed = dict(saved_n)
                    if c[0] == "key_is_int":
                        self.narrowed[c[1]] = "tuple"
                    out.append(("if", _neg(c), self.block(st.orelse, acc)))
                self.narrowed = saved_n
                if acc is None:
                    # a block without accumulator updates: only `raise` is allowed in it
                    if any(o[0] != "raise" for o in body) or st.orelse:
                        _fail(st, "conditional without accumulator")
                    self.raises_top.extend(out) if toplevel else ops.extend(out)
                else:
                    (self.env[acc][1] if toplevel else ops).extend(out)
                continue
            if isinstance(st, ast.Raise):
                ops.append(("raise", ast.unparse(st.exc) if st.exc else ""))
                if toplevel:
                    _fail(st, "unconditional raise")
                continue
            if toplevel and isinstance(st, ast.Assign) and len(st.targets) == 1 and isinstance(st.targets[0], ast.Name):
                name, v = st.targets[0].id, st.value
                if self.is_ctor(v):
                    self.env[name] = ("acc", [])
                    continue
                if self.oneshot and isinstance(v, ast.Call) and isinstance(v.func, ast.Name) and v.func.id == self.oneshot and len(v.args) == 1 and not v.keywords:
                    self.env[name] = ("digest", [("item", self.item(v.args[0]))])
                    continue
                if isinstance(v, ast.Call) and isinstance(v.func, ast.Attribute) and v.func.attr == "digest" and not v.args and not v.keywords \
                        and isinstance(v.func.value, ast.Name) and self.env.get(v.func.value.id, (None,))[0] == "acc":
                    self.env[name] = ("digest", list(self.env[v.func.value.id][1]))
                    continue
            if toplevel and isinstance(st, ast.Return):
                self.ret = st.value
                if st is not stmts[-1]:
                    _fail(st, "return before the end")
                continue
            _fail(st, "statement")
        return ops

    def _single_acc(self, st):
        """the accumulator a compound statement updates (exactly one, or None)"""
        accs = set()
        for n in ast.walk(st):
            if isinstance(n, ast.Call) and isinstance(n.func, ast.Attribute) and n.func.attr == "update" and isinstance(n.func.value, ast.Name):
                accs.add(n.func.value.id)
        if len(accs) > 1:
            _fail(st, "a compound statement feeds several accumulators")
        for a in accs:
            if self.env.get(a, (None,))[0] != "acc":
                _fail(st, "update of something that is not a live accumulator")
        return next(iter(accs), None)

    def run(self, fn):
        self.ret = None
        self.raises_top = []
        self.block(fn.body, None, toplevel=True)
        if self.ret is None:
            raise TranslateError(f"{fn.name}: no return statement")
        return self.ret


# --------------------------------------------------------------------------- IR -> Gallina

def g_val(v):
    return "(x_balance ex)" if v[0] == "balance" else v[1]


def g_cond(c):
    k = c[0]
    if k == "param":
        return c[1]
    if k == "in_sliced":
        return f"(zmem {g_val(c[1])} (sliced_set ex))"
    if k == "sliced_none":
        return "(sliced_is_none ex)"
    if k == "key_is_int":
        return f"(key_is_int {c[1]})"
    if k == "not":
        return f"(negb {g_cond(c[1])})"
    raise TranslateError(f"condition {c}")


def g_ops(ops, narrowed=None):
    """list-of-items expression"""
    narrowed = narrowed or {}
    parts = []
    for op in ops:
        k = op[0]
        if k == "item":
            it = op[1]
            if it[0] == "w32":
                v = it[1]
                txt = g_val(v)
                if v[0] == "var" and narrowed.get(v[1]) == "int":
                    txt = f"(key_int {v[1]})"
                parts.append(f"[W {txt}]")
            else:
                parts.append(f"[Dg (digest {it[1]})]")
        elif k == "for":
            _, kind, src, irs, body = op
            if kind == "block_fields":
                lst = "(block_ids ex [" + "; ".join(BLOCK_FIELDS[x] for x in src) + "])"
            else:
                lst = ITERS[kind][0] if kind != "key_tuple" else f"(key_tuple {src})"
            if len(irs) == 1:
                parts.append(f"(flat_map (fun {irs[0]} => {g_ops(body, narrowed)}) {lst})")
            else:
                parts.append(f"(flat_map (fun p => let {irs[0]} := fst p in let {irs[1]} := snd p in {g_ops(body, narrowed)}) {lst})")
        elif k == "if":
            c = op[1]
            n2 = dict(narrowed)
            if c[0] == "key_is_int":
                n2[c[1]] = "int"
            parts.append(f"(if {g_cond(c)} then {g_ops(op[2], n2)} else [])")
        elif k == "raise":
            pass  # accounted for by g_raises
        else:
            raise TranslateError(f"op {op}")
    return "(" + " ++ ".join(parts) + ")" if parts else "[]"


def g_raises(ops):
    """bool expression: does running ops raise?  (loops containing a raise are rejected)"""
    parts = []
    for op in ops:
        if op[0] == "raise":
            parts.append("true")
        elif op[0] == "if":
            inner = g_raises(op[2])
            if inner != "false":
                parts.append(f"({g_cond(op[1])} && {inner})")
        elif op[0] == "for":
            if g_raises(op[4]) != "false":
                raise TranslateError("raise inside a loop")
    return "(" + " || ".join(parts) + ")" if parts else "false"


# --------------------------------------------------------------------------- IR -> Python (selfcheck)

def py_ops(ops, st, env, hasher, digest):
    """feeds `hasher` as the real function would; raises ValueError for ("raise")."""
    def val(v):
        return st["balance"] if v[0] == "balance" else env[v[1]]

    def cond(c):
        k = c[0]
        if k == "param":
            return env[c[1]]
        if k == "in_sliced":
            return val(c[1]) in (st["sliced"] or ())
        if k == "sliced_none":
            return st["sliced"] is None
        if k == "key_is_int":
            return isinstance(env[c[1]], int)
        if k == "not":
            return not cond(c[1])
        raise AssertionError(c)

    for op in ops:
        k = op[0]
        if k == "item":
            it = op[1]
            hasher.update(int.to_bytes(val(it[1]), length=32) if it[0] == "w32" else digest(env[it[1]]))
        elif k == "for":
            _, kind, src, irs, body = op
            seq = {"code_items": lambda: st["code"], "storage_items": lambda: st["storage"],
                   "enum_conds": lambda: list(enumerate(st["conds"])), "conds": lambda: [(c,) for c in st["conds"]],
                   "sorted_sliced": lambda: [(i,) for i in sorted(st["sliced"])],
                   "mapping_items": lambda: st["mapping"], "key_tuple": lambda: [(x,) for x in env[src]],
                   "block_fields": lambda: [(st["block"][x],) for x in src]}[kind]()
            for tup in seq:
                e2 = dict(env)
                for ir, x in zip(irs, tup):
                    e2[ir] = x
                py_ops(body, st, e2, hasher, digest)
        elif k == "if":
            if cond(op[1]):
                py_ops(op[2], st, env, hasher, digest)
        elif k == "raise":
            raise ValueError("modelled raise")


# --------------------------------------------------------------------------- this translator

HEADER = """(* GENERATED by translate/t_stateid.py from src/halmos/cheatcodes.py (snapshot_state) -- do not edit *)
From Coq Require Import ZArith List Bool.
From HV Require Import Spec.StateIdSpec Model.StateIdModel.
Import ListNotations.
Open Scope Z_scope.

Section GenStateId.
  Context {D64 D128 : Type}.
  Variable H64 : list (item D128) -> D64.        (* xxh3_64 of the concatenated items *)
  Variable digest : xstorage -> D128.            (* StorageData.digest, see Gen/GenStorageDigest.v *)
"""


def translate(text):
    tree = ast.parse(text)
    fn = find_function(tree, "snapshot_state")
    params = [a.arg for a in fn.args.args]
    if params[:1] != ["ex"] or "include_path" not in params:
        raise TranslateError(f"snapshot_state: unexpected parameters {params}")
    hp = HashProgram("xxh3_64", "xxh3_64_digest", bool_params=["include_path"])
    ret = hp.run(fn)
    # return ByteVec(A + B + ...)
    if not (isinstance(ret, ast.Call) and isinstance(ret.func, ast.Name) and ret.func.id == "ByteVec" and len(ret.args) == 1 and not ret.keywords):
        _fail(ret, "return value")
    names = []

    def flat(n):
        if isinstance(n, ast.BinOp) and isinstance(n.op, ast.Add):
            flat(n.left)
            flat(n.right)
        elif isinstance(n, ast.Name) and hp.env.get(n.id, (None,))[0] == "digest":
            names.append(n.id)
        else:
            _fail(n, "returned concatenation")

    flat(ret.args[0])
    sections = [hp.env[n][1] for n in names]
    raise_ops = list(hp.raises_top) + [op for s in sections for op in s]
    out = [HEADER]
    for i, s in enumerate(sections):
        out.append(f"  Definition snapshot_input_{i} (include_path : bool) (ex : xstate) : list (item D128) :=\n    {g_ops(s)}.\n")
    out.append("  Definition snapshot_inputs (include_path : bool) (ex : xstate) : list (list (item D128)) :=\n    ["
               + "; ".join(f"snapshot_input_{i} include_path ex" for i in range(len(sections))) + "].\n")
    out.append(f"  Definition snapshot_raises (include_path : bool) (ex : xstate) : bool :=\n    {g_raises(raise_ops)}.\n")
    out.append("  Definition snapshot_state (include_path : bool) (ex : xstate) : option (list D64) :=\n"
               "    if snapshot_raises include_path ex then None else Some (map H64 (snapshot_inputs include_path ex)).\n")
    out.append("End GenStateId.\n")
    # get_state_id(ex) = snapshot_state(ex, include_path=True) lives in __main__.py; checked in selfcheck
    info = {"sections": sections, "raise_ops": raise_ops, "names": names}
    return "\n".join(out), info


def _fake_exec(st, digest_fn):
    from types import SimpleNamespace as NS

    class Term:
        def __init__(self, i):
            self.i = i

        def get_id(self):
            return self.i

        def __hash__(self):
            return hash(("t", self.i))

        def __eq__(self, o):
            return isinstance(o, Term) and o.i == self.i

    class Stor:
        def __init__(self, m):
            self.m = m

        def digest(self):
            return digest_fn(self.m)

    code = {a: c for a, c in st["code_objs"]}
    storage = {a: Stor(m) for a, m in st["storage"]}
    conds = {Term(c): True for c in st["conds"]}
    return NS(balance=Term(st["balance"]), code=code, storage=storage, block=NS(**st["block_terms"]),
              path=NS(conditions=conds, sliced=None if st["sliced"] is None else set(st["sliced"])))


def selfcheck(info):
    """the IR, interpreted with the real xxhash, against the imported snapshot_state / get_state_id on
    fabricated states"""
    import inspect
    import random

    import xxhash

    import halmos.__main__ as hm
    from halmos import cheatcodes as cc

    bad = []
    src = inspect.getsource(hm.get_state_id)
    t = ast.parse(src).body[0]
    rets = [n for n in ast.walk(t) if isinstance(n, ast.Return)]
    if len(rets) != 1 or ast.unparse(rets[0].value) != "snapshot_state(ex, include_path=True).unwrap()":
        bad.append("get_state_id is no longer `snapshot_state(ex, include_path=True).unwrap()`")
    r = random.Random(15)
    keepalive = []

    def digest_fn(m):
        return xxhash.xxh3_128(repr(m).encode()).digest()

    for trial in range(60):
        nconds = r.randint(0, 5)
        objs = [object() for _ in range(3)]
        st = {"balance": r.randrange(1 << 40),
              "code_objs": [(0xAAAA0000 + i, objs[i]) for i in range(r.randint(0, 3))],
              "storage": [(0xAAAA0000 + i, r.randrange(1 << 30)) for i in range(r.randint(0, 3))],
              "conds": r.sample(range(1000, 1100), nconds),
              "sliced": None if trial % 7 == 3 else r.sample(range(nconds + 2), r.randint(0, nconds))}
        st["code"] = [(a, id(o)) for a, o in st["code_objs"]]
        # block fields: ints, z3 values and z3 symbols alike (cheatcodes store what they are given)
        import z3

        terms = {}
        for fld in BLOCK_FIELDS:
            k = r.randrange(3)
            terms[fld] = r.randrange(1, 50) if k == 0 else z3.BitVecVal(r.randrange(1, 50), 256) if k == 1 else z3.BitVec(f"t_stateid_{fld}_{r.randrange(3)}", 256)
        keepalive.append(terms)
        st["block_terms"] = terms
        st["block"] = {fld: (z3.BitVecVal(t, 256) if isinstance(t, int) else t).get_id() for fld, t in terms.items()}
        keepalive.append([z3.BitVecVal(t, 256) for t in terms.values() if isinstance(t, int)])
        ex = _fake_exec(st, digest_fn)
        for inc in (True, False):
            try:
                real = bytes(cc.snapshot_state(ex, include_path=inc).unwrap())
            except ValueError:
                real = "raise"
            try:
                py_ops(info["raise_ops"], st, {"include_path": inc}, xxhash.xxh3_64(), digest_fn)
                mine = b""
                for sec in info["sections"]:
                    h = xxhash.xxh3_64()
                    py_ops([op for op in sec], st, {"include_path": inc}, h, digest_fn)
                    mine += h.digest()
            except ValueError:
                mine = "raise"
            if real != mine:
                bad.append(f"snapshot_state(include_path={inc}) on fabricated state {trial}: implementation {real!r}, translated program {mine!r}")
                break
    return bad[:3]
