"""T-dispatch: the arithmetic / comparison / bitwise arms of the instruction dispatch in SEVM.run
(src/halmos/sevm.py, with the helpers SEVM.arith and bitwise) -> coq/Gen/GenDispatch.v

For every opcode that computes a word from stack words the arm is executed *abstractly* on a
stack [s0 (top); s1; s2]: pops bind names, `state.top()/topi()` reads without popping, and the
single pushed / set_top'ed result must be one method call on the word type.  The outcome per
opcode is  (method, receiver position, argument positions)  e.g.
    SUB -> sub  recv=0 args=[1]        (w1 = popi(); set_top(w1.sub(topi())))
    SHL -> lshl recv=1 args=[0]        (w1 = popi(); set_top(topi().lshl(w1)))
emitted as the table `dispatch : Z -> option (meth * nat * list nat)`.  Proofs/DispatchProofs.v
proves, for every decoded instruction of Spec/Evm.v, that the method applied to those operands in
that order IS the instruction's EVM semantics: a swapped operand, a wrong method or a missing arm
in the source makes the regenerated table differ and the theorem fail.  Fail-closed on every other
statement shape.  (The semantics of the methods themselves is property C06.)
"""
import ast

from .pyexpr import TranslateError, find_function

NAME = "T-dispatch"
SRC = "sevm.py"
OUT = "GenDispatch.v"

OPCODES = {"ADD": 1, "MUL": 2, "SUB": 3, "DIV": 4, "SDIV": 5, "MOD": 6, "SMOD": 7, "ADDMOD": 8, "MULMOD": 9, "EXP": 10, "SIGNEXTEND": 11,
           "LT": 16, "GT": 17, "SLT": 18, "SGT": 19, "EQ": 20, "ISZERO": 21, "AND": 22, "OR": 23, "XOR": 24, "NOT": 25, "BYTE": 26,
           "SHL": 27, "SHR": 28, "SAR": 29}
METHODS = ["add", "sub", "mul", "div", "sdiv", "mod", "smod", "exp", "signextend", "ult", "ugt", "slt", "sgt", "eq", "is_zero",
           "bitwise_and", "bitwise_or", "bitwise_xor", "bitwise_not", "byte", "lshl", "lshr", "ashr", "addmod", "mulmod"]


def _src(n):
    return " ".join(ast.unparse(n).split())


class Sym:
    def __init__(self, pos):
        self.pos = pos


class Arm:
    """abstract execution of one dispatch arm"""

    def __init__(self, opname, helpers):
        self.op = opname
        self.helpers = helpers          # {'arith': {OP: (method, order)}, 'bitwise': {...}}
        self.depth = 0                  # how many words have been popped
        self.env = {}
        self.result = None

    def fail(self, msg):
        raise TranslateError(f"dispatch arm OP_{self.op}: {msg}")

    def pop(self):
        self.depth += 1
        return Sym(self.depth - 1)

    def top(self):
        return Sym(self.depth)

    def value(self, node):
        """an expression denoting a stack word -> Sym"""
        s = _src(node)
        if s in ("state.popi()", "state.pop()"):
            return self.pop()
        if s in ("state.topi()", "state.top()"):
            return self.top()
        if isinstance(node, ast.Name) and node.id in self.env:
            return self.env[node.id]
        # wrappers that do not change the word: int_of(x, msg), BV(x, size=256), x.value, x.as_z3(), int(x)
        if isinstance(node, ast.Call) and _src(node.func) == "ex.int_of" and len(node.args) == 2:
            return self.value(node.args[0])
        if isinstance(node, ast.Call) and _src(node.func) == "BV" and len(node.args) == 1 and [k.arg for k in node.keywords] == ["size"]:
            return self.value(node.args[0])
        if isinstance(node, ast.Attribute) and node.attr == "value":
            return self.value(node.value)
        if isinstance(node, ast.Call) and isinstance(node.func, ast.Attribute) and node.func.attr == "as_z3" and not node.args:
            return self.value(node.func.value)
        self.fail(f"not a stack word: {s[:80]!r}")

    def call(self, node):
        """the computing expression -> (method, recv pos, [arg pos])"""
        if not isinstance(node, ast.Call):
            self.fail(f"a method call is expected, found {_src(node)[:80]!r}")
        f = _src(node.func)
        if f == "self.arith":
            if len(node.args) != 4 or _src(node.args[0]) != "ex" or _src(node.args[1]) != "opcode":
                self.fail("self.arith(ex, opcode, a, b) expected")
            a, b = self.value(node.args[2]), self.value(node.args[3])
            m, order = self.helpers["arith"].get(self.op) or self.fail("SEVM.arith has no case for it")
            ws = {"w1": a, "w2": b}
            return m, ws[order[0]].pos, [ws[x].pos for x in order[1:]]
        if f == "bitwise":
            if len(node.args) != 3 or _src(node.args[0]) != f"OP_{self.op}":
                self.fail(f"bitwise(OP_{self.op}, a, b) expected")
            a, b = self.value(node.args[1]), self.value(node.args[2])
            m, order = self.helpers["bitwise"].get(self.op) or self.fail("bitwise() has no case for it")
            ws = {"x": a, "y": b}
            return m, ws[order[0]].pos, [ws[x].pos for x in order[1:]]
        if f == "self.sym_byte_of":
            # symbolic index: same operands as the concrete branch (checked by the caller)
            a, b = self.value(node.args[0]), self.value(node.args[1])
            return "byte", b.pos, [a.pos]
        if isinstance(node.func, ast.Attribute):
            m = node.func.attr
            if m not in METHODS:
                self.fail(f"unknown word method {m!r}")
            recv = self.value(node.func.value)
            args = [self.value(a) for a in node.args]
            for k in node.keywords:
                if k.arg not in ("abstraction", "mul_abstraction", "mod_abstraction", "exp_abstraction", "smt_exp_by_const", "output_size"):
                    self.fail(f"unexpected keyword {k.arg}")
            return m, recv.pos, [a.pos for a in args]
        self.fail(f"unsupported computing expression {_src(node)[:80]!r}")

    def set_result(self, r, consumed):
        if self.result is not None and self.result != (r, consumed):
            self.fail(f"two different results: {self.result} and {(r, consumed)}")
        self.result = (r, consumed)

    def run(self, stmts):
        for st in stmts:
            if isinstance(st, ast.Expr) and isinstance(st.value, ast.Call) and _src(st.value.func) == "debug_once":
                continue
            if isinstance(st, (ast.Assign, ast.AnnAssign)):
                tgt = st.targets[0] if isinstance(st, ast.Assign) else st.target
                if not isinstance(tgt, ast.Name):
                    self.fail(f"assignment target {_src(tgt)}")
                if tgt.id in ("newsize",):
                    continue
                if tgt.id == "result":
                    self.env["result"] = ("call", self.call(st.value))
                    continue
                self.env[tgt.id] = self.value(st.value)
                continue
            if isinstance(st, ast.Expr) and isinstance(st.value, ast.Call):
                f = _src(st.value.func)
                if f in ("state.set_top",) and len(st.value.args) == 1:
                    r = self.call(st.value.args[0])
                    self.set_result(r, self.depth + 1)      # replaces the current top
                    continue
                if f in ("state.push", "state.push_any") and len(st.value.args) == 1:
                    a = st.value.args[0]
                    if isinstance(a, ast.Name) and isinstance(self.env.get(a.id), tuple):
                        r = self.env[a.id][1]
                    else:
                        r = self.call(a)
                    self.set_result(r, self.depth)
                    continue
            if isinstance(st, ast.If):
                # both branches must compute the same thing from the same operands (BYTE: concrete / symbolic index)
                d0 = self.depth
                self.run(st.body)
                self.depth = d0
                self.run(st.orelse)
                continue
            if isinstance(st, ast.Match):
                d0 = self.depth
                for case in st.cases:
                    self.depth = d0
                    self.run(case.body)
                continue
            self.fail(f"unsupported statement {_src(st)[:100]!r}")


def helper_table(fn, params):
    """`if op == OP_X: return a.m(b, ...)` / `term = a.m(b, ...) ... return term`  ->  {X: (m, [recv, args...])}"""
    out = {}

    def expr_of(body):
        env = {}
        for st in body:
            if isinstance(st, ast.Assign) and isinstance(st.targets[0], ast.Name) and isinstance(st.value, ast.Call):
                env[st.targets[0].id] = st.value
            elif isinstance(st, ast.Return):
                v = st.value
                if isinstance(v, ast.Name) and v.id in env:
                    v = env[v.id]
                return v
        return None

    def walk(stmts):
        for st in stmts:
            if isinstance(st, ast.If) and isinstance(st.test, ast.Compare) and _src(st.test.left) == "op" and len(st.test.ops) == 1 and isinstance(st.test.ops[0], ast.Eq):
                name = _src(st.test.comparators[0])
                if not name.startswith("OP_"):
                    raise TranslateError(f"{fn.name}: unexpected case {name}")
                v = expr_of(st.body)
                if not (isinstance(v, ast.Call) and isinstance(v.func, ast.Attribute) and isinstance(v.func.value, ast.Name) and v.func.value.id in params
                        and all(isinstance(a, ast.Name) and a.id in params for a in v.args)):
                    raise TranslateError(f"{fn.name}: case {name} is not `return a.method(b)`: {_src(st)[:120]!r}")
                if v.func.attr not in METHODS:
                    raise TranslateError(f"{fn.name}: unknown method {v.func.attr}")
                out[name[3:]] = (v.func.attr, [v.func.value.id] + [a.id for a in v.args])
                walk(st.orelse)
    walk(fn.body)
    return out


def arms_of(run_fn):
    """{opname: body} for `elif opcode == OP_X:` and the range arm OP_MUL..OP_SMOD"""
    arms = {}
    heads = [n for n in ast.walk(run_fn) if isinstance(n, ast.If) and _src(n.test) == "OP_PUSH1 <= opcode <= OP_PUSH31"]
    if len(heads) != 1:
        raise TranslateError(f"SEVM.run: {len(heads)} dispatch chains found (an `if OP_PUSH1 <= opcode <= OP_PUSH31` head is expected)")
    chain, node = [], heads[0]
    while True:
        chain.append(node)
        if len(node.orelse) == 1 and isinstance(node.orelse[0], ast.If):
            node = node.orelse[0]
        else:
            break
    for node in chain:
        t = _src(node.test)
        if t.startswith("opcode == OP_") and t[len("opcode == OP_"):] in OPCODES:
            name = t[len("opcode == OP_"):]
            if name in arms:
                raise TranslateError(f"two arms for OP_{name}")
            arms[name] = node.body
        elif t == "OP_MUL <= opcode <= OP_SMOD":
            for name in ("MUL", "SUB", "DIV", "SDIV", "MOD", "SMOD"):
                if name in arms and name != "SUB":
                    raise TranslateError(f"two arms for OP_{name}")
                arms.setdefault(name, node.body)   # an earlier dedicated arm (SUB) wins: the chain is if/elif
    return arms


def translate(src_text):
    tree = ast.parse(src_text)
    run_fn = find_function(tree, "run", cls="SEVM")
    helpers = {"arith": helper_table(find_function(tree, "arith", cls="SEVM"), {"w1", "w2"})}
    bw = find_function(tree, "bitwise")
    # bitwise(): mixed Bool/BV operands are first converted (same order), then one `if/elif` chain on op
    if _src(bw.body[0]) != "if type(x) is not type(y): return bitwise(op, BV(x, size=256), BV(y, size=256))":
        raise TranslateError("bitwise(): the conversion prelude differs from the modelled one")
    helpers["bitwise"] = helper_table(ast.FunctionDef(name="bitwise", body=bw.body[1:], args=bw.args, decorator_list=[], lineno=0), {"x", "y"})
    arms = arms_of(run_fn)
    missing = sorted(set(OPCODES) - set(arms))
    if missing:
        raise TranslateError(f"no dispatch arm found for {missing}")
    table = {}
    for name, body in arms.items():
        a = Arm(name, helpers)
        a.run(body)
        if a.result is None:
            raise TranslateError(f"dispatch arm OP_{name}: no result is pushed")
        (m, recv, args), consumed = a.result
        arity = 1 + len(args)
        if consumed != arity or sorted([recv] + args) != list(range(arity)):
            raise TranslateError(f"dispatch arm OP_{name}: consumes {consumed} words but the result uses positions {[recv] + args}")
        table[name] = (m, recv, args)
    lines = ["(* GENERATED by translate/t_dispatch.py from the dispatch of SEVM.run, SEVM.arith and bitwise()",
             "   in src/halmos/sevm.py -- do not edit *)",
             "From Coq Require Import ZArith List.", "From HV Require Import Spec.DispatchSpec.", "Import ListNotations.", "Open Scope Z_scope.", "",
             "(* opcode -> (word method, stack position of the receiver, stack positions of the arguments); 0 = top *)",
             "Definition dispatch (opcode : Z) : option (meth * nat * list nat) :=", "  match opcode with"]
    for name, code in sorted(OPCODES.items(), key=lambda kv: kv[1]):
        m, recv, args = table[name]
        lines.append(f"  | {code} => Some (M_{m}, {recv}%nat, [{'; '.join(str(a) + '%nat' for a in args)}])   (* {name} *)")
    lines += ["  | _ => None", "  end.", ""]
    return "\n".join(lines), {"table": table}


def selfcheck(info):
    return [] if len(info["table"]) == len(OPCODES) else ["incomplete table"]
