"""T-storeconsts: literals and small arithmetic of the storage-location machinery
   utils.py  (OffsetMap.__init__/__getitem__/__setitem__, match_dynamic_array_overflow_condition)
   sevm.py   (Exec.sha3_data hash-range guards, GenericStorage.simple_hash padding,
              the empty-array name pattern of Exec.select)
-> coq/Gen/GenStoreConsts.v.   Fail-closed: every shape is matched exactly.
"""
import ast

from .pyexpr import TranslateError, Translator, find_function

NAME = "T-storeconsts"
SRC = "utils.py"
OUT = "GenStoreConsts.v"


class _SelfAttr(ast.NodeTransformer):
    """self._x -> Name('_x') so that pyexpr can translate the expression"""

    def visit_Attribute(self, node):
        if isinstance(node.value, ast.Name) and node.value.id == "self":
            return ast.copy_location(ast.Name(id=node.attr, ctx=ast.Load()), node)
        raise TranslateError(f"unexpected attribute access {ast.unparse(node)!r} at line {node.lineno}")


def _assigns(fn):
    """{target source text: value node} for the simple assignments directly in fn's body"""
    out = {}
    for st in fn.body:
        if isinstance(st, ast.Assign) and len(st.targets) == 1:
            out.setdefault(ast.unparse(st.targets[0]), st.value)
    return out


def _need(d, key, fn):
    if key not in d:
        raise TranslateError(f"{fn}: assignment to `{key}` not found")
    return d[key]


def _const_int(node, what):
    try:
        v = eval(compile(ast.Expression(node), "<lit>", "eval"), {"__builtins__": {}}, {})  # literals/operators only
    except Exception as e:  # noqa: BLE001
        raise TranslateError(f"{what}: not a constant integer expression: {ast.unparse(node)!r}") from e
    for sub in ast.walk(node):
        if not isinstance(sub, (ast.Constant, ast.BinOp, ast.operator, ast.UnaryOp, ast.unaryop, ast.Expression)):
            raise TranslateError(f"{what}: not a constant integer expression: {ast.unparse(node)!r}")
    if not isinstance(v, int) or isinstance(v, bool):
        raise TranslateError(f"{what}: not an integer")
    return v


def translate(src_text):
    from pathlib import Path

    from harness.common import SRC as SRCDIR

    utils = ast.parse(src_text)
    sevm = ast.parse((Path(SRCDIR) / "sevm.py").read_text())
    info = {}
    T = _SelfAttr()

    # ---- OffsetMap
    init = find_function(utils, "__init__", cls="OffsetMap")
    args = [a.arg for a in init.args.args]
    if args != ["self", "offset_bits"] or len(init.args.defaults) != 1:
        raise TranslateError("OffsetMap.__init__: expected (self, offset_bits=<int>)")
    info["offset_bits"] = _const_int(init.args.defaults[0], "OffsetMap offset_bits default")
    ia = _assigns(init)
    if ast.unparse(_need(ia, "self._offset_bits", "OffsetMap.__init__")) != "offset_bits":
        raise TranslateError("OffsetMap.__init__: self._offset_bits is not offset_bits")
    if ast.unparse(_need(ia, "self._map", "OffsetMap.__init__")) != "{}":
        raise TranslateError("OffsetMap.__init__: self._map is not {}")
    tr = Translator(names={"offset_bits": "offset_bits", "key": "key", "offset": "offset", "_offset_bits": "om_offset_bits", "_mask": "om_mask"})
    info["mask_py"] = ast.unparse(_need(ia, "self._mask", "OffsetMap.__init__"))
    mask = tr.tr(T.visit(_need(ia, "self._mask", "OffsetMap.__init__"))).as_Z()

    get = find_function(utils, "__getitem__", cls="OffsetMap")
    if [a.arg for a in get.args.args] != ["self", "key"]:
        raise TranslateError("OffsetMap.__getitem__: expected (self, key)")
    ga = _assigns(get)
    lookup = _need(ga, "(value, offset)", "OffsetMap.__getitem__")
    # self._map.get(<bucket expr>, (None, None))
    if not (isinstance(lookup, ast.Call) and ast.unparse(lookup.func) == "self._map.get" and len(lookup.args) == 2
            and ast.unparse(lookup.args[1]) == "(None, None)" and not lookup.keywords):
        raise TranslateError("OffsetMap.__getitem__: expected self._map.get(<bucket>, (None, None))")
    get_bucket = tr.tr(T.visit(lookup.args[0])).as_Z()
    get_delta = tr.tr(T.visit(_need(ga, "delta", "OffsetMap.__getitem__"))).as_Z()
    body = [st for st in get.body if not (isinstance(st, ast.Expr) and isinstance(st.value, ast.Constant))]
    shape = [type(st).__name__ for st in body]
    if shape != ["Assign", "If", "Assign", "Return"]:
        raise TranslateError(f"OffsetMap.__getitem__: unexpected statement sequence {shape}")
    if ast.unparse(body[1].test) != "value is None" or ast.unparse(body[1].body[0]) != "return (None, None)" or body[1].orelse:
        raise TranslateError("OffsetMap.__getitem__: expected `if value is None: return (None, None)`")
    if ast.unparse(body[3].value) != "(value, delta)":
        raise TranslateError("OffsetMap.__getitem__: expected `return (value, delta)`")

    st_ = find_function(utils, "__setitem__", cls="OffsetMap")
    if [a.arg for a in st_.args.args] != ["self", "key", "value"]:
        raise TranslateError("OffsetMap.__setitem__: expected (self, key, value)")
    sa = _assigns(st_)
    set_bucket = tr.tr(T.visit(_need(sa, "raw_key", "OffsetMap.__setitem__"))).as_Z()
    rv = _need(sa, "raw_value", "OffsetMap.__setitem__")
    if not (isinstance(rv, ast.Tuple) and len(rv.elts) == 2 and ast.unparse(rv.elts[0]) == "value"):
        raise TranslateError("OffsetMap.__setitem__: expected raw_value = (value, <offset>)")
    set_offset = tr.tr(T.visit(rv.elts[1])).as_Z()
    if ast.unparse(_need(sa, "self._map[raw_key]", "OffsetMap.__setitem__")) != "raw_value":
        raise TranslateError("OffsetMap.__setitem__: expected self._map[raw_key] = raw_value")

    # ---- match_dynamic_array_overflow_condition: `... and offset.as_long() < 2**64`
    m = find_function(utils, "match_dynamic_array_overflow_condition")
    last = m.body[-1]
    if not (isinstance(last, ast.Return) and isinstance(last.value, ast.BoolOp) and isinstance(last.value.op, ast.And)):
        raise TranslateError("match_dynamic_array_overflow_condition: expected a final `return a and b and c`")
    cmp_ = last.value.values[-1]
    if not (isinstance(cmp_, ast.Compare) and ast.unparse(cmp_.left) == "offset.as_long()" and len(cmp_.ops) == 1 and isinstance(cmp_.ops[0], ast.Lt)):
        raise TranslateError("match_dynamic_array_overflow_condition: expected `offset.as_long() < <const>`")
    info["dyn_array_max_offset"] = _const_int(cmp_.comparators[0], "dynamic array offset bound")

    # ---- Exec.sha3_data guards
    sd = find_function(sevm, "sha3_data", cls="Exec")
    big, rng_test, ule = None, None, None
    for node in ast.walk(sd):
        if isinstance(node, ast.If) and isinstance(node.test, ast.Compare) and ast.unparse(node.test.left) == "byte_length(data)":
            if len(node.test.ops) != 1 or not isinstance(node.test.ops[0], ast.Gt):
                raise TranslateError("sha3_data: expected `byte_length(data) > <const>`")
            big = _const_int(node.test.comparators[0], "sha3 tracking threshold")
        if isinstance(node, ast.If) and isinstance(node.test, ast.BoolOp) and "sha3_hash_int" in ast.unparse(node.test):
            rng_test = node.test
            if not (len(node.body) == 2 and isinstance(node.body[1], ast.Raise)):
                raise TranslateError("sha3_data: the out-of-range branch must raise")
        if isinstance(node, ast.Call) and ast.unparse(node.func) == "ULE" and ast.unparse(node.args[0]) == "sha3_expr":
            ule = _const_int(node.args[1], "sha3 symbolic upper bound")
    if big is None or rng_test is None or ule is None:
        raise TranslateError("sha3_data: guards not found")
    if "self.path.append(sha3_expr != ZERO)" not in ast.unparse(sd):
        raise TranslateError("sha3_data: `sha3_expr != ZERO` assumption not found")
    trh = Translator(names={"sha3_hash_int": "h"})
    out_of_range = trh.tr(rng_test).as_bool()
    info["sha3_track_max_bytes"] = big
    info["sha3_sym_upper"] = ule

    # ---- GenericStorage.simple_hash: simplify(Concat(x, con(0, <bits>)))
    sh = find_function(sevm, "simple_hash", cls="GenericStorage")
    rets = [n for n in sh.body if isinstance(n, ast.Return)]
    if len(rets) != 1:
        raise TranslateError("simple_hash: expected one return")
    r = rets[0].value
    ok = (isinstance(r, ast.Call) and ast.unparse(r.func) == "simplify" and len(r.args) == 1 and isinstance(r.args[0], ast.Call)
          and ast.unparse(r.args[0].func) == "Concat" and len(r.args[0].args) == 2 and ast.unparse(r.args[0].args[0]) == "x"
          and isinstance(r.args[0].args[1], ast.Call) and ast.unparse(r.args[0].args[1].func) == "con" and len(r.args[0].args[1].args) == 2)
    if not ok:
        raise TranslateError("simple_hash: expected simplify(Concat(x, con(<v>, <bits>)))")
    info["gen_pad_value"] = _const_int(r.args[0].args[1].args[0], "simple_hash pad value")
    info["gen_pad_bits"] = _const_int(r.args[0].args[1].args[1], "simple_hash pad bits")

    lines = [
        "(* GENERATED by translate/t_storeconsts.py from src/halmos/utils.py and sevm.py -- do not edit *)",
        "From Coq Require Import ZArith Bool.",
        "Open Scope Z_scope.",
        "",
        f"Definition om_offset_bits : Z := {info['offset_bits']}.",
        f"Definition om_mask : Z := (fun offset_bits => {mask}) om_offset_bits.",
        "(* OffsetMap.__getitem__ *)",
        f"Definition om_get_bucket (key : Z) : Z := {get_bucket}.",
        f"Definition om_get_delta (key offset : Z) : Z := {get_delta}.",
        "(* OffsetMap.__setitem__ *)",
        f"Definition om_set_bucket (key : Z) : Z := {set_bucket}.",
        f"Definition om_set_offset (key : Z) : Z := {set_offset}.",
        "",
        f"Definition dyn_array_max_offset : Z := {info['dyn_array_max_offset']}.",
        f"Definition sha3_track_max_bytes : Z := {info['sha3_track_max_bytes']}.",
        f"Definition sha3_sym_upper : Z := {info['sha3_sym_upper']}.",
        f"Definition sha3_hash_out_of_range (h : Z) : bool := {out_of_range}.",
        f"Definition gen_pad_value : Z := {info['gen_pad_value']}.",
        f"Definition gen_pad_bits : Z := {info['gen_pad_bits']}.",
        "",
    ]
    return "\n".join(lines), info


def selfcheck(info):
    """behavioural cross-check of the translated arithmetic against the imported class"""
    import random

    from halmos.utils import OffsetMap

    bad = []
    m = OffsetMap()
    if m._offset_bits != info["offset_bits"]:
        bad.append(f"OffsetMap()._offset_bits = {m._offset_bits}, literal {info['offset_bits']}")
    if m._mask != eval(info["mask_py"], {"offset_bits": m._offset_bits}):
        bad.append("OffsetMap()._mask differs from the translated mask expression")
    return bad
