"""T-pathslice: /repo/src/halmos/sevm.py -> coq/Gen/GenPathSlice.v

Regenerates, from the source text (ast, fail-closed), how halmos decides which path conditions
are constraints on state variables (`Path.sliced`, the part of the path that enters the state id
and is handed to the solver of the next transaction):

  * `Path._get_related`   statement by statement (set accumulation over `self.var_to_conds[..]` and
                          `self.related[..]`) -> `get_related related var_to_conds var_set : list nat`;
  * `Path.append`         the index and the dependency update
                              idx = len(self.conditions)
                              var_set = self.get_var_set(cond)
                              self.related[idx] = self._get_related(var_set)
                              for var in var_set: self.var_to_conds[var].add(idx)
                          -> `p_append : pdeps -> list Z -> pdeps`;
  * `Path.slice`          either the worklist closure over `var_to_conds` / the variables of the conditions
                          (recognised statement by statement) -> `slice_visit`, `slice_loop` (with fuel), `p_slice`,
                          or the older `self.sliced = self._get_related(var_set)` -> `p_slice` through get_related;
  * `Exec.path_slice`     the sources of the state variables (balance, optionally the block fields other than
                          the timestamp, symbolic code chunks, stored values) are checked to be exactly those;
                          `self.path.slice(var_set)`; -> `state_vars_include_block : bool`.
Sets are rendered as lists (membership is all that is used).
"""
import ast

from .pyexpr import TranslateError, find_function

NAME = "T-pathslice"
SRC = "sevm.py"
OUT = "GenPathSlice.v"


def _fail(node, why):
    try:
        src = ast.unparse(node)
    except Exception:  # noqa: BLE001
        src = repr(node)
    raise TranslateError(f"T-pathslice: unsupported shape ({why}): {src!r} at line {getattr(node, 'lineno', '?')}")


def _body(fn):
    return [s for s in fn.body if not (isinstance(s, ast.Expr) and isinstance(s.value, ast.Constant) and isinstance(s.value.value, str))]


def _table(n, env):
    """self.var_to_conds[VAR] | self.related[COND] -> (ir, element kind)"""
    if isinstance(n, ast.Subscript) and isinstance(n.value, ast.Attribute) and isinstance(n.value.value, ast.Name) and n.value.value.id == "self" \
            and isinstance(n.slice, ast.Name):
        key = env.get(n.slice.id)
        if n.value.attr == "var_to_conds" and key and key[0] == "elem" and key[1] == "var":
            return ("v2c", n.slice.id), "cond"
        if n.value.attr == "related" and key and key[0] == "elem" and key[1] == "cond":
            return ("related", n.slice.id), "cond"
    _fail(n, "table lookup")


def translate_get_related(fn):
    """-> IR: list of ("new", name) | ("copy", name, src) | ("update", name, loopvar, iterset, table) ; result name"""
    if [a.arg for a in fn.args.args] != ["self", "var_set"]:
        raise TranslateError("Path._get_related: expected parameters (self, var_set)")
    env = {"var_set": ("set", "var")}
    prog = []
    ret = None
    for st in _body(fn):
        if ret is not None:
            _fail(st, "statement after return")
        if isinstance(st, ast.Assign) and len(st.targets) == 1 and isinstance(st.targets[0], ast.Name) and isinstance(st.value, ast.Call) \
                and isinstance(st.value.func, ast.Name) and st.value.func.id == "set" and not st.value.keywords:
            name = st.targets[0].id
            if not st.value.args:
                prog.append(("new", name))
                env[name] = ("set", None)
                continue
            if len(st.value.args) == 1 and isinstance(st.value.args[0], ast.Name) and env.get(st.value.args[0].id, (None,))[0] == "set":
                src = st.value.args[0].id
                prog.append(("copy", name, src))
                env[name] = ("set", env[src][1])
                continue
            _fail(st, "set(...)")
        if isinstance(st, ast.For) and not st.orelse and isinstance(st.target, ast.Name) and isinstance(st.iter, ast.Name) \
                and env.get(st.iter.id, (None,))[0] == "set" and env[st.iter.id][1] is not None and len(st.body) == 1:
            b = st.body[0]
            if isinstance(b, ast.Expr) and isinstance(b.value, ast.Call) and isinstance(b.value.func, ast.Attribute) and b.value.func.attr == "update" \
                    and isinstance(b.value.func.value, ast.Name) and env.get(b.value.func.value.id, (None,))[0] == "set" and len(b.value.args) == 1:
                acc = b.value.func.value.id
                if acc == st.iter.id:
                    _fail(st, "a set updated while iterated")
                env2 = dict(env)
                env2[st.target.id] = ("elem", env[st.iter.id][1])
                tab, kind = _table(b.value.args[0], env2)
                if env[acc][1] not in (None, kind):
                    _fail(st, "a set of mixed element kinds")
                env[acc] = ("set", kind)
                prog.append(("update", acc, st.target.id, st.iter.id, tab))
                continue
            _fail(st, "loop body")
        if isinstance(st, ast.Return) and isinstance(st.value, ast.Name) and env.get(st.value.id, (None,))[0] == "set":
            if env[st.value.id][1] != "cond":
                _fail(st, "the result is not a set of conditions")
            ret = st.value.id
            continue
        _fail(st, "statement")
    if ret is None:
        raise TranslateError("Path._get_related: no return")
    return prog, ret


def gallina_get_related(prog, ret):
    ver = {}
    lines = []

    def cur(n):
        return f"{n}{ver[n]}"

    def nxt(n):
        ver[n] = ver.get(n, -1) + 1
        return f"{n}{ver[n]}"

    def ref(n):
        return "var_set" if n == "var_set" else cur(n)

    for op in prog:
        if op[0] == "new":
            lines.append(f"let {nxt(op[1])} : list nat := [] in")
        elif op[0] == "copy":
            src = ref(op[2])
            lines.append(f"let {nxt(op[1])} := {src} in")
        else:
            _, acc, lv, it, tab = op
            old = cur(acc)
            src = ref(it)
            f = "var_to_conds" if tab[0] == "v2c" else "related"
            lines.append(f"let {nxt(acc)} := {old} ++ flat_map (fun {lv} => {f} {tab[1]}) {src} in")
    lines.append(cur(ret))
    return "\n    ".join(lines)


def py_get_related(prog, ret, related, v2c, var_set):
    env = {"var_set": set(var_set)}
    for op in prog:
        if op[0] == "new":
            env[op[1]] = set()
        elif op[0] == "copy":
            env[op[1]] = set(env[op[2]])
        else:
            _, acc, lv, it, tab = op
            for x in list(env[it]):
                env[acc] |= set((v2c if tab[0] == "v2c" else related).get(x, ()))
    return env[ret]


APPEND_TAIL = ["var_set = self.get_var_set(cond)", "self.related[idx] = self._get_related(var_set)",
               "for var in var_set:\n    self.var_to_conds[var].add(idx)"]
SLICE_GUARD = "if self.sliced is not None:\n    raise ValueError('already sliced')"
SLICE_OLD = [SLICE_GUARD, "self.sliced = self._get_related(var_set)"]
SLICE_CLOSURE = [SLICE_GUARD, "conds = list(self.conditions)", "sliced, seen, worklist = (set(), set(), list(var_set))",
                 "while worklist:\n    var = worklist.pop()\n    if var in seen:\n        continue\n    seen.add(var)\n    for idx in self.var_to_conds[var]:\n"
                 "        if idx not in sliced:\n            sliced.add(idx)\n            worklist.extend(self.get_var_set(conds[idx]))",
                 "self.sliced = sliced"]
PATH_SLICE_BLOCK = ["block = self.block",
                    "for _field in (block.basefee, block.chainid, block.coinbase, block.difficulty, block.gaslimit, block.number):\n"
                    "    var_set = itertools.chain(var_set, self.path.get_var_set(BV(_field).as_z3()))"]
GALLINA_SLICE_OLD = """(* Path.slice: self.sliced = self._get_related(var_set) *)
Definition p_slice (p : pdeps) (vs : list (list Z)) (var_set : list Z) (fuel : nat) : option (list nat) :=
  Some (get_related (p_related p) (p_v2c p) var_set).
"""
GALLINA_SLICE_CLOSURE = """(* Path.slice, the body of the inner loop:
     if idx not in sliced: sliced.add(idx); worklist.extend(self.get_var_set(conds[idx]))
   (the worklist is a stack: its head is the end of the Python list) *)
Definition slice_visit (cv : nat -> list Z) (st : list nat * list Z) (idx : nat) : list nat * list Z :=
  if nmem idx (fst st) then st else (idx :: fst st, rev (cv idx) ++ snd st).

(* Path.slice, the loop:
     while worklist: var = worklist.pop(); if var in seen: continue; seen.add(var)
                     for idx in self.var_to_conds[var]: <slice_visit>
   fuel bounds the number of iterations (None: exhausted) *)
Fixpoint slice_loop (fuel : nat) (v2c : Z -> list nat) (cv : nat -> list Z)
                    (sliced : list nat) (seen work : list Z) : option (list nat) :=
  match fuel with
  | O => None
  | S f =>
      match work with
      | [] => Some sliced
      | var :: rest =>
          if vmem var seen then slice_loop f v2c cv sliced seen rest
          else let st := fold_left (slice_visit cv) (v2c var) (sliced, rest) in
               slice_loop f v2c cv (fst st) (var :: seen) (snd st)
      end
  end.

(* Path.slice: conds = list(self.conditions); sliced, seen, worklist = set(), set(), list(var_set); <loop>; self.sliced = sliced *)
Definition p_slice (p : pdeps) (vs : list (list Z)) (var_set : list Z) (fuel : nat) : option (list nat) :=
  slice_loop fuel (p_v2c p) (fun idx => nth idx vs []) [] [] (rev var_set).
"""
PATH_SLICE = ["var_set = self.path.get_var_set(self.balance)",
              "for _contract in self.code.values():\n    _code = _contract._code\n    for _chunk in _code.chunks.values():\n        if isinstance(_chunk, SymbolicChunk):\n"
              "            var_set = itertools.chain(var_set, self.path.get_var_set(_chunk.data))",
              "for _storage in self.storage.values():\n    for _val in _storage._mapping.values():\n        var_set = itertools.chain(var_set, self.path.get_var_set(_val))",
              "self.path.slice(var_set)"]


def translate(text):
    tree = ast.parse(text)
    prog, ret = translate_get_related(find_function(tree, "_get_related", cls="Path"))
    # Path.append: idx = len(self.conditions) ... dependency update at the end
    ap = _body(find_function(tree, "append", cls="Path"))
    srcs = [ast.unparse(s) for s in ap]
    if "idx = len(self.conditions)" not in srcs:
        raise TranslateError("Path.append: `idx = len(self.conditions)` not found")
    if srcs[-3:] != APPEND_TAIL:
        raise TranslateError("Path.append: the dependency update at the end differs from the modelled shape:\n" + "\n".join(srcs[-3:]))
    i_idx = srcs.index("idx = len(self.conditions)")
    i_set = srcs.index("self.conditions[cond] = branching") if "self.conditions[cond] = branching" in srcs else -1
    if not (0 <= i_idx < i_set):
        raise TranslateError("Path.append: the index is not taken before the condition is stored")
    for s in srcs[i_idx + 1:-3]:
        if "related" in s or "var_to_conds" in s or s.startswith("idx"):
            raise TranslateError(f"Path.append: unexpected statement touching the dependency tables: {s}")
    # Path.slice
    slice_fn = find_function(tree, "slice", cls="Path")
    if [a.arg for a in slice_fn.args.args] != ["self", "var_set"]:
        raise TranslateError("Path.slice: expected parameters (self, var_set)")
    sl = [ast.unparse(s) for s in _body(slice_fn)]
    if sl == SLICE_CLOSURE:
        closure, gal_slice = True, GALLINA_SLICE_CLOSURE
    elif sl == SLICE_OLD:
        closure, gal_slice = False, GALLINA_SLICE_OLD
    else:
        raise TranslateError("Path.slice: body differs from the modelled shapes:\n" + "\n".join(sl))
    # Exec.path_slice
    ps = [ast.unparse(s) for s in _body(find_function(tree, "path_slice", cls="Exec"))]
    if ps == PATH_SLICE[:1] + PATH_SLICE_BLOCK + PATH_SLICE[1:]:
        with_block = True
    elif ps == PATH_SLICE:
        with_block = False
    else:
        raise TranslateError("Exec.path_slice: body differs from the modelled shapes:\n" + "\n".join(ps))
    gen = f"""(* GENERATED by translate/t_pathslice.py from src/halmos/sevm.py (Path._get_related, Path.append, Path.slice) -- do not edit *)
From Coq Require Import ZArith List Bool.
From HV Require Import Model.PathSliceModel.
Import ListNotations.
Open Scope Z_scope.

(* Path._get_related *)
Definition get_related (related : nat -> list nat) (var_to_conds : Z -> list nat) (var_set : list Z) : list nat :=
    {gallina_get_related(prog, ret)}.

(* Path.append: idx = len(self.conditions); self.related[idx] = self._get_related(var_set);
   for var in var_set: self.var_to_conds[var].add(idx) *)
Definition p_append (p : pdeps) (var_set : list Z) : pdeps :=
  let idx := p_n p in
  let rel := get_related (p_related p) (p_v2c p) var_set in
  mkP (S idx)
      (fun i => if Nat.eqb i idx then rel else p_related p i)
      (fun var => if vmem var var_set then idx :: p_v2c p var else p_v2c p var).

(* a path whose conditions have the variable sets vs, appended in order *)
Definition p_build (vs : list (list Z)) : pdeps := fold_left p_append vs p_empty.

{gal_slice}
(* Exec.path_slice: are the variables of the block fields (all but the timestamp) state variables? *)
Definition state_vars_include_block : bool := {str(with_block).lower()}.
"""
    return gen, {"prog": prog, "ret": ret, "closure": closure}


def selfcheck(info):
    """the translated _get_related (interpreted in Python) and the modelled append/slice against the
    real Path on random conditions over a few z3 variables"""
    import random

    from z3 import And, BitVec, Solver, ULT

    from halmos.sevm import Path

    bad = []
    r = random.Random(1515)
    xs = [BitVec(f"t_pathslice_{i}", 8) for i in range(6)]
    for trial in range(40):
        p = Path(Solver())
        related, v2c, n = {}, {}, 0
        for _ in range(r.randint(0, 7)):
            vs = r.sample(range(6), r.randint(1, 3))
            k = r.randrange(1, 200)
            cond = And(*[ULT(xs[v], k + j) for j, v in enumerate(vs)]) if len(vs) > 1 else ULT(xs[vs[0]], k)
            before = len(p.conditions)
            p.append(cond)
            if len(p.conditions) == before:
                continue
            idx = n
            related[idx] = py_get_related(info["prog"], info["ret"], related, v2c, vs)
            for v in vs:
                v2c.setdefault(v, set()).add(idx)
            n += 1
        if {k: set(v) for k, v in p.related.items()} != {k: set(v) for k, v in related.items()}:
            bad.append(f"Path.related after random appends (trial {trial}): implementation {dict(p.related)}, translated {related}")
            continue
        sv = r.sample(range(6), r.randint(0, 3))
        p.slice([xs[v] for v in sv])
        if info["closure"]:
            # the modelled loop, in Python
            mine, seen, work = set(), set(), list(sv)
            cvs = {}
            for v, idxs in v2c.items():
                for i in idxs:
                    cvs.setdefault(i, set()).add(v)
            while work:
                var = work.pop()
                if var in seen:
                    continue
                seen.add(var)
                for i in v2c.get(var, ()):
                    if i not in mine:
                        mine.add(i)
                        work.extend(cvs[i])
        else:
            mine = py_get_related(info["prog"], info["ret"], related, v2c, sv)
        if set(p.sliced) != mine:
            bad.append(f"Path.slice (trial {trial}, state variables {sv}): implementation {sorted(p.sliced)}, translated {sorted(mine)}")
    return bad[:3]
