"""T-config-main: /repo/src/halmos/__main__.py -> coq/Gen/GenConfigMain.v

How the layers are stacked by the runner:
  * with_devdoc / with_natspec / load_config: statement shape checked against a reference
    (alpha-renaming tolerated); the ConfigSource member used by each is emitted;
  * the loops of run_tests (per test function) and _main (per contract): the config produced by
    with_devdoc / with_natspec is bound to a *fresh* name and handed to FunctionContext /
    ContractContext, while the name passed as base config is (or is not) re-bound inside the loop:
    emitted as `run_tests_rebinds_args`, `main_rebinds_args` (a re-binding loop leaks the
    annotation of one function / contract into the next ones; the model threads it accordingly).
Fail-closed.
"""
import ast

from .pyexpr import TranslateError, find_function
from .t_config import same_shape

NAME = "T-config-main"
SRC = "__main__.py"
OUT = "GenConfigMain.v"

REF_DEVDOC = '''
def with_devdoc(args, fn_sig, contract_json):
    devdoc = parse_devdoc(fn_sig, contract_json)
    if not devdoc:
        return args
    overrides = arg_parser().parse_args(shlex.split(devdoc))
    source = 'HOLE0'
    return args.with_overrides(source, **vars(overrides))
'''

REF_NATSPEC = '''
def with_natspec(args, contract_name, contract_natspec):
    if not contract_natspec:
        return args
    parsed = parse_natspec(contract_natspec)
    if not parsed:
        return args
    overrides = arg_parser().parse_args(shlex.split(parsed))
    source = 'HOLE0'
    return args.with_overrides(source, **vars(overrides))
'''

REF_LOAD = '''
def load_config(_args):
    config = default_config()
    cli_overrides = arg_parser().parse_args(_args)
    config_files = resolve_config_files(_args)
    for config_file in config_files:
        if not os.path.exists(config_file):
            error(f"Config file not found: {config_file}")
            sys.exit(2)
        overrides = toml_parser().parse_file(config_file)
        config_file = 'HOLE0'
        config = config.with_overrides(config_file, **overrides)
    command_line = 'HOLE1'
    config = config.with_overrides(command_line, **vars(cli_overrides))
    return config
'''


def source_holes(fn, what):
    holes = [n for n in ast.walk(fn) if isinstance(n, ast.Attribute) and isinstance(n.value, ast.Name) and n.value.id == "ConfigSource"]
    holes.sort(key=lambda n: (n.lineno, n.col_offset))
    return holes


def loop_fact(fn, iter_pred, callee, ctx_class, what):
    """inside the (single) for loop selected by iter_pred: exactly one `T = callee(B, ...)`;
    ctx_class(args=T, ...) is built in the loop; returns True iff B is re-bound in the loop."""
    loops = [n for n in ast.walk(fn) if isinstance(n, ast.For) and iter_pred(n)]
    if len(loops) != 1:
        raise TranslateError(f"{what}: expected exactly one matching for-loop, found {len(loops)}")
    loop = loops[0]
    calls = [n for n in ast.walk(loop) if isinstance(n, ast.Call) and isinstance(n.func, ast.Name) and n.func.id == callee]
    if len(calls) != 1:
        raise TranslateError(f"{what}: expected exactly one call of {callee} in the loop")
    assigns = [n for n in ast.walk(loop) if isinstance(n, ast.Assign) and n.value is calls[0]]
    if len(assigns) != 1 or len(assigns[0].targets) != 1 or not isinstance(assigns[0].targets[0], ast.Name):
        raise TranslateError(f"{what}: result of {callee} must be assigned to a simple name")
    target = assigns[0].targets[0].id
    if not calls[0].args or not isinstance(calls[0].args[0], ast.Name):
        raise TranslateError(f"{what}: first argument of {callee} must be a name")
    base = calls[0].args[0].id
    # the context object receives the annotated config
    ctxs = [n for n in ast.walk(loop) if isinstance(n, ast.Call) and isinstance(n.func, ast.Name) and n.func.id == ctx_class]
    if len(ctxs) != 1:
        raise TranslateError(f"{what}: expected exactly one {ctx_class}(...) in the loop")
    kw = {k.arg: k.value for k in ctxs[0].keywords}
    if not (isinstance(kw.get("args"), ast.Name) and kw["args"].id == target):
        raise TranslateError(f"{what}: {ctx_class}(args=...) does not receive the result of {callee}")
    # is the base name re-bound anywhere in the loop (any store, walrus, for-target, with-as)?
    rebinds = any(isinstance(n, ast.Name) and isinstance(n.ctx, ast.Store) and n.id == base for n in ast.walk(loop))
    # the base must be bound before the loop to a plain config (args = ctx.args / load_config(...))
    return rebinds, base, target


def translate(src_text):
    tree = ast.parse(src_text)
    out = {}
    for name, ref, n in (("with_devdoc", REF_DEVDOC, 1), ("with_natspec", REF_NATSPEC, 1), ("load_config", REF_LOAD, 2)):
        fn = find_function(tree, name)
        holes = source_holes(fn, name)
        if len(holes) != n:
            raise TranslateError(f"{name}: expected {n} ConfigSource reference(s), found {len(holes)}")
        same_shape(fn, holes, ref, lambda r: [], name)
        out[name] = [h.attr for h in holes]
    rt = find_function(tree, "run_tests")
    rt_rebinds, rt_base, _ = loop_fact(
        rt, lambda f: isinstance(f.iter, ast.Name) and f.iter.id == "funsigs", "with_devdoc", "FunctionContext", "run_tests")
    first = [s for s in rt.body if isinstance(s, ast.Assign)][0]
    if ast.unparse(first) != f"{rt_base} = ctx.args":
        raise TranslateError("run_tests: base config is not `ctx.args`")
    mn = find_function(tree, "_main")
    mn_rebinds, mn_base, _ = loop_fact(
        mn, lambda f: isinstance(f.iter, ast.Call) and isinstance(f.iter.func, ast.Name) and f.iter.func.id == "build_output_iterator",
        "with_natspec", "ContractContext", "_main")
    binds = [s for s in mn.body if isinstance(s, ast.Assign) and ast.unparse(s.targets[0]) == mn_base]
    if len(binds) != 1 or ast.unparse(binds[0].value) != "load_config(_args)":
        raise TranslateError("_main: base config is not bound exactly once to load_config(_args)")
    # run_contract: hands ctx (whose args is the contract config) on to run_tests unchanged
    rc = find_function(tree, "run_contract")
    rc_calls = [n for n in ast.walk(rc) if isinstance(n, ast.Call) and isinstance(n.func, ast.Name) and n.func.id == "run_tests"]
    if len(rc_calls) != 1 or ast.unparse(rc_calls[0]) != "run_tests(ctx, setup_ex, ctx.funsigs)":
        raise TranslateError("run_contract: expected run_tests(ctx, setup_ex, ctx.funsigs)")
    rc_dev = [n for n in ast.walk(rc) if isinstance(n, ast.Assign) and isinstance(n.value, ast.Call) and isinstance(n.value.func, ast.Name) and n.value.func.id == "with_devdoc"]
    if len(rc_dev) != 1 or ast.unparse(rc_dev[0]) != "setup_config = with_devdoc(args, setup_info.sig, ctx.contract_json)":
        raise TranslateError("run_contract: unexpected setUp config derivation")

    b = lambda x: "true" if x else "false"  # noqa: E731
    L = [
        "(* GENERATED by translate/t_config_main.py from src/halmos/__main__.py -- do not edit *)",
        "From Coq Require Import ZArith List Bool.",
        "From HV Require Import Gen.GenConfig.",
        "Open Scope Z_scope.",
        "",
        f"Definition devdoc_source : Z := SRC_{out['with_devdoc'][0]}.",
        f"Definition natspec_source : Z := SRC_{out['with_natspec'][0]}.",
        f"Definition load_file_source : Z := SRC_{out['load_config'][0]}.",
        f"Definition load_cli_source : Z := SRC_{out['load_config'][1]}.",
        f"Definition run_tests_rebinds_args : bool := {b(rt_rebinds)}.",
        f"Definition main_rebinds_args : bool := {b(mn_rebinds)}.",
        "",
    ]
    return "\n".join(L), out


def selfcheck(info):
    import halmos.config as c

    bad = []
    for k, v in info.items():
        for a in v:
            if not hasattr(c.ConfigSource, a):
                bad.append(f"{k}: ConfigSource.{a} does not exist")
    return bad
