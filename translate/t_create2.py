"""T-create2: how SEVM.create (src/halmos/sevm.py) computes the address of a CREATE2 -> coq/Gen/GenCreate2.v
(used by Model/Create2Model.v; theorem C01_create2_address_tied: the layout below IS the EIP-1014 preimage of
the reference interpreter Spec/Evm.v).

Pinned, each from one whitelisted syntactic shape (fail-closed: any other shape is a TranslateError):
  * the operands are popped in the order value, offset, size and -- for CREATE2 only -- salt;
  * the init code that is EXECUTED is the memory slice itself: `create_code = Contract(create_hexcode)` stands between
    `create_hexcode = ex.st.mslice(loc, size)` and the address arms, i.e. before the CREATE2 arm rebinds the name to the
    unwrapped (hashable) form of the slice;
  * the sender is `pranked_caller` of `ex.resolve_prank(con_addr(0))`;
  * the CREATE2 arm is exactly: unwrap; simplify / bytes_to_bv_value; code_hash = sha3_data(init code);
    hash_data = simplify(Concat(<fields>)); new_addr = uint160(sha3_data(hash_data)).as_z3()
    -- no other statement (in particular no ex.new_address(): the CREATE counter is not consumed);
    the fields of the Concat are translated one by one (0xff byte, sender as 160 bits, salt, code hash);
  * Exec.sha3_data names the keccak of an 85-byte preimage starting with 0xff `create2_magic_address + id`
    (the convention harness/engine.create2_names undoes).
"""
import ast

from .pyexpr import TranslateError, find_function

NAME = "T-create2"
SRC = "sevm.py"
OUT = "GenCreate2.v"

FIELDS = {
    "con(255, 8)": "C2_FF",
    "uint160(pranked_caller).as_z3()": "C2_SENDER",
    "salt.as_z3()": "C2_SALT",
    "code_hash": "C2_CODEHASH",
}


def U(n):
    return ast.unparse(n)


def _expect(cond, why):
    if not cond:
        raise TranslateError("SEVM.create: " + why)


def _index(body, text, start=0):
    for i in range(start, len(body)):
        if U(body[i]) == text:
            return i
    raise TranslateError(f"SEVM.create: statement not found: {text}")


def translate(src_text):
    tree = ast.parse(src_text)
    fn = find_function(tree, "create", cls="SEVM")
    body = [s for s in fn.body if not (isinstance(s, ast.Expr) and isinstance(s.value, ast.Constant))]
    # ---- operand order: the statements that pop, in program order
    popping = [(i, U(st)) for i, st in enumerate(body) if "ex.st.pop" in U(st)]
    _expect(len(popping) == 4, f"{len(popping)} popping statements before the creation, expected 4 (value, offset, size, salt)")
    (i_val, t_val), (_, t_loc), (_, t_size), (i_salt, t_salt) = popping
    _expect(t_val == "value: BV = ex.st.popi()", "the value is not the first operand popped")
    _expect(t_loc.startswith("loc: int = ex.int_of(ex.st.pop(),"), "the offset is not the second operand popped")
    _expect(t_size.startswith("size: int = ex.int_of(ex.st.pop(),"), "the size is not the third operand popped")
    _expect(t_salt in ("if op == OP_CREATE2:\n    salt = ex.st.pop()", "salt = ex.st.pop() if op == OP_CREATE2 else None"),
            "the salt is not popped fourth, for CREATE2 only")
    pops = ["P_VALUE", "P_OFFSET", "P_SIZE", "P_SALT"]
    # ---- sender
    _index(body, "pranked_caller, pranked_origin = ex.resolve_prank(con_addr(0))", i_val + 1)
    # ---- the executed init code is the memory slice itself: built from it before the address arms rebind the name
    i_slice = _index(body, "create_hexcode = ex.st.mslice(loc, size)", i_val + 1)
    i_arms = next((i for i in range(i_slice + 1, len(body)) if isinstance(body[i], ast.If) and U(body[i].test) == "op == OP_CREATE"), None)
    _expect(i_arms is not None, "the address arms `if op == OP_CREATE: ... elif op == OP_CREATE2: ...` are not found after the memory slice")
    _expect(any(U(body[i]) == "create_code = Contract(create_hexcode)" for i in range(i_slice + 1, i_arms)),
            "`create_code = Contract(create_hexcode)` is not between the memory slice and the address arms (the executed init code must be built from the slice, before the CREATE2 arm rebinds create_hexcode)")
    _expect(not any("create_hexcode" in U(body[i]) and U(body[i]) != "create_code = Contract(create_hexcode)" for i in range(i_slice + 1, i_arms)),
            "create_hexcode is touched between the memory slice and the address arms")
    # ---- the address arms
    arms = body[i_arms]
    _expect([U(s) for s in arms.body] == ["new_addr = ex.new_address()"], "the CREATE arm is not `new_addr = ex.new_address()`")
    _expect(len(arms.orelse) == 1 and isinstance(arms.orelse[0], ast.If) and U(arms.orelse[0].test) == "op == OP_CREATE2", "no `elif op == OP_CREATE2` arm")
    c2 = arms.orelse[0].body
    _expect(len(c2) == 5, f"the CREATE2 arm has {len(c2)} statements, expected 5")
    _expect(U(c2[0]) == "create_hexcode = create_hexcode.unwrap()", "CREATE2 arm, statement 1")
    _expect(U(c2[1]) == "if is_bv(create_hexcode):\n    create_hexcode = simplify(create_hexcode)\nelse:\n    create_hexcode = bytes_to_bv_value(create_hexcode)", "CREATE2 arm, statement 2")
    _expect(U(c2[2]) == "code_hash = ex.sha3_data(create_hexcode)", "CREATE2 arm: the code hash is not sha3_data of the init code")
    hd = c2[3]
    _expect(isinstance(hd, ast.Assign) and U(hd.targets[0]) == "hash_data" and isinstance(hd.value, ast.Call) and U(hd.value.func) == "simplify"
            and len(hd.value.args) == 1 and isinstance(hd.value.args[0], ast.Call) and U(hd.value.args[0].func) == "Concat", "CREATE2 arm: hash_data is not simplify(Concat(...))")
    fields = []
    for a in hd.value.args[0].args:
        if U(a) not in FIELDS:
            raise TranslateError(f"SEVM.create: unknown field of the hashed data: {U(a)}")
        fields.append(FIELDS[U(a)])
    _expect(U(c2[4]) == "new_addr = uint160(ex.sha3_data(hash_data)).as_z3()", "CREATE2 arm: the address is not uint160(sha3_data(hash_data))")
    # ---- the naming convention of Exec.sha3_data
    sd = find_function(tree, "sha3_data", cls="Exec")
    named = [s for s in sd.body if isinstance(s, ast.If) and U(s.test) == "size == 85"]
    _expect(len(named) == 1, "Exec.sha3_data: no `if size == 85:` block")
    inner = [s for s in named[0].body if isinstance(s, ast.If)]
    _expect(len(inner) == 1 and U(inner[0].test) == "isinstance(first_byte, int) and first_byte == 255"
            and [U(s) for s in inner[0].body] == ["return con(create2_magic_address + self.sha3s.get_id(sha3_expr))"],
            "Exec.sha3_data: the 85-byte / 0xff preimage is not named create2_magic_address + id")
    lines = ["(* GENERATED by translate/t_create2.py from SEVM.create / Exec.sha3_data in sevm.py -- do not edit *)",
             "From Coq Require Import ZArith List.", "From HV Require Import Model.Create2Defs.", "Import ListNotations.", "Open Scope Z_scope.", "",
             f"Definition c2_pops : list c2pop := [{'; '.join(pops)}].",
             f"Definition c2_fields : list c2field := [{'; '.join(fields)}].",
             "Definition c2_address_bits : Z := 160.",
             "Definition c2_consumes_create_counter : bool := false.",
             "Definition c2_executes_memory_slice : bool := true.",
             "Definition c2_named_by_registration_number : bool := true.", ""]
    return "\n".join(lines), {"fields": fields, "pops": pops}


def selfcheck(info):
    return []
