"""T-pathquery: /repo/src/halmos/sevm.py -> coq/Gen/GenPathQuery.v

Where the assertions of the query that is sent to the solver come from (Path.to_smt2), and what a
path that continues another one (next transaction, test after setUp) inherits (Path.extend_path):

  gen_query_source cache_solver sliced_none : qsrc
        SrcConditions  every key of self.conditions is asserted into a fresh solver
        SrcSolver      the path's own incremental solver is serialised (self.solver.to_smt2())
  gen_extend_adds parent_sliced_none : sadd
        what extend_path adds to the new path's solver: all inherited conditions, or only the
        parent's sliced (state-related) ones
  Path.append is checked to add a kept condition to BOTH self.solver and self.conditions, and
  extend_path to copy the parent's conditions wholesale; nothing is emitted for these.

Guards over `args.cache_solver`, `self.sliced is [not] None` and not / and / or are translated and
left to the theorems of Props/C04.v; every other shape raises TranslateError (fail-closed).
"""
import ast

from .pyexpr import TranslateError, find_function, strip_docstring

NAME = "T-pathquery"
SRC = "sevm.py"
OUT = "GenPathQuery.v"


def _src(n):
    try:
        return ast.unparse(n)
    except Exception:  # noqa: BLE001
        return repr(n)


def _fail(where, node, why):
    raise TranslateError(f"{where}: {why}: {_src(node)[:100]!r} at line {getattr(node, 'lineno', '?')}")


def _guard(where, n, atoms):
    if isinstance(n, ast.UnaryOp) and isinstance(n.op, ast.Not):
        return f"(negb {_guard(where, n.operand, atoms)})"
    if isinstance(n, ast.BoolOp):
        op = "andb" if isinstance(n.op, ast.And) else "orb"
        parts = [_guard(where, v, atoms) for v in n.values]
        out = parts[-1]
        for p in reversed(parts[:-1]):
            out = f"({op} {p} {out})"
        return out
    s = _src(n)
    if s in atoms:
        return atoms[s]
    _fail(where, n, "unsupported guard")


ID = r"[A-Za-z_][A-Za-z_0-9]*"


def _is_conds_block(srcs, q):
    """the loop that asserts every key of self.conditions into a fresh solver and serialises it
    (local names are free, `q` is the name the query text is bound to)"""
    import re

    if len(srcs) not in (3, 4):
        return False
    m = re.fullmatch(rf"({ID}) = create_solver\(ctx=Context\(\)\)", srcs[0])
    if not m:
        return False
    x = m.group(1)
    m = re.fullmatch(rf"for ({ID}) in self\.conditions:\n    ({ID}) = \1\.translate\({x}\.ctx\)\n    if args\.cache_solver:\n"
                     rf"        {x}\.assert_and_track\(\2, str\(\1\.get_id\(\)\)\)\n    else:\n        {x}\.add\(\2\)", srcs[1])
    if not m or len({x, m.group(1), m.group(2), q}) != 4:
        return False
    if srcs[2] != f"{q} = {x}.to_smt2()":
        return False
    return len(srcs) == 3 or srcs[3] == f"{x}.reset()"


def _query_block(where, stmts, atoms, q):
    """statements that bind the query text -> Gallina term of type qsrc"""
    srcs = [_src(s) for s in stmts]
    if _is_conds_block(srcs, q):
        return "SrcConditions"
    if srcs == [f"{q} = self.solver.to_smt2()"]:
        return "SrcSolver"
    if len(stmts) == 1 and isinstance(stmts[0], ast.If):
        st = stmts[0]
        if not st.orelse:
            _fail(where, st, "a guard without else leaves the query unbound")
        g = _guard(where, st.test, atoms)
        return f"(if {g} then {_query_block(where, st.body, atoms, q)} else {_query_block(where, st.orelse, atoms, q)})"
    _fail(where, stmts[0] if stmts else ast.Pass(), "unexpected way of building the query")


def _tr_to_smt2(fn):
    import re

    where = "Path.to_smt2"
    if len(fn.args.args) != 2 or fn.args.args[0].arg != "self" or fn.decorator_list:
        raise TranslateError(f"{where}: unexpected signature")
    an = fn.args.args[1].arg
    body = strip_docstring(fn.body)
    if len(body) < 4:
        raise TranslateError(f"{where}: too short")
    m = re.fullmatch(rf"({ID}) = \[str\(({ID})\.get_id\(\)\) for \2 in self\.conditions\]", _src(body[0]))
    if not m:
        _fail(where, body[0], "expected <ids> = [str(c.get_id()) for c in self.conditions]")
    ids = m.group(1)
    m = re.fullmatch(rf"return SMTQuery\(({ID}), {ids}\)", _src(body[-1]))
    if not m:
        _fail(where, body[-1], "expected return SMTQuery(<query>, <ids>)")
    q = m.group(1)
    if _src(body[-2]) != f"{q} = {q}.replace('(check-sat)', '')":
        _fail(where, body[-2], "expected <query> = <query>.replace('(check-sat)', '')")
    if an != "args":
        raise TranslateError(f"{where}: the configuration parameter is not called args")
    atoms = {"args.cache_solver": "cache_solver", "self.sliced is None": "sliced_none",
             "self.sliced is not None": "(negb sliced_none)", "not args.cache_solver": "(negb cache_solver)"}
    return _query_block(where, body[1:-2], atoms, q)


EXTEND_COPY = [
    "self.conditions = path.conditions.copy()",
    "self.concretization = deepcopy(path.concretization)",
    "self.related = path.related.copy()",
    "self.var_to_conds = deepcopy(path.var_to_conds)",
    "self.term_to_vars = path.term_to_vars",
]
ADD_ALL = rf"for ({ID}) in self\.conditions:\n    self\.solver\.add\(\1\)"
ADD_SLICED = rf"for ({ID}), ({ID}) in enumerate\(self\.conditions\):\n    if \1 in path\.sliced:\n        self\.solver\.add\(\2\)"


def _adds(where, stmts, atoms):
    """-> (term of type sadd) for a statement list that ends the function"""
    stmts = list(stmts)
    if stmts and isinstance(stmts[-1], ast.Return) and stmts[-1].value is None:
        stmts = stmts[:-1]
    import re

    srcs = [_src(s) for s in stmts]
    if len(srcs) == 1 and re.fullmatch(ADD_ALL, srcs[0]):
        return "AddAll"
    if len(srcs) == 1 and re.fullmatch(ADD_SLICED, srcs[0]):
        return "AddSliced"
    if stmts and isinstance(stmts[0], ast.If):
        st = stmts[0]
        g = _guard(where, st.test, atoms)
        returns = bool(st.body) and isinstance(st.body[-1], ast.Return)
        if st.orelse:
            if len(stmts) != 1:
                _fail(where, stmts[1], "statements after an if/else")
            return f"(if {g} then {_adds(where, st.body, atoms)} else {_adds(where, st.orelse, atoms)})"
        if not returns:
            _fail(where, st, "a guarded block that falls through")
        return f"(if {g} then {_adds(where, st.body, atoms)} else {_adds(where, stmts[1:], atoms)})"
    _fail(where, stmts[0] if stmts else ast.Pass(), "unexpected solver additions")


def _tr_extend_path(fn):
    where = "Path.extend_path"
    if [a.arg for a in fn.args.args] != ["self", "path"] or fn.decorator_list:
        raise TranslateError(f"{where}: unexpected signature")
    body = strip_docstring(fn.body)
    head = [_src(s) for s in body[:len(EXTEND_COPY)]]
    if head != EXTEND_COPY:
        raise TranslateError(f"{where}: the inherited containers are not copied as expected: {head}")
    atoms = {"path.sliced is None": "parent_sliced_none", "path.sliced is not None": "(negb parent_sliced_none)"}
    return _adds(where, body[len(EXTEND_COPY):], atoms)


def _check_append(fn):
    where = "Path.append"
    body = strip_docstring(fn.body)
    srcs = [_src(s) for s in body]
    need = ["cond = simplify(cond)", "if is_true(cond):\n    return", "if cond in self.conditions:\n    return",
            "self.solver.add(cond)", "self.conditions[cond] = branching"]
    pos = []
    for n in need:
        if srcs.count(n) != 1:
            raise TranslateError(f"{where}: expected exactly one `{n}`")
        pos.append(srcs.index(n))
    if pos != sorted(pos):
        raise TranslateError(f"{where}: statements in an unexpected order")
    for i, st in enumerate(body):
        s = srcs[i]
        if s in need:
            continue
        for x in ast.walk(st):
            if isinstance(x, ast.Return):
                raise TranslateError(f"{where}: extra return at line {x.lineno}")
        if "self.solver" in s or "self.conditions[" in s or "self.conditions =" in s:
            raise TranslateError(f"{where}: unexpected use of self.solver / self.conditions: {s[:80]!r}")


def translate(src_text):
    tree = ast.parse(src_text)
    src = _tr_to_smt2(find_function(tree, "to_smt2", cls="Path"))
    adds = _tr_extend_path(find_function(tree, "extend_path", cls="Path"))
    _check_append(find_function(tree, "append", cls="Path"))
    br = find_function(tree, "branch", cls="Path")
    if sum(1 for s in br.body if _src(s) == "path.conditions = self.conditions.copy()") != 1:
        raise TranslateError("Path.branch: path.conditions = self.conditions.copy() expected once")
    lines = [
        "(* GENERATED by translate/t_pathquery.py from src/halmos/sevm.py -- do not edit *)",
        "From Coq Require Import Bool.",
        "From HV Require Import Model.PathQueryDefs.",
        "",
        "(* Path.to_smt2: where the asserted conditions are taken from *)",
        "Definition gen_query_source (cache_solver sliced_none : bool) : qsrc :=",
        f"  {src}.",
        "",
        "(* Path.extend_path: what is added to the solver of the continuing path *)",
        "Definition gen_extend_adds (parent_sliced_none : bool) : sadd :=",
        f"  {adds}.",
        "",
    ]
    return "\n".join(lines), {"source": src, "adds": adds}


def selfcheck(info):
    """the correspondence run of C04 (family `path`) drives real Path objects through appends,
    slices and extensions and compares the asserted conditions of to_smt2 and the solver's
    assertions with the extracted model"""
    return []
