"""T-probes: /repo/src/halmos/__main__.py -> coq/Gen/GenProbes.v

Assertion failures inside invariant target functions ("probes").  _compute_frontier hands a failing
end state to a CounterexampleHandler unless its function is in ContractContext.probes_reported; the
solver answers later, on another thread, in CounterexampleHandler._solve_end_to_end_callback.  What
matters for 'every assertion inside a target is checked' is WHEN a function enters probes_reported.
Regenerated from the source text (ast, fail-closed):

    probe_skip_if_reported : bool                         _compute_frontier skips a failing path whose function is marked
    probe_submit_marks     : bool                         handle_assertion_violation marks the function when the query is queued
    probe_callback_marks   : sresult -> bool -> bool      the callback marks the function (given the solver's result and
                                                          whether a model came with it): the early returns before the
                                                          `probes_reported.add` statement, in order
    probe_callback_reports : sresult -> bool -> bool      the callback reaches the counterexample output (`if model.is_valid:`)

Every mention of `probes_reported` in the module must be one of: the membership test in
_compute_frontier, an `if self.is_probe: ctx.contract_ctx.probes_reported.add(ex.context.message.fun_info)`
statement at the top level of handle_assertion_violation or of the callback.
"""
import ast

from .pyexpr import TranslateError, find_function

NAME = "T-probes"
SRC = "__main__.py"
OUT = "GenProbes.v"

ADD_STMT = "if self.is_probe:\n    ctx.contract_ctx.probes_reported.add(ex.context.message.fun_info)"
RESULTS = {"unsat": "RUnsat", "unknown": "RUnknown", "sat": "RSat"}


def _fail(node, why):
    try:
        src = ast.unparse(node)
    except Exception:  # noqa: BLE001
        src = repr(node)
    raise TranslateError(f"T-probes: unsupported shape ({why}): {src[:200]!r} at line {getattr(node, 'lineno', '?')}")


def _body(fn):
    return [s for s in fn.body if not (isinstance(s, ast.Expr) and isinstance(s.value, ast.Constant) and isinstance(s.value.value, str))]


def _guard(test):
    """condition of an early return -> (gallina bool, python predicate over (result, has_model))"""
    if isinstance(test, ast.Compare) and len(test.ops) == 1:
        l, op, r = test.left, test.ops[0], test.comparators[0]
        if isinstance(l, ast.Name) and l.id == "result" and isinstance(op, ast.Eq):
            if isinstance(r, ast.Name) and r.id in RESULTS:
                c = RESULTS[r.id]
                return f"(sres_eqb r {c})", (lambda res, hm, c=c: res == c)
            if isinstance(r, ast.Constant) and r.value == "err":
                return "(sres_eqb r RErr)", (lambda res, hm: res == "RErr")
        if isinstance(l, ast.Name) and l.id == "model" and isinstance(op, ast.Is) and isinstance(r, ast.Constant) and r.value is None:
            return "(negb has_model)", (lambda res, hm: not hm)
    _fail(test, "condition of an early return in the callback")


def _prefix_guards(stmts, is_target, what):
    """the early returns among the top-level statements before the first statement with is_target"""
    guards = []
    for st in stmts:
        if is_target(st):
            return guards
        if isinstance(st, ast.If) and not any(isinstance(n, (ast.Return, ast.Raise, ast.Yield, ast.Await)) for n in ast.walk(st)):
            continue  # a conditional that cannot leave the function (printing, marking) does not guard what follows
        if isinstance(st, ast.If):
            if st.orelse or not st.body or not isinstance(st.body[-1], ast.Return) or st.body[-1].value is not None:
                _fail(st, f"conditional before {what} that is not an early return")
            if any(isinstance(n, (ast.Return, ast.Raise)) for b in st.body[:-1] for n in ast.walk(b)):
                _fail(st, "nested exits")
            guards.append(_guard(st.test))
        elif isinstance(st, (ast.Assign, ast.AnnAssign, ast.Expr)):
            if any(isinstance(n, (ast.Yield, ast.Await)) for n in ast.walk(st)):
                _fail(st, "statement")
        else:
            _fail(st, f"statement before {what}")
    return None


def translate(text):
    tree = ast.parse(text)
    n_mentions = sum(1 for n in ast.walk(tree) if isinstance(n, ast.Attribute) and n.attr == "probes_reported")
    # ---- _compute_frontier: the skip
    cf = find_function(tree, "_compute_frontier")
    skips = [n for n in ast.walk(cf) if isinstance(n, ast.If) and "probes_reported" in ast.unparse(n.test)]
    skip = False
    accounted = 0
    if skips:
        if len(skips) != 1 or ast.unparse(skips[0]) != "if fun_info in ctx.probes_reported:\n    continue":
            _fail(skips[0], "use of probes_reported in _compute_frontier")
        # in the same block: fun_info = subcall.message.fun_info before it, the handler call after it
        blocks = [n.body for n in ast.walk(cf) if hasattr(n, "body") and isinstance(n.body, list) and skips[0] in n.body]
        srcs = [ast.unparse(s) for s in blocks[0]]
        i = srcs.index(ast.unparse(skips[0]))
        if "fun_info = subcall.message.fun_info" not in srcs[:i]:
            raise TranslateError("_compute_frontier: `fun_info = subcall.message.fun_info` expected before the probes_reported test")
        if not any("handler.handle_assertion_violation(" in s and "ex=post_ex" in s for s in srcs[i + 1:]):
            raise TranslateError("_compute_frontier: handler.handle_assertion_violation(..., ex=post_ex, ...) expected after the probes_reported test")
        if "subcall = post_ex.context" not in [ast.unparse(s) for n in ast.walk(cf) if hasattr(n, "body") and isinstance(n.body, list) for s in n.body]:
            raise TranslateError("_compute_frontier: `subcall = post_ex.context` not found")
        skip = True
        accounted += 1
    # ---- handle_assertion_violation: marks at submission?
    hav = _body(find_function(tree, "handle_assertion_violation", cls="CounterexampleHandler"))
    submit_marks = sum(1 for s in hav if ast.unparse(s) == ADD_STMT)
    if submit_marks > 1:
        raise TranslateError("handle_assertion_violation: several probes_reported.add statements")
    accounted += submit_marks
    if sum(1 for s in hav for n in ast.walk(s) if isinstance(n, ast.Attribute) and n.attr == "probes_reported") != submit_marks:
        raise TranslateError("handle_assertion_violation: probes_reported is used in an unexpected way")
    if submit_marks and "ctx = self.ctx" not in [ast.unparse(s) for s in hav]:
        raise TranslateError("handle_assertion_violation: ctx is not self.ctx")
    # ---- the callback
    cb_fn = find_function(tree, "_solve_end_to_end_callback", cls="CounterexampleHandler")
    cb = _body(cb_fn)
    srcs = [ast.unparse(s) for s in cb]
    for need in ("ctx = self.ctx", "solver_output: SolverOutput = self._get_solver_output(future, path_ctx)", "result, model = (solver_output.result, solver_output.model)"):
        if need not in srcs:
            raise TranslateError(f"_solve_end_to_end_callback: `{need}` expected, found {srcs[:6]}")
    n_cb = sum(1 for s in cb for n in ast.walk(s) if isinstance(n, ast.Attribute) and n.attr == "probes_reported")
    marks = _prefix_guards(cb, lambda s: ast.unparse(s) == ADD_STMT, "the probes_reported.add statement")
    if (marks is None) != (n_cb == 0) or n_cb > 1:
        raise TranslateError("_solve_end_to_end_callback: probes_reported is used in an unexpected way")
    accounted += n_cb
    reports = _prefix_guards(cb, lambda s: isinstance(s, ast.If) and ast.unparse(s.test) == "model.is_valid", "the counterexample output")
    if reports is None:
        raise TranslateError("_solve_end_to_end_callback: `if model.is_valid:` not found at the top level")
    if accounted != n_mentions:
        raise TranslateError(f"probes_reported is mentioned {n_mentions} times in the module, {accounted} are understood")

    def gal(guards):
        if guards is None:
            return "false"
        out = "true"
        for g, _ in reversed(guards):
            out = f"if {g} then false else ({out})"
        return out

    gen = f"""(* GENERATED by translate/t_probes.py from src/halmos/__main__.py (_compute_frontier, CounterexampleHandler) -- do not edit *)
From Coq Require Import ZArith List Bool.
From HV Require Import Spec.ProbeSpec.
Import ListNotations.
Open Scope Z_scope.

(* _compute_frontier: `if fun_info in ctx.probes_reported: continue` before the handler is called *)
Definition probe_skip_if_reported : bool := {str(skip).lower()}.

(* handle_assertion_violation: the function is marked as reported when its query is submitted *)
Definition probe_submit_marks : bool := {str(bool(submit_marks)).lower()}.

(* _solve_end_to_end_callback: the function is marked as reported (result of the solver, a model came with it) *)
Definition probe_callback_marks (r : sresult) (has_model : bool) : bool :=
  {gal(marks)}.

(* _solve_end_to_end_callback: the counterexample output is reached *)
Definition probe_callback_reports (r : sresult) (has_model : bool) : bool :=
  {gal(reports)}.
"""
    info = {"skip": skip, "submit_marks": bool(submit_marks), "marks": None if marks is None else [p for _, p in marks], "reports": [p for _, p in reports]}
    return gen, info


def py_guards(guards, res, has_model):
    if guards is None:
        return False
    return not any(p(res, has_model) for p in guards)


def selfcheck(info):
    """the translated callback decisions against the real callback run on fabricated solver outputs"""
    from concurrent.futures import Future
    from types import SimpleNamespace as NS

    import z3

    import halmos.__main__ as m

    bad = []
    fi = m.FunctionInfo("C", "f", "f()", "00000000")
    table = {"RSat": z3.sat, "RUnsat": z3.unsat, "RUnknown": z3.unknown, "RErr": "err"}
    for res, zres in table.items():
        for has_model in (True, False):
            reported = set()
            cctx = NS(probes_reported=reported)
            valid, invalid = [], []
            ctx = NS(args=NS(verbose=0, early_exit=False), solver_outputs=[], contract_ctx=cctx, valid_counterexamples=valid, invalid_counterexamples=invalid,
                     call_sequences={0: ""}, traces={}, append_unsat_core=lambda c: None, info=fi,
                     solving_ctx=NS(executor=NS(is_shutdown=lambda: False, shutdown=lambda wait=False: None), dump_dir="/tmp/x"))
            model = NS(is_valid=True) if has_model else None
            out = NS(result=zres, model=model, path_id=0, unsat_core=None, error="e", returncode=1, query_file="/nonexistent/q.smt2")
            h = m.CounterexampleHandler(ctx=ctx, is_invariant=True, is_probe=True, flamegraph_enabled=False, potential_flamegraphs={}, submitted_futures=[])
            fut = Future()
            fut.set_result(out)
            ex = NS(context=NS(message=NS(fun_info=fi)))
            try:
                import contextlib
                import io

                with contextlib.redirect_stdout(io.StringIO()), contextlib.redirect_stderr(io.StringIO()):
                    # _save_failed_query touches the file system for err / unknown: neutralised
                    orig =m.CounterexampleHandler._save_failed_query
                    m.CounterexampleHandler._save_failed_query = lambda *a, **k: None
                    try:
                        h._solve_end_to_end_callback(fut, ex=ex, path_ctx=NS(path_id=0, dump_file="/nonexistent/q.smt2"), description=None)
                    finally:
                        m.CounterexampleHandler._save_failed_query = orig
            except Exception as e:  # noqa: BLE001
                bad.append(f"callback raised on fabricated output {res}/{has_model}: {type(e).__name__}: {e}")
                continue
            real_marks = fi in reported
            real_reports = bool(valid or invalid)
            if real_marks != py_guards(info["marks"], res, has_model):
                bad.append(f"callback({res}, model={has_model}): implementation marks={real_marks}, translated {py_guards(info['marks'], res, has_model)}")
            if real_reports != py_guards(info["reports"], res, has_model):
                bad.append(f"callback({res}, model={has_model}): implementation reports={real_reports}, translated {py_guards(info['reports'], res, has_model)}")
    return bad[:3]
