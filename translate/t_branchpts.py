"""T-branchpts: the other branch points of the exploration (src/halmos/sevm.py) -> coq/Gen/GenBranch.v

  * SEVM.resolve_address_alias   -- which aliases of a symbolic address are explored
  * SEVM.handle_insufficient_fund_case / SEVM.transfer_value -- the insufficient-funds fork
  * the symbolic-JUMP arm of SEVM.run -- which jump destinations are explored

For each of them the statement skeleton must be exactly the modelled one (fail-closed: the
function is normalised -- docstrings, comments and debug calls dropped -- and compared
statement by statement with the expected shape), and the *decision expressions*, i.e. the
tests on the solver's answer that decide whether an alternative is kept, are translated to
Gallina.  Model/BranchPoints.v is written over these generated decision functions; the
theorems of Proofs/BranchProofs.v (every input is covered by a kept alternative, under a
sound oracle) are therefore re-checked against what the code says now: `!= unsat` turned
into `== sat` makes the completeness proofs fail.
Solver answers are encoded sat = 1, unsat = 0, unknown = 2.
"""
import ast

from .pyexpr import TranslateError, Translator, find_function, strip_docstring

NAME = "T-branchpts"
SRC = "sevm.py"
OUT = "GenBranch.v"

DROP_CALLS = {"debug_once", "debug"}


def _norm(stmts):
    out = []
    for s in strip_docstring(list(stmts)):
        if isinstance(s, ast.Expr) and isinstance(s.value, ast.Call) and ast.unparse(s.value.func) in DROP_CALLS:
            continue
        if isinstance(s, ast.Expr) and isinstance(s.value, ast.Constant) and isinstance(s.value.value, str):
            continue
        out.append(s)
    return out


def _src(node):
    return " ".join(ast.unparse(node).split())


class Matcher:
    """walks a normalised statement list against an expected skeleton.  Skeleton items:
         "text"                    the statement must unparse to exactly this text
         ("if", test, body, orelse) test: text or ("decision", name, check_expr_text)
         ("for", header_text, body)
    """

    def __init__(self, where):
        self.where = where
        self.decisions = {}

    def fail(self, msg):
        raise TranslateError(f"{self.where}: {msg}")

    def block(self, stmts, skel):
        stmts = _norm(stmts)
        if len(stmts) != len(skel):
            self.fail(f"{len(stmts)} statements where {len(skel)} are modelled: {[_src(s)[:60] for s in stmts]}")
        for st, sk in zip(stmts, skel):
            self.stmt(st, sk)

    def stmt(self, st, sk):
        if isinstance(sk, str):
            if _src(st) != sk:
                self.fail(f"statement {_src(st)[:140]!r} differs from the modelled {sk[:140]!r}")
            return
        if sk[0] == "if":
            if not isinstance(st, ast.If):
                self.fail(f"`if` expected, found {_src(st)[:80]!r}")
            self.test(st.test, sk[1])
            self.block(st.body, sk[2])
            self.block(st.orelse, sk[3])
            return
        if sk[0] == "for":
            if not isinstance(st, ast.For) or st.orelse:
                self.fail(f"`for` expected, found {_src(st)[:80]!r}")
            hdr = f"for {_src(st.target)} in {_src(st.iter)}"
            if hdr != sk[1]:
                self.fail(f"loop header {hdr!r} differs from the modelled {sk[1]!r}")
            self.block(st.body, sk[2])
            return
        raise AssertionError(sk)

    def test(self, node, sk):
        if isinstance(sk, str):
            if _src(node) != sk:
                self.fail(f"guard {_src(node)[:120]!r} differs from the modelled {sk!r}")
            return
        _tag, name, check_text = sk
        self.decisions[name] = decision(node, check_text, self.where)


class _Subst(ast.NodeTransformer):
    def __init__(self, check_text):
        self.check_text = check_text
        self.hits = 0

    def visit_Call(self, node):
        if _src(node) == self.check_text:
            self.hits += 1
            return ast.copy_location(ast.Name(id="answer", ctx=ast.Load()), node)
        raise TranslateError(f"unexpected call in a decision expression: {_src(node)[:100]!r}")


def decision(node, check_text, where):
    """`<expr over ex.check(c)>` -> Gallina bool over `answer : Z`"""
    sub = _Subst(check_text)
    node2 = sub.visit(ast.parse(_src(node), mode="eval").body)
    if sub.hits != 1:
        raise TranslateError(f"{where}: the guard {_src(node)[:100]!r} does not test {check_text} exactly once")
    tr = Translator(names={"answer": "answer"}, consts={"sat": 1, "unsat": 0, "unknown": 2})
    return tr.tr(node2).as_bool()


ALIAS = [
    ("if", "type(target) is BV", ["target = target.as_z3()"], []),
    "assert_bv(target)",
    "assert target.size() == 160",
    ("if", "target in ex.code", ["return target"], []),
    ("if", "is_bv_value(target)", ["return None"], []),
    ("if", "target in ex.alias", ["return ex.alias[target]"], []),
    "potential_aliases = []",
    ("for", "for addr in ex.code", [
        ("if", "eq(addr, FOUNDRY_TEST)", ["continue"], []),
        "alias_cond = target == addr",
        ("if", ("decision", "alias_keep", "ex.check(alias_cond)"), ["potential_aliases.append((addr, alias_cond))"], []),
    ]),
    "emptyness_cond = And([target != addr for addr in ex.code])",
    ("if", ("decision", "alias_empty_keep", "ex.check(emptyness_cond)"), ["potential_aliases.append((None, emptyness_cond))"], []),
    ("if", "not potential_aliases", ["raise InfeasiblePath('resolve_address_alias: no potential aliases')"], []),
    "head, *tail = potential_aliases",
    ("if", "not allow_branching and tail", ["raise HalmosException(f'multiple aliases exist: {hexify(target)}')"], []),
    ("for", "for (addr, cond) in tail", [
        "new_ex = self.create_branch(ex, cond, ex.pc)",
        "new_ex.alias[target] = addr",
        "stack.push(new_ex)",
    ]),
    "addr, cond = head",
    "ex.path.append(cond, branching=True)",
    "ex.alias[target] = addr",
    "return addr",
]

FUNDS = [
    ("if", "value == ZERO", ["return"], []),
    "insufficiency_cond = simplify(ULT(ex.balance_of(caller), value.as_z3()))",
    ("if", ("decision", "funds_fail_keep", "ex.check(insufficiency_cond)"), [
        "fail_ex = self.create_branch(ex, insufficiency_cond, ex.pc)",
        "fail_ex.context.trace.append(CallContext(message=message, output=CallOutput(data=ByteVec(), error=InsufficientFunds()), depth=ex.context.depth + 1))",
        "fail_ex.st.push(ZERO)",
        "fail_ex.advance()",
        "stack.push(fail_ex)",
    ], []),
]

TRANSFER = [
    ("if", "value.is_concrete and value.value == 0", ["return"], []),
    "caller_balance: BitVecRef = ex.balance_of(caller)",
    "balance_cond = simplify(UGE(caller_balance, value.as_z3()))",
    ("if", "is_false(balance_cond)", ["raise InfeasiblePath('transfer_value: balance is not enough')"], []),
    "ex.path.append(balance_cond)",
    ("if", "condition is not None", ["value = If(condition, value, Z3_ZERO)"], []),
    "ex.balance_update(caller, BV(caller_balance).sub(value))",
    "ex.balance_update(to, BV(ex.balance_of(to)).add(value))",
]

JUMP = [
    "dst = state.pop()",
    ("if", "dst.is_concrete", [
        "target = dst.value",
        ("if", "target not in ex.pgm.valid_jumpdests()", ["raise InvalidJumpDestError(target)"], []),
        "ex.advance(pc=target + 1)",
        "next_ex = ex",
    ], [
        ("if", "self.options.symbolic_jump", [
            "reachable_targets = JUMP_COMPREHENSION",
            ("if", "not reachable_targets", ["raise InvalidJumpDestError(dst)"], []),
            ("for", "for target in reachable_targets", [
                "cond = dst.as_z3() == target",
                "new_ex = self.create_branch(ex, cond, target)",
                "stack.push(new_ex)",
            ]),
            "invalid_cond = And([dst.as_z3() != target for target in ex.pgm.valid_jumpdests()])",
            ("if", ("decision", "jump_invalid_keep", "ex.check(invalid_cond)"), [
                "bad_ex = self.create_branch(ex, invalid_cond, ex.pc)",
                "bad_ex.st.push(BV(len(ex.pgm)))",
                "stack.push(bad_ex)",
            ], []),
        ], ["raise NotConcreteError(f'symbolic JUMP target: {dst}')"]),
    ]),
    "continue",
]


def jump_arm(run_fn):
    """the `elif opcode == OP_JUMP:` arm of the dispatch in SEVM.run"""
    found = []
    for node in ast.walk(run_fn):
        if isinstance(node, ast.If) and _src(node.test) == "opcode == OP_JUMP":
            found.append(node)
    if len(found) != 1:
        raise TranslateError(f"SEVM.run: {len(found)} arms `opcode == OP_JUMP` found, exactly one expected")
    return found[0].body


def jump_decision(body, m):
    """the comprehension [target for target in valid_jumpdests() if ex.check(dst == target) != unsat]
    is taken apart by hand (its filter is the decision), then replaced by a placeholder"""
    for node in ast.walk(ast.Module(body=body, type_ignores=[])):
        if isinstance(node, ast.Assign) and _src(node.targets[0]) == "reachable_targets":
            lc = node.value
            if not (isinstance(lc, ast.ListComp) and _src(lc.elt) == "target" and len(lc.generators) == 1):
                raise TranslateError("symbolic JUMP: reachable_targets is not the modelled comprehension")
            g = lc.generators[0]
            if _src(g.target) != "target" or _src(g.iter) != "ex.pgm.valid_jumpdests()" or len(g.ifs) != 1 or g.is_async:
                raise TranslateError("symbolic JUMP: the comprehension ranges over something else than ex.pgm.valid_jumpdests() with one filter")
            m.decisions["jump_keep"] = decision(g.ifs[0], "ex.check(dst.as_z3() == target)", "symbolic JUMP")
            node.value = ast.Name(id="JUMP_COMPREHENSION", ctx=ast.Load())
            return
    raise TranslateError("symbolic JUMP: assignment to reachable_targets not found")


def funds_sites(tree):
    """SEVM.call / SEVM.create: every function that forks on insufficient funds must debit the same account by the
    same amount on the side that goes ahead.  -> True iff in both functions the (payer, amount) arguments of
    handle_insufficient_fund_case and of every transfer_value coincide; fail closed on an unexpected call shape."""
    same = True
    for fname in ("call", "create"):
        fn = find_function(tree, fname, cls="SEVM")
        forks, moves = [], []
        for node in ast.walk(fn):
            if isinstance(node, ast.Call) and _src(node.func) == "self.handle_insufficient_fund_case":
                if len(node.args) != 5 or node.keywords:
                    raise TranslateError(f"SEVM.{fname}: handle_insufficient_fund_case call shape {_src(node)}")
                forks.append((_src(node.args[0]), _src(node.args[1])))
            if isinstance(node, ast.Call) and _src(node.func) == "self.transfer_value":
                if len(node.args) not in (4, 5) or node.keywords or _src(node.args[0]) != "ex":
                    raise TranslateError(f"SEVM.{fname}: transfer_value call shape {_src(node)}")
                moves.append((_src(node.args[1]), _src(node.args[3])))
        if len(forks) != 1 or not moves:
            raise TranslateError(f"SEVM.{fname}: {len(forks)} insufficient-funds forks and {len(moves)} transfers found")
        same = same and all(mv == forks[0] for mv in moves)
    return same


def translate(src_text):
    tree = ast.parse(src_text)
    decisions = {}
    for fname, skel in (("resolve_address_alias", ALIAS), ("handle_insufficient_fund_case", FUNDS), ("transfer_value", TRANSFER)):
        fn = find_function(tree, fname, cls="SEVM")
        m = Matcher(f"SEVM.{fname}")
        m.block(fn.body, skel)
        decisions.update(m.decisions)
    m = Matcher("SEVM.run, arm OP_JUMP")
    body = jump_arm(find_function(tree, "run", cls="SEVM"))
    jump_decision(body, m)
    m.block(body, JUMP)
    decisions.update(m.decisions)
    payer_same = funds_sites(tree)
    want = ["alias_keep", "alias_empty_keep", "funds_fail_keep", "jump_keep", "jump_invalid_keep"]
    if sorted(decisions) != sorted(want):
        raise TranslateError(f"decision expressions found: {sorted(decisions)}, expected {sorted(want)}")
    lines = ["(* GENERATED by translate/t_branchpts.py from SEVM.resolve_address_alias, handle_insufficient_fund_case,",
             "   transfer_value and the OP_JUMP arm of SEVM.run in src/halmos/sevm.py -- do not edit *)",
             "From Coq Require Import ZArith Bool.", "Open Scope Z_scope.", "",
             "(* solver answers: unsat = 0, sat = 1, unknown = 2; `answer` is the result of ex.check(alternative) *)"]
    for name in want:
        lines.append(f"Definition {name} (answer : Z) : bool := {decisions[name]}.")
    lines += ["",
              "(* structural facts checked by the translator (the statement skeletons are the modelled ones):",
              "   - alias candidates: every account of ex.code except FOUNDRY_TEST; the empty-account alternative",
              "     is And(target != a) over ALL of ex.code; all alternatives are computed before the path is extended;",
              "   - insufficient funds: fail side ULT(balance, value), kept by funds_fail_keep; succeeding side",
              "     UGE(balance, value) appended by transfer_value, dropped only when it simplifies to false;",
              "   - symbolic JUMP: one branch per valid destination kept by jump_keep; if no destination is kept the whole state",
              "     halts; otherwise the inputs whose destination is none of the valid ones get a branch of their own (kept by",
              "     jump_invalid_keep) on which the JUMP is executed again with a concrete invalid destination and halts;",
              "   - call sites (SEVM.call, SEVM.create): funds_payer_same = the account (and the amount) whose balance decides",
              "     the insufficient-funds fork is the one transfer_value debits on the side that goes ahead. *)",
              f"Definition funds_payer_same : bool := {'true' if payer_same else 'false'}.",
              "Definition alias_skips_test_contract : bool := true.",
              "Definition jump_reports_invalid_destination : bool := true.", ""]
    info = {"decisions": decisions}
    return "\n".join(lines), info


def selfcheck(info):
    probs = []
    for k, v in info["decisions"].items():
        if "answer" not in v:
            probs.append(f"{k}: the decision does not depend on the solver's answer")
    return probs
