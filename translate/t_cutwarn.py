"""T-cutwarn: the --depth cut of SEVM.run (src/halmos/sevm.py) -> coq/Gen/GenCutWarn.v

    if max_depth and step_id > max_depth:
        warn(f"{self.fun_info.sig}: incomplete execution due to the specified limit: --depth {max_depth}",
             allow_duplicate=False)
        continue

Emits
  * depth_cut (max_depth step_id : Z) : bool          the guard (max_depth = self.options.depth, 0 = unlimited)
  * depth_warn_dedup : bool                           is the warning sent through the de-duplicating logger
  * depth_warn_key : list fi_field                    which FunctionInfo fields the message text interpolates
                                                      (the text is the key of the de-duplication)
  * depth_warn_mentions_limit : bool                  is `max_depth` interpolated as well
  * unsupported_opcode_is_halmos_exception : bool     what the catch-all arm of the opcode dispatch raises
  * run_message_resets_logs : bool                    does SEVM.run_message replace / clear self.logs
Fail-closed: the cut must be exactly `warn(<f-string>[, allow_duplicate=<const>])` followed by `continue`,
directly in the interpreter loop; a local used in the f-string must be a single-assignment alias of a
`self.fun_info.<field>` / `self.options.depth`.
"""
import ast

from .pyexpr import TranslateError, Translator, find_function

NAME = "T-cutwarn"
SRC = "sevm.py"
OUT = "GenCutWarn.v"

FIELDS = {"contract_name": "FContract", "name": "FName", "sig": "FSig", "selector": "FSelector"}
HALMOS_EXC = {"HalmosException", "NotConcreteError"}
NEEDLE = "incomplete execution due to the specified limit: --depth"


def _aliases(fn):
    """single-assignment locals of `run` defined as self.fun_info.<f> or self.options.depth"""
    count, val = {}, {}
    for n in ast.walk(fn):
        targets = []
        if isinstance(n, ast.Assign):
            targets = n.targets
        elif isinstance(n, (ast.AugAssign, ast.AnnAssign)):
            targets = [n.target]
        elif isinstance(n, (ast.For, ast.comprehension)):
            targets = [n.target]
        for t in targets:
            for m in ast.walk(t):
                if isinstance(m, ast.Name):
                    count[m.id] = count.get(m.id, 0) + 1
                    if isinstance(n, ast.Assign) and len(n.targets) == 1 and isinstance(t, ast.Name):
                        val[m.id] = ast.unparse(n.value)
    return {k: v for k, v in val.items() if count.get(k) == 1}


def _unsupported_opcode(run):
    """the final `else:` of the opcode dispatch chain of SEVM.run: what is raised for an opcode without a handler"""
    chains = [n for n in ast.walk(run) if isinstance(n, ast.If) and ast.unparse(n.test).startswith("OP_PUSH1 <= opcode")]
    if len(chains) != 1:
        raise TranslateError(f"SEVM.run: the opcode dispatch chain (if OP_PUSH1 <= opcode ...) found {len(chains)} times")
    node, n_arms = chains[0], 0
    while len(node.orelse) == 1 and isinstance(node.orelse[0], ast.If):
        node = node.orelse[0]
        n_arms += 1
    if n_arms < 40 or not node.orelse:
        raise TranslateError("SEVM.run: the opcode dispatch chain has no final else")
    body = [st for st in node.orelse if not (isinstance(st, ast.Expr) and isinstance(st.value, ast.Constant))]
    if len(body) != 1 or not isinstance(body[0], ast.Raise) or not isinstance(body[0].exc, ast.Call) or not isinstance(body[0].exc.func, ast.Name):
        raise TranslateError(f"SEVM.run: the catch-all arm of the dispatch is not a single `raise <Exception>(...)`: {[ast.unparse(x)[:60] for x in body]}")
    return body[0].exc.func.id


def _run_message_logs(tree):
    """does SEVM.run_message touch self.logs (an invariant test drives ONE SEVM over every frontier state and reads
    sevm.logs once at the end); and is self.logs created once, in __init__"""
    rm = find_function(tree, "run_message", cls="SEVM")
    init = find_function(tree, "__init__", cls="SEVM")
    run = find_function(tree, "run", cls="SEVM")

    def writes_logs(fn):
        out = []
        for n in ast.walk(fn):
            tg = n.targets if isinstance(n, ast.Assign) else [n.target] if isinstance(n, (ast.AugAssign, ast.AnnAssign)) else []
            out += [t for t in tg if ast.unparse(t) in ("self.logs", "self.logs.bounded_loops")]
            if isinstance(n, ast.Call) and isinstance(n.func, ast.Attribute) and n.func.attr in ("clear", "pop", "remove") and ast.unparse(n.func.value).startswith("self.logs"):
                out.append(n)
            if isinstance(n, ast.Delete) and any(ast.unparse(t).startswith("self.logs") for t in n.targets):
                out.append(n)
        return out

    if [ast.unparse(n) for n in ast.walk(init) if isinstance(n, ast.Assign) and ast.unparse(n.targets[0]) == "self.logs"] != ["self.logs = HalmosLogs()"]:
        raise TranslateError("SEVM.__init__: expected exactly one `self.logs = HalmosLogs()`")
    if writes_logs(run):
        raise TranslateError("SEVM.run: rewrites self.logs")
    return bool(writes_logs(rm))


def translate(src_text):
    tree = ast.parse(src_text)
    fn = find_function(tree, "run", cls="SEVM")
    alias = _aliases(fn)
    def has_needle(node):
        return any(isinstance(m, ast.Constant) and isinstance(m.value, str) and NEEDLE in m.value for m in ast.walk(node))

    cuts = [n for n in ast.walk(fn) if isinstance(n, ast.If) and any(has_needle(st) for st in n.body if isinstance(st, ast.Expr))]
    n_needles = sum(1 for m in ast.walk(fn) if isinstance(m, ast.Constant) and isinstance(m.value, str) and NEEDLE in m.value)
    if len(cuts) != 1 or n_needles != 1:
        raise TranslateError(f"SEVM.run: expected exactly one `if ...: warn('... {NEEDLE} ...')`, found {len(cuts)} (the text occurs {n_needles} times)")
    cut = cuts[0]
    if cut.orelse or len(cut.body) != 2:
        raise TranslateError("SEVM.run: the --depth cut must be exactly `warn(...); continue`")
    w, c = cut.body
    if not isinstance(c, ast.Continue):
        raise TranslateError("SEVM.run: the --depth cut does not `continue` (abandon the path)")
    if not (isinstance(w, ast.Expr) and isinstance(w.value, ast.Call) and ast.unparse(w.value.func) == "warn" and len(w.value.args) == 1):
        raise TranslateError(f"SEVM.run: the --depth cut must call warn(<message>): {ast.unparse(w)[:80]}")
    dedup = False
    for k in w.value.keywords:
        if k.arg != "allow_duplicate" or not (isinstance(k.value, ast.Constant) and isinstance(k.value.value, bool)):
            raise TranslateError(f"SEVM.run: unexpected keyword of the --depth warning: {ast.unparse(k)}")
        dedup = not k.value.value
    msg = w.value.args[0]
    if not isinstance(msg, ast.JoinedStr):
        raise TranslateError("SEVM.run: the --depth warning text is not an f-string")
    key, limit = [], False
    for part in msg.values:
        if isinstance(part, ast.Constant):
            continue
        if not isinstance(part, ast.FormattedValue) or part.format_spec is not None or part.conversion != -1:
            raise TranslateError("SEVM.run: unexpected part of the --depth warning f-string")
        src = ast.unparse(part.value)
        src = alias.get(src, src) if isinstance(part.value, ast.Name) else src
        if src.startswith("self.fun_info.") and src[len("self.fun_info."):] in FIELDS:
            key.append(FIELDS[src[len("self.fun_info."):]])
        elif src == "self.options.depth":
            limit = True
        else:
            raise TranslateError(f"SEVM.run: the --depth warning interpolates {ast.unparse(part.value)} (= {src}), which is not a FunctionInfo field")
    # the guard
    names = {}
    for n in ast.walk(cut.test):
        if isinstance(n, ast.Name):
            if n.id == "step_id":
                names["step_id"] = "step_id"
            elif alias.get(n.id) == "self.options.depth":
                names[n.id] = "max_depth"
            else:
                raise TranslateError(f"SEVM.run: the --depth guard mentions {n.id}")
    from .t_runtest import _truthy

    guard = _truthy(Translator(names=names), cut.test)
    unsupported = _unsupported_opcode(fn)
    resets = _run_message_logs(tree)
    # the cut must sit directly in the interpreter loop (`while`/`for` over the worklist), inside at most a try
    b = lambda x: "true" if x else "false"  # noqa: E731
    lines = [
        "(* GENERATED by translate/t_cutwarn.py from SEVM.run in src/halmos/sevm.py -- do not edit *)",
        "From Coq Require Import ZArith Bool List.",
        "Import ListNotations.",
        "Open Scope Z_scope.",
        "",
        "Inductive fi_field := FContract | FName | FSig | FSelector.",
        "",
        "Definition depth_cut (max_depth step_id : Z) : bool :=",
        f"  {guard}.",
        "",
        f"Definition depth_warn_dedup : bool := {b(dedup)}.",
        f"Definition depth_warn_key : list fi_field := [{'; '.join(key)}].",
        f"Definition depth_warn_mentions_limit : bool := {b(limit)}.",
        "",
        "(* the catch-all arm of the opcode dispatch: an opcode without a handler raises this exception class;",
        "   is it a HalmosException (the path is STUCK) -- decided by name here, checked against the imported class hierarchy *)",
        f"Definition unsupported_opcode_is_halmos_exception : bool := {b(unsupported in HALMOS_EXC)}.",
        "",
        "(* does SEVM.run_message replace / clear self.logs (created once in __init__) at every transaction *)",
        f"Definition run_message_resets_logs : bool := {b(resets)}.",
        "",
    ]
    return "\n".join(lines), {"dedup": dedup, "key": key, "limit": limit, "unsupported": unsupported, "resets": resets}


def selfcheck(info):
    from halmos import exceptions as E

    bad = []
    cls = getattr(E, info["unsupported"], None)
    if cls is None:
        bad.append(f"exception class {info['unsupported']} not found in halmos.exceptions")
    elif issubclass(cls, E.HalmosException) != (info["unsupported"] in HALMOS_EXC):
        bad.append(f"{info['unsupported']}: subclass of HalmosException = {issubclass(cls, E.HalmosException)}, translated otherwise")
    return bad
