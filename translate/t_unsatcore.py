"""T-unsatcore: /repo/src/halmos/solve.py -> coq/Gen/GenUnsatCore.v

Regenerates, from the source text of solve.py:
  * `check_unsat_cores` as a Gallina function (quantifier structure: for/if/return True,
    any()/all() generators, `x in q.assertions`, and/or/not), generic in the id type;
  * the regex of `parse_unsat_core`, the pattern/replacement of its `re.sub`, as code-point lists;
  * the literal pieces of the named-assertion f-string of `dump` and the fixed lines of the
    cache-mode query file;
  * the decisions `parse_unsat_core(stdout) if args.cache_solver else None` (from_result) and the
    position of the cache shortcut in `solve_end_to_end` (first effectful statement, returns an
    `unsat` SolverOutput without a core, before any solve_low_level call);
  * what `solve_end_to_end` does after a cache miss (first answer, when and how the query is refined
    and solved again: `gen_e2e_miss`);
  * a census: the cache is touched by its field, append_unsat_core, the one look-up of
    solve_end_to_end and check_unsat_cores only (in particular not by solve_low_level).
Fail-closed: any other shape raises TranslateError.
"""
import ast

from .pyexpr import TranslateError, find_function, strip_docstring

NAME = "T-unsatcore"
SRC = "solve.py"
OUT = "GenUnsatCore.v"


def _fail(node, why):
    raise TranslateError(f"line {getattr(node, 'lineno', '?')}: {why}: {ast.dump(node)[:200]}")


def codepoints(s):
    return "[" + "; ".join(str(ord(c)) for c in s) + "]"


def comment(s):
    return s.replace("(*", "( *").replace("*)", "* )").replace("\n", "\\n")


# ----------------------------------------------------------------- check_unsat_cores

class BoolTr:
    """Boolean expressions over list variables -> Gallina (existsb/forallb/mem)."""

    def __init__(self, query_name, lists):
        self.query = query_name
        self.lists = set(lists)   # names bound to lists of lists / lists
        self.elems = set()        # names bound to elements

    def lst(self, node):
        if isinstance(node, ast.Name) and node.id in self.lists:
            return node.id
        if (isinstance(node, ast.Attribute) and isinstance(node.value, ast.Name)
                and node.value.id == self.query and node.attr == "assertions"):
            return "assertions"
        _fail(node, "unsupported list expression")

    def gen(self, fn, node):
        """any(<e> for x in L) / all(<e> for x in L)"""
        if len(node.args) != 1 or node.keywords or not isinstance(node.args[0], ast.GeneratorExp):
            _fail(node, "any/all: expected a single generator argument")
        g = node.args[0]
        if len(g.generators) != 1:
            _fail(node, "any/all: one `for` clause expected")
        c = g.generators[0]
        if c.ifs or c.is_async or not isinstance(c.target, ast.Name):
            _fail(node, "any/all: plain `for x in L` expected")
        lst = self.lst(c.iter)
        var = c.target.id
        saved = (set(self.lists), set(self.elems))
        # an element of a list of lists is itself a list; we cannot know statically, allow both uses
        self.lists.add(var)
        self.elems.add(var)
        body = self.tr(g.elt)
        self.lists, self.elems = saved
        return f"({fn} (fun {var} => {body}) {lst})"

    def tr(self, node):
        if isinstance(node, ast.Constant) and isinstance(node.value, bool):
            return "true" if node.value else "false"
        if isinstance(node, ast.BoolOp):
            op = "&&" if isinstance(node.op, ast.And) else "||"
            return "(" + f" {op} ".join(self.tr(v) for v in node.values) + ")"
        if isinstance(node, ast.UnaryOp) and isinstance(node.op, ast.Not):
            return f"(negb {self.tr(node.operand)})"
        if isinstance(node, ast.Call) and isinstance(node.func, ast.Name) and node.func.id in ("any", "all"):
            return self.gen("existsb" if node.func.id == "any" else "forallb", node)
        if isinstance(node, ast.Compare) and len(node.ops) == 1 and isinstance(node.ops[0], (ast.In, ast.NotIn)):
            if not (isinstance(node.left, ast.Name) and node.left.id in self.elems):
                _fail(node, "membership: element variable expected on the left")
            r = f"(mem {node.left.id} {self.lst(node.comparators[0])})"
            return r if isinstance(node.ops[0], ast.In) else f"(negb {r})"
        _fail(node, "unsupported boolean expression")

    def stmts(self, body):
        """A block that returns a bool on every path:
             for x in L: if c: return True   ... return False     -> existsb
             for x in L: if c: return False  ... return True      -> forallb (negated cond)
             if c: return a  /  return e
        """
        body = strip_docstring(list(body))
        if not body:
            _fail(ast.Pass(), "block falls through without return")
        s = body[0]
        if isinstance(s, ast.Return) and s.value is not None:
            return self.tr(s.value)
        if isinstance(s, ast.If):
            c = self.tr(s.test)
            a = self.stmts(s.body)
            b = self.stmts(list(s.orelse) + body[1:])
            return f"(if {c} then {a} else {b})"
        if isinstance(s, ast.For):
            if s.orelse or not isinstance(s.target, ast.Name):
                _fail(s, "for: plain loop expected")
            lst = self.lst(s.iter)
            var = s.target.id
            inner = strip_docstring(list(s.body))
            if len(inner) != 1 or not isinstance(inner[0], ast.If) or inner[0].orelse:
                _fail(s, "for body: single `if c: return <bool>` expected")
            iff = inner[0]
            if len(iff.body) != 1 or not isinstance(iff.body[0], ast.Return) or not isinstance(iff.body[0].value, ast.Constant) or not isinstance(iff.body[0].value.value, bool):
                _fail(s, "for body: `return True/False` expected")
            early = iff.body[0].value.value
            saved = (set(self.lists), set(self.elems))
            self.lists.add(var)
            self.elems.add(var)
            c = self.tr(iff.test)
            self.lists, self.elems = saved
            rest = self.stmts(body[1:])
            if early:
                return f"((existsb (fun {var} => {c}) {lst}) || {rest})"
            return f"((forallb (fun {var} => negb {c}) {lst}) && {rest})"
        _fail(s, "unsupported statement")


def tr_check_unsat_cores(tree):
    fn = find_function(tree, "check_unsat_cores")
    params = [a.arg for a in fn.args.args]
    if len(params) != 2:
        raise TranslateError("check_unsat_cores: two parameters expected")
    q, cores = params
    tr = BoolTr(q, [cores])
    body = tr.stmts(fn.body)
    return (
        "Definition gen_check_unsat_cores {A : Type} (mem : A -> list A -> bool)\n"
        f"    (assertions : list A) ({cores} : list (list A)) : bool :=\n  {body}."
    )


# ----------------------------------------------------------------- parse_unsat_core literals

def str_const(node, what):
    if isinstance(node, ast.Constant) and isinstance(node.value, str):
        return node.value
    _fail(node, f"{what}: string literal expected")


def tr_parse_unsat_core(tree):
    fn = find_function(tree, "parse_unsat_core")
    if [a.arg for a in fn.args.args] != ["output"] and len(fn.args.args) != 1:
        raise TranslateError("parse_unsat_core: one parameter expected")
    out_name = fn.args.args[0].arg
    env = {}
    search = None
    subs = []
    for node in ast.walk(fn):
        if isinstance(node, ast.Assign) and len(node.targets) == 1 and isinstance(node.targets[0], ast.Name) and isinstance(node.value, ast.Constant) and isinstance(node.value.value, str):
            env[node.targets[0].id] = node.value.value
    for node in ast.walk(fn):
        if isinstance(node, ast.Call) and isinstance(node.func, ast.Attribute) and isinstance(node.func.value, ast.Name) and node.func.value.id == "re":
            if node.func.attr == "search":
                if search is not None:
                    _fail(node, "parse_unsat_core: more than one re.search")
                search = node
            elif node.func.attr == "sub":
                subs.append(node)
            else:
                _fail(node, "parse_unsat_core: unexpected re.* call")

    def resolve(n, what):
        if isinstance(n, ast.Name) and n.id in env:
            return env[n.id]
        return str_const(n, what)

    if search is None or len(search.args) != 2 or search.keywords:
        raise TranslateError("parse_unsat_core: expected re.search(pattern, output)")
    if not (isinstance(search.args[1], ast.Name) and search.args[1].id == out_name):
        _fail(search, "re.search must scan the function argument")
    pattern = resolve(search.args[0], "re.search pattern")
    if len(subs) != 1 or len(subs[0].args) != 3 or subs[0].keywords:
        raise TranslateError("parse_unsat_core: expected exactly one re.sub(pat, repl, token)")
    sub_pat = resolve(subs[0].args[0], "re.sub pattern")
    sub_repl = resolve(subs[0].args[1], "re.sub replacement")
    # the group that is split into tokens, and the splitting call
    groups = [n for n in ast.walk(fn) if isinstance(n, ast.Call) and isinstance(n.func, ast.Attribute) and n.func.attr == "group"]
    if len(groups) != 1 or len(groups[0].args) != 1 or not isinstance(groups[0].args[0], ast.Constant) or not isinstance(groups[0].args[0].value, int):
        raise TranslateError("parse_unsat_core: expected a single match.group(<int>)")
    group_no = groups[0].args[0].value
    splits = [n for n in ast.walk(fn) if isinstance(n, ast.Call) and isinstance(n.func, ast.Attribute) and n.func.attr == "split"]
    if len(splits) != 1 or splits[0].args or splits[0].keywords or splits[0].func.value is not groups[0]:
        raise TranslateError("parse_unsat_core: expected match.group(n).split() without arguments")
    # the failure branch returns None
    rets = [n for n in ast.walk(fn) if isinstance(n, ast.Return)]
    if len(rets) != 2:
        raise TranslateError("parse_unsat_core: expected two return statements")
    return pattern, sub_pat, sub_repl, group_no


# ----------------------------------------------------------------- dump templates

def tr_dump(tree):
    fn = find_function(tree, "dump")
    # the `if args.cache_solver:` statement
    iff = None
    for s in fn.body:
        if isinstance(s, ast.If) and isinstance(s.test, ast.Attribute) and s.test.attr == "cache_solver":
            iff = s
    if iff is None:
        raise TranslateError("dump: `if args.cache_solver:` not found")
    # named assertions: "".join([f"..." for assert_id in query.assertions])
    fstrs = [n for n in ast.walk(iff) if isinstance(n, ast.ListComp) or isinstance(n, ast.GeneratorExp)]
    if len(fstrs) != 1:
        raise TranslateError("dump: expected exactly one comprehension building the named assertions")
    comp = fstrs[0]
    if len(comp.generators) != 1 or comp.generators[0].ifs or not isinstance(comp.generators[0].target, ast.Name):
        raise TranslateError("dump: comprehension shape")
    it = comp.generators[0].iter
    if not (isinstance(it, ast.Attribute) and it.attr == "assertions"):
        _fail(it, "dump: named assertions must range over query.assertions")
    var = comp.generators[0].target.id
    js = comp.elt
    if not isinstance(js, ast.JoinedStr):
        _fail(js, "dump: f-string expected")
    pieces = [""]
    for v in js.values:
        if isinstance(v, ast.Constant) and isinstance(v.value, str):
            pieces[-1] += v.value
        elif isinstance(v, ast.FormattedValue) and isinstance(v.value, ast.Name) and v.value.id == var and v.conversion == -1 and v.format_spec is None:
            pieces.append("")
        else:
            _fail(v, "dump: f-string piece")
    if len(pieces) != 3:
        raise TranslateError(f"dump: expected the id to occur exactly twice in the named assertion, got {len(pieces) - 1}")
    # the text written in cache mode: constant pieces before and after {query.smtlib} / {named_assertions}
    writes = [n for n in ast.walk(iff) if isinstance(n, ast.Call) and isinstance(n.func, ast.Attribute) and n.func.attr == "write_text"]
    if len(writes) != 2:
        raise TranslateError("dump: expected two write_text calls (cache / no cache)")

    def flatten(node):
        """implicit concatenation of str / f-str -> list of ('s', text) | ('v', dotted-name)"""
        out = []
        vals = node.values if isinstance(node, ast.JoinedStr) else [node]
        for v in vals:
            if isinstance(v, ast.Constant) and isinstance(v.value, str):
                out.append(("s", v.value))
            elif isinstance(v, ast.FormattedValue) and v.conversion == -1 and v.format_spec is None:
                out.append(("v", ast.unparse(v.value)))
            else:
                _fail(v, "dump: write_text argument piece")
        merged = []
        for k, t in out:
            if merged and merged[-1][0] == "s" and k == "s":
                merged[-1] = ("s", merged[-1][1] + t)
            else:
                merged.append((k, t))
        return merged

    cache_parts = flatten(writes[0].args[0])
    plain_parts = flatten(writes[1].args[0])
    shape = [k if k == "s" else t for k, t in cache_parts]
    if [x for x in shape if x != "s"] != ["query.smtlib", "named_assertions"]:
        raise TranslateError(f"dump: cache-mode file must interpolate query.smtlib then named_assertions, got {shape}")
    if len(cache_parts) != 5 or cache_parts[0][0] != "s" or cache_parts[2][0] != "s" or cache_parts[4][0] != "s":
        raise TranslateError(f"dump: cache-mode file shape {shape}")
    if [t for k, t in plain_parts if k == "v"] != ["query.smtlib"]:
        raise TranslateError("dump: plain file must interpolate query.smtlib only")
    return pieces, [cache_parts[0][1], cache_parts[2][1], cache_parts[4][1]]


# ----------------------------------------------------------------- from_result / solve_end_to_end shapes

def tr_from_result(tree):
    fn = find_function(tree, "from_result", cls="SolverOutput")
    hits = []
    for n in ast.walk(fn):
        if isinstance(n, ast.Call) and isinstance(n.func, ast.Name) and n.func.id == "parse_unsat_core":
            hits.append(n)
    if len(hits) != 1:
        raise TranslateError("from_result: expected exactly one parse_unsat_core call")
    # find the IfExp that contains it
    for n in ast.walk(fn):
        if isinstance(n, ast.IfExp) and n.body is hits[0]:
            t = n.test
            if isinstance(t, ast.Attribute) and t.attr == "cache_solver" and isinstance(n.orelse, ast.Constant) and n.orelse.value is None:
                break
            _fail(n, "from_result: expected `parse_unsat_core(stdout) if args.cache_solver else None`")
    else:
        raise TranslateError("from_result: parse_unsat_core call not guarded by `if args.cache_solver else None`")
    # it must sit in the `case "unsat":` arm
    for n in ast.walk(fn):
        if isinstance(n, ast.match_case) and any(h is hits[0] for h in ast.walk(n)):
            p = n.pattern
            if not (isinstance(p, ast.MatchValue) and isinstance(p.value, ast.Constant) and p.value.value == "unsat"):
                _fail(n, "from_result: core parsed outside the `unsat` case")
            break
    else:
        raise TranslateError("from_result: match statement not found")
    return True


def tr_solve_end_to_end(tree):
    fn = find_function(tree, "solve_end_to_end")
    body = strip_docstring(list(fn.body))
    # skip pure bookkeeping (assignments / verbose prints) until the first `if`
    idx = None
    for i, s in enumerate(body):
        if isinstance(s, ast.If):
            idx = i
            break
        if isinstance(s, ast.Assign):
            if any(isinstance(n, ast.Call) and isinstance(n.func, ast.Name) and n.func.id.startswith("solve") for n in ast.walk(s)):
                _fail(s, "solve_end_to_end: solver call before the cache check")
            continue
        if isinstance(s, ast.Expr) and isinstance(s.value, ast.Call) and isinstance(s.value.func, ast.Name) and s.value.func.id == "verbose":
            continue
        _fail(s, "solve_end_to_end: unexpected statement before the cache check")
    if idx is None:
        raise TranslateError("solve_end_to_end: cache check not found")
    iff = body[idx]
    t = iff.test
    if not (isinstance(t, ast.Call) and isinstance(t.func, ast.Name) and t.func.id == "check_unsat_cores" and len(t.args) == 2 and not t.keywords):
        _fail(iff, "solve_end_to_end: first decision must be check_unsat_cores(query, cores)")
    if ast.unparse(t.args[0]) != "query" or not ast.unparse(t.args[1]).endswith("solving_ctx.unsat_cores"):
        _fail(iff, "solve_end_to_end: check_unsat_cores arguments")
    if iff.orelse:
        _fail(iff, "solve_end_to_end: cache check with else branch")
    ret = iff.body[-1]
    if not (isinstance(ret, ast.Return) and isinstance(ret.value, ast.Call) and isinstance(ret.value.func, ast.Name) and ret.value.func.id == "SolverOutput"):
        _fail(iff, "solve_end_to_end: cache hit must return a SolverOutput")
    a = ret.value.args
    if not a or ast.unparse(a[0]) != "unsat" or any(k.arg in ("unsat_core", "model") for k in ret.value.keywords) or len(a) > 4:
        _fail(ret, "solve_end_to_end: cache hit must return (unsat, ..) without model/core")
    for s in iff.body[:-1]:
        if not (isinstance(s, ast.Expr) and isinstance(s.value, ast.Call) and isinstance(s.value.func, ast.Name) and s.value.func.id == "verbose"):
            _fail(s, "solve_end_to_end: unexpected statement in the cache-hit branch")
    return tr_e2e_miss(fn, body[idx + 1:])


def _is_verbose(s):
    return isinstance(s, ast.Expr) and isinstance(s.value, ast.Call) and isinstance(s.value.func, ast.Name) and s.value.func.id == "verbose"


def tr_e2e_miss(fn, rest):
    """solve_end_to_end after a cache miss:
         out1 = solve_low_level(ctx); [result, model = out1.result, out1.model]
         if <T over result == sat, model.is_valid, ctx.is_refined>:
             refined_ctx = ctx.refine()
             if refined_ctx.query.smtlib != query.smtlib: return solve_low_level(refined_ctx)      (out2)
             [else: verbose(..)]
         return out1
       -> gen_e2e_miss (is_sat valid is_refined changed : bool) (out1 out2 : R) : R.
       The refined query is handed to solve_low_level directly: no second look-up, no second refinement."""
    ctx = fn.args.args[0].arg
    rest = [s for s in rest if not _is_verbose(s)]
    if len(rest) < 3:
        raise TranslateError("solve_end_to_end: body after the cache check too short")
    a = rest[0]
    if not (isinstance(a, ast.Assign) and len(a.targets) == 1 and isinstance(a.targets[0], ast.Name) and ast.unparse(a.value) == f"solve_low_level({ctx})"):
        _fail(a, "solve_end_to_end: after a miss the query must go to solve_low_level(ctx) first")
    out1 = a.targets[0].id
    names = {f"{out1}.result": "result", f"{out1}.model": "model"}   # expression -> role
    i = 1
    if isinstance(rest[i], ast.Assign) and isinstance(rest[i].targets[0], ast.Tuple) and isinstance(rest[i].value, ast.Tuple):
        for t, v in zip(rest[i].targets[0].elts, rest[i].value.elts):
            u = ast.unparse(v)
            if not isinstance(t, ast.Name) or u not in (f"{out1}.result", f"{out1}.model"):
                _fail(rest[i], "solve_end_to_end: unexpected unpacking of the solver output")
            names[t.id] = "result" if u.endswith(".result") else "model"
        i += 1
    iff, ret = rest[i], rest[i + 1] if i + 1 < len(rest) else None
    if len(rest) != i + 2 or not isinstance(iff, ast.If) or iff.orelse or not (isinstance(ret, ast.Return) and ast.unparse(ret.value) == out1):
        raise TranslateError("solve_end_to_end: expected `if <needs refinement>: ...` followed by `return <first output>`")

    def role(node):
        return names.get(ast.unparse(node))

    def test(node):
        if isinstance(node, ast.BoolOp):
            op = " && " if isinstance(node.op, ast.And) else " || "
            return "(" + op.join(test(v) for v in node.values) + ")"
        if isinstance(node, ast.UnaryOp) and isinstance(node.op, ast.Not):
            return f"(negb {test(node.operand)})"
        if isinstance(node, ast.Compare) and len(node.ops) == 1 and isinstance(node.ops[0], (ast.Eq, ast.NotEq)):
            l, r = node.left, node.comparators[0]
            if ast.unparse(l) == "sat":
                l, r = r, l
            if role(l) == "result" and ast.unparse(r) == "sat":
                return "is_sat" if isinstance(node.ops[0], ast.Eq) else "(negb is_sat)"
        if isinstance(node, ast.Attribute) and node.attr == "is_valid" and role(node.value) == "model":
            return "valid"
        if ast.unparse(node) == f"{ctx}.is_refined":
            return "is_refined"
        _fail(node, "solve_end_to_end: unsupported condition for refinement")

    t = test(iff.test)
    body = [s for s in iff.body if not _is_verbose(s)]
    if len(body) != 2:
        _fail(iff, "solve_end_to_end: refinement arm must be `refined = ctx.refine()` + one `if`")
    r0, inner = body
    if not (isinstance(r0, ast.Assign) and isinstance(r0.targets[0], ast.Name) and ast.unparse(r0.value) == f"{ctx}.refine()"):
        _fail(r0, "solve_end_to_end: expected `<refined> = ctx.refine()`")
    rname = r0.targets[0].id
    if not isinstance(inner, ast.If) or any(not _is_verbose(x) for x in inner.orelse):
        _fail(inner, "solve_end_to_end: expected `if <refined text differs>: return solve_low_level(<refined>)` with at most a message in the else arm")
    c = inner.test
    texts = {f"{rname}.query.smtlib", "query.smtlib", f"{ctx}.query.smtlib"}
    if not (isinstance(c, ast.Compare) and len(c.ops) == 1 and isinstance(c.ops[0], (ast.NotEq, ast.Eq))
            and {ast.unparse(c.left), ast.unparse(c.comparators[0])} <= texts and f"{rname}.query.smtlib" in (ast.unparse(c.left), ast.unparse(c.comparators[0]))
            and ast.unparse(c.left) != ast.unparse(c.comparators[0])):
        _fail(inner, "solve_end_to_end: the inner decision must compare the refined text with the original")
    changed = "changed" if isinstance(c.ops[0], ast.NotEq) else "(negb changed)"
    ib = [s for s in inner.body if not _is_verbose(s)]
    if len(ib) != 1 or not (isinstance(ib[0], ast.Return) and ast.unparse(ib[0].value) == f"solve_low_level({rname})"):
        _fail(inner, "solve_end_to_end: the refined query must be answered by `return solve_low_level(<refined>)`")
    return f"if {t} then (if {changed} then out2 else out1) else out1"


def census(tree):
    """Who touches the cache in solve.py: the field, its one writer (FunctionContext.append_unsat_core), its one
    reader (the look-up at the head of solve_end_to_end) and check_unsat_cores itself.  In particular
    solve_low_level -- the door of the consumers that pose their query un-refined (T-cacheusers) -- does not."""
    allowed = {("SolvingContext",), ("FunctionContext", "append_unsat_core"), ("solve_end_to_end",), ("check_unsat_cores",)}
    names = {"check_unsat_cores", "unsat_cores", "append_unsat_core"}

    def go(node, path):
        for c in ast.iter_child_nodes(node):
            p = path + (c.name,) if isinstance(c, (ast.FunctionDef, ast.AsyncFunctionDef, ast.ClassDef)) else path
            hit = (isinstance(c, ast.Name) and c.id in names) or (isinstance(c, ast.Attribute) and c.attr in names)
            if hit and path not in allowed:
                raise TranslateError(f"line {c.lineno}: the unsat-core cache is used in `{'.'.join(path) or '<module>'}`: {ast.unparse(c)[:120]}")
            go(c, p)

    go(tree, ())
    fn = find_function(tree, "append_unsat_core", cls="FunctionContext")
    body = strip_docstring(list(fn.body))
    if len(body) != 1 or ast.unparse(body[0]) != f"self.solving_ctx.unsat_cores.append({fn.args.args[1].arg})":
        raise TranslateError("append_unsat_core: expected `self.solving_ctx.unsat_cores.append(<core>)`")
    e2e = find_function(tree, "solve_end_to_end")
    reads = [n for n in ast.walk(e2e) if isinstance(n, ast.Attribute) and n.attr == "unsat_cores"]
    if len(reads) != 1:
        raise TranslateError(f"solve_end_to_end: {len(reads)} reads of unsat_cores, expected the one look-up")


def translate(src_text):
    tree = ast.parse(src_text)
    census(tree)
    check = tr_check_unsat_cores(tree)
    pattern, sub_pat, sub_repl, group_no = tr_parse_unsat_core(tree)
    pieces, file_parts = tr_dump(tree)
    tr_from_result(tree)
    e2e_miss = tr_solve_end_to_end(tree)
    lines = [
        "(* GENERATED by translate/t_unsatcore.py from src/halmos/solve.py -- do not edit *)",
        "From Coq Require Import ZArith List Bool.",
        "Import ListNotations.",
        "Open Scope Z_scope.",
        "",
        "(* check_unsat_cores: `mem x l` renders `x in l` *)",
        check,
        "",
        f"(* parse_unsat_core: re.search pattern  {comment(pattern)} *)",
        f"Definition gen_core_pattern : list Z := {codepoints(pattern)}.",
        f"(* re.sub pattern {comment(sub_pat)}  replacement {comment(sub_repl)} ; token source: match.group({group_no}).split() *)",
        f"Definition gen_sub_pattern : list Z := {codepoints(sub_pat)}.",
        f"Definition gen_sub_repl : list Z := {codepoints(sub_repl)}.",
        f"Definition gen_core_group : Z := {group_no}.",
        "",
        "(* dump: named assertion  " + comment(pieces[0] + "{id}" + pieces[1] + "{id}" + pieces[2]) + " *)",
        f"Definition gen_named_p0 : list Z := {codepoints(pieces[0])}.",
        f"Definition gen_named_p1 : list Z := {codepoints(pieces[1])}.",
        f"Definition gen_named_p2 : list Z := {codepoints(pieces[2])}.",
        "(* dump: cache-mode query file = head ++ smtlib ++ mid ++ named assertions ++ tail *)",
        f"Definition gen_file_head : list Z := {codepoints(file_parts[0])}.",
        f"Definition gen_file_mid : list Z := {codepoints(file_parts[1])}.",
        f"Definition gen_file_tail : list Z := {codepoints(file_parts[2])}.",
        "",
        "(* solve_end_to_end after a cache miss: out1 = solve_low_level(ctx); is_sat / valid describe out1; is_refined = ctx.is_refined;",
        "   changed = refine() altered the query text; out2 = solve_low_level(ctx.refine()) -- no second look-up *)",
        "Definition gen_e2e_miss {R : Type} (is_sat valid is_refined changed : bool) (out1 out2 : R) : R :=",
        f"  {e2e_miss}.",
        "",
        "(* SolverOutput.from_result: the core is parsed only in the `unsat` case and only if cache_solver *)",
        "Definition gen_core_of_reply {A : Type} (cache_solver : bool) (parsed : option A) : option A :=",
        "  if cache_solver then parsed else None.",
        "",
    ]
    info = {"pattern": pattern, "sub_pat": sub_pat, "sub_repl": sub_repl, "group": group_no, "pieces": pieces, "file_parts": file_parts}
    return "\n".join(lines), info


def selfcheck(info):
    """Cross-check against the imported module: the regex literal really is the one used
    (parse a probe), and dump() really writes the translated template."""
    import tempfile
    from pathlib import Path
    from types import SimpleNamespace

    import halmos.solve as s

    bad = []
    probe = "unsat\n(error \"x\")\n(<12> <7>)\n"
    import re

    m = re.search(info["pattern"], probe)
    want = [re.sub(info["sub_pat"], info["sub_repl"], t) for t in m.group(info["group"]).split()] if m else None
    got = s.parse_unsat_core(probe)
    if got != want:
        bad.append(f"parse_unsat_core(probe) = {got}, translated regex gives {want}")
    with tempfile.TemporaryDirectory() as d:
        f = Path(d) / "q.smt2"
        pc = SimpleNamespace(args=SimpleNamespace(verbose=0, cache_solver=True), query=SimpleNamespace(smtlib="SMT", assertions=["5", "77"]), dump_file=f)
        s.dump(pc)
        p = info["pieces"]
        named = "".join(p[0] + i + p[1] + i + p[2] for i in ["5", "77"])
        fp = info["file_parts"]
        want = fp[0] + "SMT" + fp[1] + named + fp[2]
        if f.read_text() != want:
            bad.append(f"dump() wrote {f.read_text()!r}, template gives {want!r}")
    return bad
