"""T-selectors-cheat: /repo/src/halmos/cheatcodes.py -> coq/Gen/GenCheatSelectors.v

Regenerates, as Coq data,
  * every `<name>_sig: int = 0x...` constant of class hevm_cheat_code together with the
    signature written in the comment line(s) directly above it
    (`# bytes4(keccak256("sig"))` or the bare `# sig(...)` form),
  * the `halmos_cheat_code.handlers` dict: selector, handler function name and the
    signature in the trailing comment of the same line,
  * the two cheatcode addresses (class attribute `address = BV(0x..., size=160)`),
  * the list of callee addresses exempted from prank consumption in `Prank.lookup`
    (`to not in [halmos_cheat_code.address, hevm_cheat_code.address, console.address]`),
  * the dispatch of the vm.random* selectors in `hevm_cheat_code.handle`
    (`elif funsig == hevm_cheat_code.X_sig: return create_Y(ex, arg, name="Z")`),
  * the six block-setting handlers of `hevm_cheat_code.handle` (vm.fee/chainId/coinbase/
    difficulty/roll/warp): each arm must be exactly `ex.block.<attr> = arg.get_word(4)` (or
    `uint160(arg.get_word(4))`) followed by `return ret` -- an in-place attribute assignment on
    the path's Block object; the table (selector constant, attribute, truncated?) is emitted,
  * the literal bit-size bound of create_uint / create_int (`if bits > 256`) and the
    literal widths passed to create_generic by the fixed-width creators.
Fail-closed: any unexpected shape raises TranslateError.
"""
import ast
import re

from .pyexpr import TranslateError, find_function

NAME = "T-selectors-cheat"
SRC = "cheatcodes.py"
OUT = "GenCheatSelectors.v"

CN = {"hevm_cheat_code": "hevm_address", "halmos_cheat_code": "svm_address", "console": "console_address"}
SIG_RE = re.compile(r'^[A-Za-z_][A-Za-z0-9_]*\([A-Za-z0-9_,\[\]]*\)$')


def _class(tree, name):
    for n in tree.body:
        if isinstance(n, ast.ClassDef) and n.name == name:
            return n
    raise TranslateError(f"class {name} not found")


def _comment_above(lines, lineno):
    """signature in the comment block directly above 1-based line `lineno`"""
    i = lineno - 2
    block = []
    while i >= 0 and lines[i].strip().startswith("#"):
        block.append(lines[i].strip()[1:].strip())
        i -= 1
    if not block:
        raise TranslateError(f"line {lineno}: no comment above a *_sig constant")
    first = block[0]  # the closest comment line
    m = re.fullmatch(r'bytes4\(keccak256\("([^"]+)"\)\)', first)
    sig = m.group(1) if m else first
    if not SIG_RE.match(sig):
        raise TranslateError(f"line {lineno}: cannot read a signature from comment {first!r}")
    return sig


def _coq_string(s):
    if '"' in s or "\\" in s or not s.isascii():
        raise TranslateError(f"unsupported characters in {s!r}")
    return '"' + s + '"'


def _bv_address(cls):
    for n in cls.body:
        if isinstance(n, ast.Assign) and len(n.targets) == 1 and isinstance(n.targets[0], ast.Name) and n.targets[0].id == "address":
            v = n.value
            if (isinstance(v, ast.Call) and isinstance(v.func, ast.Name) and v.func.id == "BV" and len(v.args) == 1
                    and isinstance(v.args[0], ast.Constant) and isinstance(v.args[0].value, int)
                    and [(k.arg, getattr(k.value, "value", None)) for k in v.keywords] == [("size", 160)]):
                return v.args[0].value
            raise TranslateError(f"{cls.name}.address: expected BV(<int>, size=160)")
    raise TranslateError(f"{cls.name}.address not found")


def _prank_exempt(tree):
    """Prank.lookup: `if self and to not in [A.address, B.address]:` -> ['A', 'B']"""
    fn = find_function(tree, "lookup", cls="Prank")
    found = None
    for n in ast.walk(fn):
        if isinstance(n, ast.Compare) and len(n.ops) == 1 and isinstance(n.ops[0], ast.NotIn):
            if found is not None:
                raise TranslateError("Prank.lookup: more than one `not in` test")
            if not (isinstance(n.left, ast.Name) and n.left.id == "to" and isinstance(n.comparators[0], ast.List)):
                raise TranslateError("Prank.lookup: expected `to not in [...]`")
            names = []
            for e in n.comparators[0].elts:
                if not (isinstance(e, ast.Attribute) and e.attr == "address" and isinstance(e.value, ast.Name)):
                    raise TranslateError("Prank.lookup: expected `<class>.address` list elements")
                names.append(e.value.id)
            found = names
    if found is None:
        raise TranslateError("Prank.lookup: no `to not in [...]` test found")
    return found


def _random_dispatch(handle_fn, sig_names):
    """`elif funsig == hevm_cheat_code.random_*_sig: return create_X(ex, arg, name="...")`"""
    out = {}

    def visit_if(node):
        t = node.test
        if (isinstance(t, ast.Compare) and len(t.ops) == 1 and isinstance(t.ops[0], ast.Eq)
                and isinstance(t.left, ast.Name) and t.left.id == "funsig"
                and isinstance(t.comparators[0], ast.Attribute) and isinstance(t.comparators[0].value, ast.Name)
                and t.comparators[0].value.id == "hevm_cheat_code"):
            key = t.comparators[0].attr
            if key not in sig_names:
                raise TranslateError(f"handle: dispatch on unknown constant {key}")
            if key in out or key in seen:
                raise TranslateError(f"handle: {key} dispatched twice")
            seen.add(key)
            if key.startswith("random_"):
                body = node.body
                if not (len(body) == 1 and isinstance(body[0], ast.Return) and isinstance(body[0].value, ast.Call)
                        and isinstance(body[0].value.func, ast.Name)):
                    raise TranslateError(f"handle: {key}: expected `return create_X(ex, arg, name=...)`")
                c = body[0].value
                if [getattr(a, "id", None) for a in c.args] != ["ex", "arg"] or len(c.keywords) != 1 or c.keywords[0].arg != "name" \
                        or not isinstance(c.keywords[0].value, ast.Constant) or not isinstance(c.keywords[0].value.value, str):
                    raise TranslateError(f"handle: {key}: unexpected call shape")
                out[key] = (c.func.id, c.keywords[0].value.value)
        for o in node.orelse:
            if isinstance(o, ast.If):
                visit_if(o)

    seen = set()
    for st in handle_fn.body:
        if isinstance(st, ast.If):
            visit_if(st)
    return out, seen


BLOCK_SIGS = ("fee_sig", "chainid_sig", "coinbase_sig", "difficulty_sig", "roll_sig", "warp_sig")


def _block_handlers(handle_fn):
    """`elif funsig == hevm_cheat_code.X_sig: ex.block.F = arg.get_word(4) | uint160(arg.get_word(4)); return ret`"""
    out = {}

    def is_word4(e):
        return (isinstance(e, ast.Call) and isinstance(e.func, ast.Attribute) and e.func.attr == "get_word"
                and isinstance(e.func.value, ast.Name) and e.func.value.id == "arg" and len(e.args) == 1 and not e.keywords
                and isinstance(e.args[0], ast.Constant) and e.args[0].value == 4)

    def visit_if(node):
        t = node.test
        if (isinstance(t, ast.Compare) and len(t.ops) == 1 and isinstance(t.ops[0], ast.Eq)
                and isinstance(t.left, ast.Name) and t.left.id == "funsig"
                and isinstance(t.comparators[0], ast.Attribute) and isinstance(t.comparators[0].value, ast.Name)
                and t.comparators[0].value.id == "hevm_cheat_code" and t.comparators[0].attr in BLOCK_SIGS):
            key = t.comparators[0].attr
            body = node.body
            if key in out:
                raise TranslateError(f"handle: {key} dispatched twice")
            if not (len(body) == 2 and isinstance(body[0], ast.Assign) and len(body[0].targets) == 1
                    and isinstance(body[1], ast.Return) and isinstance(body[1].value, ast.Name) and body[1].value.id == "ret"):
                raise TranslateError(f"handle: {key}: expected `ex.block.<attr> = <word>; return ret`")
            tgt, val = body[0].targets[0], body[0].value
            if not (isinstance(tgt, ast.Attribute) and isinstance(tgt.value, ast.Attribute) and tgt.value.attr == "block"
                    and isinstance(tgt.value.value, ast.Name) and tgt.value.value.id == "ex"):
                raise TranslateError(f"handle: {key}: the assignment target is not ex.block.<attr>: {ast.unparse(tgt)}")
            if is_word4(val):
                trunc = False
            elif (isinstance(val, ast.Call) and isinstance(val.func, ast.Name) and val.func.id == "uint160" and len(val.args) == 1
                  and not val.keywords and is_word4(val.args[0])):
                trunc = True
            else:
                raise TranslateError(f"handle: {key}: unsupported value {ast.unparse(val)}")
            out[key] = (tgt.attr, trunc)
        for o in node.orelse:
            if isinstance(o, ast.If):
                visit_if(o)

    for st in handle_fn.body:
        if isinstance(st, ast.If):
            visit_if(st)
    missing = [k for k in BLOCK_SIGS if k not in out]
    if missing:
        raise TranslateError(f"handle: no arm found for {missing}")
    return out


def _creator_info(tree):
    """literal widths / type names given to create_generic and the `bits > N` bounds"""
    info = {}
    for fname in ("create_uint", "create_int", "create_uint256", "create_int256", "create_bytes4", "create_bytes8",
                  "create_bytes32", "create_address", "create_bool", "create_uint256_min_max"):
        fn = find_function(tree, fname)
        calls = [n for n in ast.walk(fn) if isinstance(n, ast.Call) and isinstance(n.func, ast.Name) and n.func.id == "create_generic"]
        if len(calls) != 1 or len(calls[0].args) != 4:
            raise TranslateError(f"{fname}: expected exactly one create_generic(ex, bits, name, type) call")
        bits, ty = calls[0].args[1], calls[0].args[3]
        if fname in ("create_uint", "create_int"):
            if not (isinstance(bits, ast.Name) and isinstance(ty, ast.JoinedStr)):
                raise TranslateError(f"{fname}: expected create_generic(ex, <bits variable>, name, f'...')")
            prefix = "".join(v.value for v in ty.values if isinstance(v, ast.Constant))
            fvals = [v.value for v in ty.values if isinstance(v, ast.FormattedValue)]
            if len(fvals) != 1 or not (isinstance(fvals[0], ast.Name) and fvals[0].id == bits.id):
                raise TranslateError(f"{fname}: expected the type name f'{prefix}{{{bits.id}}}'")
            bounds = [n for n in ast.walk(fn) if isinstance(n, ast.Compare) and isinstance(n.left, ast.Name) and n.left.id == bits.id]
            if len(bounds) != 1 or len(bounds[0].ops) != 1 or not isinstance(bounds[0].ops[0], ast.Gt) or not isinstance(bounds[0].comparators[0], ast.Constant):
                raise TranslateError(f"{fname}: expected a single `{bits.id} > <int>` guard")
            info[fname] = ("var", prefix, bounds[0].comparators[0].value)
        else:
            if not (isinstance(bits, ast.Constant) and isinstance(bits.value, int) and isinstance(ty, ast.Constant) and isinstance(ty.value, str)):
                raise TranslateError(f"{fname}: expected literal width and type name")
            info[fname] = ("fixed", ty.value, bits.value)
    return info


def translate(src_text):
    tree = ast.parse(src_text)
    lines = src_text.splitlines()
    hevm = _class(tree, "hevm_cheat_code")
    halmos = _class(tree, "halmos_cheat_code")

    hevm_sigs = []  # (const name, selector, signature)
    for n in hevm.body:
        if isinstance(n, ast.AnnAssign) and isinstance(n.target, ast.Name) and n.target.id.endswith("_sig"):
            if not (isinstance(n.value, ast.Constant) and isinstance(n.value.value, int)):
                raise TranslateError(f"{n.target.id}: expected an integer literal")
            hevm_sigs.append((n.target.id, n.value.value, _comment_above(lines, n.lineno)))
        elif isinstance(n, ast.Assign) and any(isinstance(t, ast.Name) and t.id.endswith("_sig") for t in n.targets):
            raise TranslateError(f"line {n.lineno}: un-annotated *_sig assignment")
    if len(hevm_sigs) < 60:
        raise TranslateError(f"expected >= 60 hevm selectors, found {len(hevm_sigs)}")

    handlers = []  # (selector, handler name, signature)
    for n in halmos.body:
        if isinstance(n, ast.Assign) and len(n.targets) == 1 and isinstance(n.targets[0], ast.Name) and n.targets[0].id == "handlers":
            if not isinstance(n.value, ast.Dict):
                raise TranslateError("halmos_cheat_code.handlers: expected a dict literal")
            for k, v in zip(n.value.keys, n.value.values):
                if not (isinstance(k, ast.Constant) and isinstance(k.value, int) and isinstance(v, ast.Name)):
                    raise TranslateError("halmos_cheat_code.handlers: expected `0x...: function_name` entries")
                line = lines[k.lineno - 1]
                if "#" not in line:
                    raise TranslateError(f"line {k.lineno}: handler entry without trailing signature comment")
                sig = line.split("#", 1)[1].strip()
                if not SIG_RE.match(sig):
                    raise TranslateError(f"line {k.lineno}: cannot read a signature from {sig!r}")
                handlers.append((k.value, v.id, sig))
    if len(handlers) < 15:
        raise TranslateError(f"expected >= 15 halmos handlers, found {len(handlers)}")

    addr = {"hevm_cheat_code": _bv_address(hevm), "halmos_cheat_code": _bv_address(halmos)}
    # the console address (console.py) and sevm.CHEATCODE_ADDRESSES (sevm.py): two more source files
    from harness import common

    console_tree = ast.parse((common.SRC / "console.py").read_text())
    addr["console"] = _bv_address(_class(console_tree, "console"))
    sevm_tree = ast.parse((common.SRC / "sevm.py").read_text())
    cheat_addrs = None
    for n in sevm_tree.body:
        tgt = n.target if isinstance(n, ast.AnnAssign) else (n.targets[0] if isinstance(n, ast.Assign) and len(n.targets) == 1 else None)
        if isinstance(tgt, ast.Name) and tgt.id == "CHEATCODE_ADDRESSES":
            v = n.value
            if not (isinstance(v, ast.Tuple) and all(isinstance(e, ast.Attribute) and e.attr == "address" and isinstance(e.value, ast.Name) for e in v.elts)):
                raise TranslateError("sevm.CHEATCODE_ADDRESSES: expected a tuple of `<class>.address`")
            cheat_addrs = [e.value.id for e in v.elts]
    if cheat_addrs is None:
        raise TranslateError("sevm.CHEATCODE_ADDRESSES not found")
    for e in cheat_addrs:
        if e not in addr:
            raise TranslateError(f"sevm.CHEATCODE_ADDRESSES names unknown class {e}")
    exempt = _prank_exempt(tree)
    for e in exempt:
        if e not in addr:
            raise TranslateError(f"Prank.lookup exempts unknown class {e}")
    handle_fn = find_function(tree, "handle", cls="hevm_cheat_code")
    rnd, dispatched = _random_dispatch(handle_fn, {n for n, _, _ in hevm_sigs})
    creators = _creator_info(tree)
    blockh = _block_handlers(handle_fn)
    for k, (f, _nm) in rnd.items():
        if f not in creators and f not in ("create_bytes",):
            raise TranslateError(f"{k}: dispatches to unknown creator {f}")

    L = [
        "(* GENERATED by translate/t_selectors_cheat.py from src/halmos/cheatcodes.py -- do not edit *)",
        "From Coq Require Import ZArith NArith List String.",
        "Import ListNotations.",
        "Open Scope string_scope.",
        "",
        f"Definition hevm_address : Z := {addr['hevm_cheat_code']}%Z.",
        f"Definition svm_address : Z := {addr['halmos_cheat_code']}%Z.",
        "(* Prank.lookup: `to not in [...]` *)",
        f"Definition console_address : Z := {addr['console']}%Z.",
        "Definition prank_exempt : list Z := [" + "; ".join(CN[e] for e in exempt) + "].",
        "(* sevm.CHEATCODE_ADDRESSES: callees handled as cheatcode calls by SEVM.call *)",
        "Definition cheatcode_addresses : list Z := [" + "; ".join(CN[e] for e in cheat_addrs) + "].",
        "",
    ]
    for name, sel, _sig in hevm_sigs:
        L.append(f"Definition {name} : N := {sel}%N.")
    L.append("")
    L.append("(* selector, signature from the adjacent comment *)")
    L.append("Definition hevm_selectors : list (N * string) := [")
    L.append(";\n".join(f"  ({name}, {_coq_string(sig)})" for name, _sel, sig in hevm_sigs))
    L.append("].")
    L.append("")
    L.append("(* selector, signature from the trailing comment, handler function *)")
    L.append("Definition svm_handlers : list (N * string * string) := [")
    L.append(";\n".join(f"  ({sel}%N, {_coq_string(sig)}, {_coq_string(fn)})" for sel, fn, sig in handlers))
    L.append("].")
    L.append("")
    L.append("(* vm.random*: selector constant, signature, creator function, fixed variable name *)")
    L.append("Definition random_dispatch : list (N * string * string * string) := [")
    sigof = {n: s for n, _, s in hevm_sigs}
    L.append(";\n".join(f"  ({k}, {_coq_string(sigof[k])}, {_coq_string(f)}, {_coq_string(nm)})" for k, (f, nm) in rnd.items()))
    L.append("].")
    L.append("")
    L.append("(* hevm selectors that hevm_cheat_code.handle dispatches on *)")
    L.append("Definition hevm_dispatched : list N := [" + "; ".join(n for n, _, _ in hevm_sigs if n in dispatched) + "].")
    L.append("")
    L.append("(* vm.fee/chainId/coinbase/difficulty/roll/warp: `ex.block.<attr> = word` (true: `uint160(word)`) *)")
    L.append("Definition block_handlers : list (N * string * bool) := [")
    L.append(";\n".join(f"  ({k}, {_coq_string(a)}, {'true' if t else 'false'})" for k, (a, t) in blockh.items()))
    L.append("].")
    L.append("")
    L.append("(* creators: (function, type-name (prefix), width or upper bound of the width) *)")
    L.append("Definition creators_fixed : list (string * string * Z) := [")
    L.append(";\n".join(f"  ({_coq_string(f)}, {_coq_string(ty)}, {w}%Z)" for f, (k, ty, w) in creators.items() if k == "fixed"))
    L.append("].")
    for f, (k, ty, w) in creators.items():
        if k == "var":
            L.append(f"Definition {f}_max_bits : Z := {w}%Z.")
            L.append(f"Definition {f}_type_prefix : string := {_coq_string(ty)}.")
    L.append("")
    info = {"hevm": hevm_sigs, "handlers": handlers, "addr": addr, "exempt": exempt, "random": rnd, "cheat_addrs": cheat_addrs, "block_handlers": blockh}
    return "\n".join(L), info


def selfcheck(info):
    import halmos.cheatcodes as c

    bad = []
    for name, sel, _sig in info["hevm"]:
        if getattr(c.hevm_cheat_code, name, None) != sel:
            bad.append(f"{name}: module has {getattr(c.hevm_cheat_code, name, None)}, source literal {sel}")
    mod = {k: v.__name__ for k, v in c.halmos_cheat_code.handlers.items()}
    src = {sel: fn for sel, fn, _ in info["handlers"]}
    if mod != src:
        bad.append(f"halmos_cheat_code.handlers differs from the source literal: {sorted(set(mod.items()) ^ set(src.items()))[:4]}")
    if int(c.hevm_cheat_code.address.value) != info["addr"]["hevm_cheat_code"]:
        bad.append("hevm address differs")
    if int(c.halmos_cheat_code.address.value) != info["addr"]["halmos_cheat_code"]:
        bad.append("svm address differs")
    import halmos.console
    import halmos.sevm

    if int(halmos.console.console.address.value) != info["addr"]["console"]:
        bad.append("console address differs")
    if [int(a.value) for a in halmos.sevm.CHEATCODE_ADDRESSES] != [info["addr"][e] for e in info["cheat_addrs"]]:
        bad.append("sevm.CHEATCODE_ADDRESSES differs from the source literal")
    n_attr = sum(1 for k in vars(c.hevm_cheat_code) if k.endswith("_sig"))
    if n_attr != len(info["hevm"]):
        bad.append(f"class has {n_attr} *_sig attributes, translator saw {len(info['hevm'])}")
    return bad
