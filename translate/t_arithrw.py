"""T-arithrw: what SEVM.arith (src/halmos/sevm.py) does to a DIV / MOD / ... beyond building the term -> coq/Gen/GenArithRw.v

Every arm `if op == OP_X:` of arith must be one of
    return w1.<m>(w2[, <abstraction keywords>])                                   plain
    term = w1.<m>(w2, abstraction=...)
    if term.is_symbolic: ex.path.append(<ULE|ULT>(term.as_z3(), w<k>.as_z3()))   plain + a side constraint on the path
    return term
optionally preceded (DIV only) by the application of the term-level rewrite helper
    if w1.is_symbolic:
        <f> = self.div_xy_y(w1.as_z3(), w2.as_z3());  if <f> is not None: return BV(<f>, size=w1.size)
Emits
  * div_uses_xy_y : bool            is the xy/y -> x rewrite applied to DIV
  * xy_y_checks_nonzero : bool      does div_xy_y test the divisor against zero before rewriting (it does not: false)
  * xy_y_through_abstraction : bool does it also look through the f_evm_bvmul abstraction
  * div_side / mod_side (r x y : Z) : bool   the constraint appended to the path for a symbolic quotient / remainder
Any other statement in an arm, any other helper: TranslateError (fail closed).
"""
import ast

from .pyexpr import TranslateError, find_function

NAME = "T-arithrw"
SRC = "sevm.py"
OUT = "GenArithRw.v"

PLAIN = {"OP_ADD": "add", "OP_SUB": "sub", "OP_MUL": "mul", "OP_DIV": "div", "OP_MOD": "mod", "OP_SDIV": "sdiv", "OP_SMOD": "smod", "OP_EXP": "exp"}


def _is_plain_call(node, meth):
    return (isinstance(node, ast.Call) and isinstance(node.func, ast.Attribute) and ast.unparse(node.func.value) == "w1" and node.func.attr == meth
            and len(node.args) == 1 and ast.unparse(node.args[0]) == "w2" and all(k.arg and ("abstraction" in k.arg or k.arg == "smt_exp_by_const") for k in node.keywords))


def _side(st, op):
    """`if term.is_symbolic: ex.path.append(ULE(term.as_z3(), w1.as_z3()))` -> gallina over r x y"""
    if not (isinstance(st, ast.If) and ast.unparse(st.test) == "term.is_symbolic" and not st.orelse):
        raise TranslateError(f"arith {op}: expected `if term.is_symbolic: ex.path.append(...)`")
    body = [x for x in st.body if not (isinstance(x, ast.Expr) and isinstance(x.value, ast.Constant))]
    if len(body) != 1 or not (isinstance(body[0], ast.Expr) and isinstance(body[0].value, ast.Call) and ast.unparse(body[0].value.func) == "ex.path.append" and len(body[0].value.args) == 1):
        raise TranslateError(f"arith {op}: the symbolic arm must be a single ex.path.append(<constraint>)")
    c = body[0].value.args[0]
    if not (isinstance(c, ast.Call) and isinstance(c.func, ast.Name) and c.func.id in ("ULE", "ULT", "UGE", "UGT") and len(c.args) == 2):
        raise TranslateError(f"arith {op}: unsupported side constraint {ast.unparse(c)}")
    names = {"term.as_z3()": "r", "w1.as_z3()": "x", "w2.as_z3()": "y"}
    a, b = (names.get(ast.unparse(x)) for x in c.args)
    if a is None or b is None:
        raise TranslateError(f"arith {op}: side constraint over unknown terms {ast.unparse(c)}")
    f = {"ULE": "Z.leb", "ULT": "Z.ltb", "UGE": "Z.geb", "UGT": "Z.gtb"}[c.func.id]
    return f"({f} {a} {b})"


def _xy_y(tree):
    fn = find_function(tree, "div_xy_y", cls="SEVM")
    # without the nested helper `bitsize` (which compares the padding of a concat with 0)
    src = "\n".join(ast.unparse(st) for st in fn.body if not isinstance(st, ast.FunctionDef))
    # the shape of the helper: looks for a product, compares the divisor with the factors syntactically, checks the bit sizes
    for needle in ("eq(w2, x) or eq(w2, y)", "size_x + size_y <= 256", "return y", "return x", "return None"):
        if needle not in src:
            raise TranslateError(f"div_xy_y: expected `{needle}`")
    prods = [n for n in ast.walk(fn) if isinstance(n, ast.If) and "num_args() == 2" in ast.unparse(n.test) and "decl().name()" in ast.unparse(n.test)]
    if len(prods) != 1:
        raise TranslateError("div_xy_y: the product test not found")
    t = ast.unparse(prods[0].test)
    through = "f_mul" in t
    if not through and t != "w1.decl().name() == 'bvmul' and w1.num_args() == 2":
        raise TranslateError(f"div_xy_y: unexpected product test {t}")
    # any comparison of the divisor / a factor with zero (is_zero, == 0, != 0, a path condition) counts as a check
    checks = any(s in src for s in ("!= 0", "== 0", "is_zero", "is_non_zero", "ZERO", "path.append", "check("))
    return through, checks


def translate(src_text):
    tree = ast.parse(src_text)
    fn = find_function(tree, "arith", cls="SEVM")
    arms = {}
    for st in fn.body:
        if isinstance(st, ast.If) and not st.orelse and isinstance(st.test, ast.Compare) and ast.unparse(st.test).startswith("op == OP_"):
            arms[ast.unparse(st.test)[len("op == "):]] = [x for x in st.body if not (isinstance(x, ast.Expr) and isinstance(x.value, ast.Constant))]
        elif isinstance(st, ast.Raise) or (isinstance(st, ast.Expr) and isinstance(st.value, ast.Constant)):
            continue
        else:
            raise TranslateError(f"arith: unexpected top-level statement {ast.unparse(st)[:60]}")
    if set(arms) != set(PLAIN):
        raise TranslateError(f"arith: arms {sorted(arms)} differ from the expected {sorted(PLAIN)}")
    uses_xy_y = False
    sides = {}
    for op, body in arms.items():
        meth = PLAIN[op]
        if op == "OP_DIV" and len(body) >= 1 and isinstance(body[0], ast.If) and ast.unparse(body[0].test) == "w1.is_symbolic":
            rw = body[0]
            inner = [x for x in rw.body if not (isinstance(x, ast.Expr) and isinstance(x.value, ast.Constant))]
            if (rw.orelse or len(inner) != 2 or not (isinstance(inner[0], ast.Assign) and ast.unparse(inner[0].value) == "self.div_xy_y(w1.as_z3(), w2.as_z3())")
                    or not isinstance(inner[1], ast.If) or inner[1].orelse or len(inner[1].body) != 1 or not isinstance(inner[1].body[0], ast.Return)):
                raise TranslateError("arith OP_DIV: unrecognised rewrite in front of the division")
            v = ast.unparse(inner[0].targets[0])
            if ast.unparse(inner[1].test) != f"{v} is not None" or ast.unparse(inner[1].body[0].value) != f"BV({v}, size=w1.size)":
                raise TranslateError("arith OP_DIV: the rewrite result is not returned as `BV(<factor>, size=w1.size)`")
            uses_xy_y = True
            body = body[1:]
        if len(body) == 1 and isinstance(body[0], ast.Return) and _is_plain_call(body[0].value, meth):
            continue
        if (len(body) == 3 and isinstance(body[0], ast.Assign) and ast.unparse(body[0].targets[0]) == "term" and _is_plain_call(body[0].value, meth)
                and isinstance(body[2], ast.Return) and ast.unparse(body[2].value) == "term"):
            sides[op] = _side(body[1], op)
            continue
        raise TranslateError(f"arith {op}: unrecognised arm: {[ast.unparse(x)[:50] for x in body]}")
    try:
        through, checks = _xy_y(tree)
    except TranslateError:
        if uses_xy_y:
            raise
        through, checks = False, False     # the (unused) helper is gone or has another shape: irrelevant
    b = lambda x: "true" if x else "false"  # noqa: E731
    lines = [
        "(* GENERATED by translate/t_arithrw.py from SEVM.arith / SEVM.div_xy_y in src/halmos/sevm.py -- do not edit *)",
        "From Coq Require Import ZArith Bool.",
        "Open Scope Z_scope.",
        "",
        "(* is the term-level rewrite (x*y)/y -> x, (x*y)/x -> y applied to DIV; what the helper checks *)",
        f"Definition div_uses_xy_y : bool := {b(uses_xy_y)}.",
        f"Definition xy_y_checks_nonzero : bool := {b(checks)}.",
        f"Definition xy_y_through_abstraction : bool := {b(through)}.",
        "",
        "(* the constraint appended to the path for a symbolic result r of x / y, x % y (true = none) *)",
        "Definition div_side (r x y : Z) : bool :=",
        f"  {sides.get('OP_DIV', 'true')}.",
        "",
        "Definition mod_side (r x y : Z) : bool :=",
        f"  {sides.get('OP_MOD', 'true')}.",
        "",
    ]
    for op in sides:
        if op not in ("OP_DIV", "OP_MOD"):
            raise TranslateError(f"arith {op}: a side constraint on this operation is not modelled")
    return "\n".join(lines), {"uses_xy_y": uses_xy_y}


def selfcheck(info):
    return []
