"""T-prankuse: how SEVM.call / SEVM.create of src/halmos/sevm.py USE the result of Exec.resolve_prank,
per opcode -> coq/Gen/GenPrankUse.v  (used by Model/PrankKindModel.v, property C14).

For every call kind (CALL, CALLCODE, DELEGATECALL, STATICCALL) and creation kind (CREATE, CREATE2):
which expression becomes Message.target / caller / origin / value, which account and amount
handle_insufficient_fund_case is asked about, which accounts and amount transfer_value gets, and whose
balance the scheme that moves nothing (CALLCODE) requires -- each TRANSLATED into a Gallina function
of the opcode and of the candidate operands (the frame's this / caller / origin / callvalue, the
pranked caller / origin, the popped value), so that a change of any of these selections changes the
model the theorems are proved about.  Locals of the shape `name = <expression>` at the top level of
the function body are inlined where they are used.

Pinned (fail-closed):
  * Exec.resolve_prank: one lookup on self.context.prank, sender/origin default to this()/origin()
  * SEVM.call / SEVM.create call ex.resolve_prank exactly once, as an unconditional top-level
    statement (every kind of call / creation consumes a one-shot prank), before the Message is built;
    no other access to the prank record in either function
  * handle_insufficient_fund_case is an unconditional top-level statement after the Message
  * send_callvalue is `if <guard>: transfer_value(...)  [elif <guard>: balance test]`
  * handle_insufficient_fund_case / transfer_value: the zero shortcuts, the two conditions, the account
    they read (their `caller` parameter), debit of `caller` then credit of `to`
The Message fields per opcode, the funds fork and transfer_value are also pinned by translate/t_callmsg.py
(C09) and translate/t_branchpts.py (C01/C02) for their own models; the expression translator `Ex` and the
statement finders are reused from t_callmsg.
"""
import ast

from .pyexpr import TranslateError, find_function
from .t_callmsg import Ex, U, _assign_to, _call_stmt, _find, _index, _kw, _nested, MSG_FIELDS

NAME = "T-prankuse"
SRC = "sevm.py"
OUT = "GenPrankUse.v"

OPS = {"OP_CALL", "OP_CALLCODE", "OP_DELEGATECALL", "OP_STATICCALL", "OP_CREATE", "OP_CREATE2"}

CALLP = "(op to this caller origin callvalue pranked_caller pranked_origin fund : Z) "
CREP = "(op new_addr this caller origin callvalue pranked_caller pranked_origin value : Z) "


class ExL(Ex):
    """Ex + inlining of top-level locals `name = <expr>` (each assigned exactly once)"""

    def __init__(self, env, consts, locals_):
        super().__init__(env, consts)
        self.locals = locals_
        self.busy = set()

    def tr(self, n):
        if U(n) not in self.env and isinstance(n, ast.Name) and n.id in self.locals and n.id not in self.consts:
            vals = self.locals[n.id]
            if len(vals) != 1:
                raise TranslateError(f"local {n.id} is assigned {len(vals)} times")
            if n.id in self.busy:
                raise TranslateError(f"local {n.id} is defined in terms of itself")
            self.busy.add(n.id)
            try:
                return self.tr(vals[0])
            finally:
                self.busy.discard(n.id)
        return super().tr(n)


def _locals(fn):
    """top-level `name = expr` / `name: T = expr` of the function body -> {name: [expr, ...]}"""
    out = {}
    for s in fn.body:
        if isinstance(s, ast.Assign) and len(s.targets) == 1 and isinstance(s.targets[0], ast.Name):
            out.setdefault(s.targets[0].id, []).append(s.value)
        elif isinstance(s, ast.AnnAssign) and isinstance(s.target, ast.Name) and s.value is not None:
            out.setdefault(s.target.id, []).append(s.value)
    # names bound anywhere else in the function (nested assignments, loops, ...) cannot be inlined
    for n in ast.walk(fn):
        if isinstance(n, (ast.Assign, ast.AugAssign, ast.AnnAssign, ast.For, ast.NamedExpr)) and n not in fn.body:
            tg = n.targets if isinstance(n, ast.Assign) else [n.target]
            for t in tg:
                for m in ast.walk(t):
                    if isinstance(m, ast.Name) and m.id in out and isinstance(m.ctx, ast.Store):
                        out[m.id].append(None)
    return out


def _prank_use(fn, who, want_arg):
    """`pranked_caller, pranked_origin = ex.resolve_prank(<arg>)` exactly once, at the top level;
    no other use of the prank record.  Returns the statement index."""
    i = _index(fn.body, lambda s: isinstance(s, ast.Assign) and U(s.targets[0]).strip("()") == "pranked_caller, pranked_origin",
               f"{who}: assignment to pranked_caller, pranked_origin")
    if U(fn.body[i].value) != f"ex.resolve_prank({want_arg})":
        raise TranslateError(f"{who}: pranked_caller, pranked_origin = ex.resolve_prank({want_arg}) expected, found {U(fn.body[i].value)}")
    uses = [U(n) for n in ast.walk(fn) if isinstance(n, ast.Attribute) and n.attr in ("resolve_prank", "prank", "lookup", "stopPrank", "startPrank")]
    if uses != ["ex.resolve_prank"]:
        raise TranslateError(f"{who}: the prank record must be consulted exactly once through ex.resolve_prank, found {uses}")
    for n in ast.walk(fn):
        if isinstance(n, (ast.Assign, ast.AugAssign, ast.AnnAssign, ast.NamedExpr)) and n is not fn.body[i]:
            tg = n.targets if isinstance(n, ast.Assign) else [n.target]
            for t in tg:
                for m in ast.walk(t):
                    if isinstance(m, ast.Name) and m.id in ("pranked_caller", "pranked_origin"):
                        raise TranslateError(f"{who}: {m.id} is re-assigned: {U(n)}")
    return i


def _toplevel_call(fn, dotted, who):
    i = _index(fn.body, lambda s: isinstance(s, ast.Expr) and isinstance(s.value, ast.Call) and U(s.value.func) == dotted,
               f"{who}: top-level call of {dotted}")
    n_all = sum(1 for n in ast.walk(fn) if isinstance(n, ast.Call) and U(n.func) == dotted)
    return i, fn.body[i].value, n_all


def translate(src_text):
    tree = ast.parse(src_text)
    D, info = [], {}

    def emit(name, params, ty, body):
        D.append(f"Definition {name} {params}: {ty} := {body}.".replace("  :", " :"))
        info[name] = body

    # ------------------------------------------------------------------ Exec.resolve_prank
    rp = find_function(tree, "resolve_prank", cls="Exec")
    body = [U(s) for s in rp.body if not (isinstance(s, ast.Expr) and isinstance(s.value, ast.Constant))]
    want = ["prank_result = self.context.prank.lookup(to)",
            "caller = self.this() if prank_result.sender is None else prank_result.sender",
            "origin = self.origin() if prank_result.origin is None else prank_result.origin",
            "return (caller, origin)"]
    if body != want:
        raise TranslateError(f"Exec.resolve_prank: unexpected body {body}")

    # ------------------------------------------------------------------ SEVM.call
    call = find_function(tree, "call", cls="SEVM")
    loc = _locals(call)
    i_rp = _prank_use(call, "call", "to")
    if U(_assign_to(call.body, "resolved_to")) != "to_alias if to_alias is not None else to":
        raise TranslateError("call: unexpected resolved_to")
    if U(_assign_to(call.body, "to")) != "uint160(ex.st.pop())":
        raise TranslateError("call: `to` must be the popped address")
    emit("pu_call_fund", "(op popped : Z) ", "Z",
         ExL({"op": ("op", "Z"), "ZERO": ("0", "Z"), "ex.st.popi()": ("popped", "Z")}, OPS, {}).z(_assign_to(call.body, "fund")))
    env = {"op": ("op", "Z"), "resolved_to": ("to", "Z"), "to": ("to", "Z"), "ex.this()": ("this", "Z"), "ex.caller()": ("caller", "Z"),
           "ex.origin()": ("origin", "Z"), "ex.callvalue()": ("callvalue", "Z"), "pranked_caller": ("pranked_caller", "Z"),
           "pranked_origin": ("pranked_origin", "Z"), "fund": ("fund", "Z"), "ZERO": ("0", "Z"),
           "fund.is_concrete and fund.value == 0": ("(Z.eqb fund 0)", "bool"), "fund.as_z3()": ("fund", "Z")}
    for k in ("fund", "to", "resolved_to", "pranked_caller", "pranked_origin", "op", "message", "arg"):
        loc.pop(k, None)
    e = ExL(env, OPS, loc)
    msg = _assign_to(call.body, "message")
    if not (isinstance(msg, ast.Call) and U(msg.func) == "Message"):
        raise TranslateError("call: message = Message(...) expected")
    kw = _kw(msg, MSG_FIELDS)
    for f in ("target", "caller", "origin", "value"):
        emit(f"pu_call_{f}", CALLP, "Z", e.z(kw[f]))
    if U(kw["call_scheme"]) != "op":
        raise TranslateError("call: Message(call_scheme=op) expected")
    i_msg = _index(call.body, lambda s: isinstance(s, ast.Assign) and U(s.targets[0]) == "message", "call: message assignment")
    i_hif, hif, n_hif = _toplevel_call(call, "self.handle_insufficient_fund_case", "call")
    if n_hif != 1 or len(hif.args) != 5 or hif.keywords or [U(a) for a in hif.args[2:]] != ["message", "ex", "stack"]:
        raise TranslateError(f"call: unexpected handle_insufficient_fund_case call {U(hif)}")
    if not (i_rp < i_msg < i_hif):
        raise TranslateError("call: expected order resolve_prank < message < handle_insufficient_fund_case")
    emit("pu_call_hif_payer", CALLP, "Z", e.z(hif.args[0]))
    emit("pu_call_hif_value", CALLP, "Z", e.z(hif.args[1]))
    scv = _nested(call, "send_callvalue")
    sb = [s for s in scv.body if not (isinstance(s, ast.Expr) and isinstance(s.value, ast.Constant))]
    if len(sb) != 1 or not isinstance(sb[0], ast.If) or len(sb[0].body) != 1:
        raise TranslateError("send_callvalue: a single `if` (with an optional `elif`) around one transfer_value call expected")
    emit("pu_call_sends", "(op : Z) ", "bool", ExL({"op": ("op", "Z")}, OPS, {}).b(sb[0].test))
    tv = _call_stmt(sb[0].body, "self.transfer_value")
    if len(tv.args) != 5 or tv.keywords or U(tv.args[0]) != "ex" or U(tv.args[4]) != "condition":
        raise TranslateError(f"send_callvalue: unexpected transfer_value call {U(tv)}")
    emit("pu_call_tv_from", CALLP, "Z", e.z(tv.args[1]))
    emit("pu_call_tv_to", CALLP, "Z", e.z(tv.args[2]))
    emit("pu_call_tv_value", CALLP, "Z", e.z(tv.args[3]))
    n_tv = sum(1 for n in ast.walk(call) if isinstance(n, ast.Call) and U(n.func) in ("self.transfer_value", "ex.balance_update"))
    if n_tv != 1:
        raise TranslateError(f"call: balances must be touched by the one transfer_value of send_callvalue only ({n_tv} sites)")
    if not sb[0].orelse:
        emit("pu_call_checks", "(op fund : Z) ", "bool", "false")
        emit("pu_call_check_payer", CALLP, "Z", "pranked_caller")
        emit("pu_call_check_ok", "(bal fund : Z) ", "bool", "true")
    else:
        if not (len(sb[0].orelse) == 1 and isinstance(sb[0].orelse[0], ast.If) and not sb[0].orelse[0].orelse):
            raise TranslateError("send_callvalue: a single `elif` without `else` expected")
        el = sb[0].orelse[0]
        emit("pu_call_checks", "(op fund : Z) ", "bool", ExL(env, OPS, {}).b(el.test))
        eb = [s for s in el.body if not (isinstance(s, ast.Expr) and isinstance(s.value, ast.Constant))]
        if len(eb) != 3:
            raise TranslateError(f"send_callvalue: unexpected elif body {[U(s) for s in eb]}")
        bc = _assign_to(eb[:1], "balance_cond")
        # simplify(UGE(ex.balance_of(<payer>), fund.as_z3()))
        inner = bc.args[0] if isinstance(bc, ast.Call) and U(bc.func) == "simplify" and len(bc.args) == 1 else bc
        if not (isinstance(inner, ast.Call) and U(inner.func) in ("UGE", "ULE", "UGT", "ULT") and len(inner.args) == 2
                and isinstance(inner.args[0], ast.Call) and U(inner.args[0].func) == "ex.balance_of" and len(inner.args[0].args) == 1):
            raise TranslateError(f"send_callvalue: elif balance condition {U(bc)}")
        emit("pu_call_check_payer", CALLP, "Z", e.z(inner.args[0].args[0]))
        benv = {U(inner.args[0]): ("bal", "Z"), "fund.as_z3()": ("fund", "Z")}
        emit("pu_call_check_ok", "(bal fund : Z) ", "bool", Ex(benv).b(bc))
        if not (isinstance(eb[1], ast.If) and U(eb[1].test) == "is_false(balance_cond)" and not eb[1].orelse and len(eb[1].body) == 1
                and U(eb[1].body[0]).startswith("raise InfeasiblePath(")):
            raise TranslateError("send_callvalue: elif infeasibility test")
        if U(eb[2]) != "ex.path.append(balance_cond)":
            raise TranslateError("send_callvalue: the elif must append balance_cond to the path")
    ck = _nested(call, "call_known")
    i_send = _index(ck.body, lambda s: isinstance(s, ast.Expr) and U(s.value) == "send_callvalue()", "send_callvalue() in call_known")
    i_sub = _index(ck.body, lambda s: isinstance(s, ast.Assign) and U(s.targets[0]) == "sub_ex", "sub_ex in call_known")
    if not i_send < i_sub:
        raise TranslateError("call_known: the value is sent before the callee's frame is created")
    sub = ck.body[i_sub].value
    skw = {k.arg: U(k.value) for k in sub.keywords}
    if skw.get("context") != "CallContext(message=message, depth=ex.context.depth + 1)":
        raise TranslateError(f"call_known: sub_ex context = {skw.get('context')}")

    # ------------------------------------------------------------------ SEVM.create
    cr = find_function(tree, "create", cls="SEVM")
    cloc = _locals(cr)
    i_rp = _prank_use(cr, "create", "con_addr(0)")
    env = {"op": ("op", "Z"), "new_addr": ("new_addr", "Z"), "ex.this()": ("this", "Z"), "ex.caller()": ("caller", "Z"),
           "ex.origin()": ("origin", "Z"), "ex.callvalue()": ("callvalue", "Z"), "pranked_caller": ("pranked_caller", "Z"),
           "pranked_origin": ("pranked_origin", "Z"), "value": ("value", "Z"), "ZERO": ("0", "Z")}
    for k in ("value", "new_addr", "pranked_caller", "pranked_origin", "op", "message", "loc", "size", "salt"):
        cloc.pop(k, None)
    if U(_assign_to(cr.body, "value")) != "ex.st.popi()":
        raise TranslateError("create: `value` must be the popped word")
    e = ExL(env, OPS, cloc)
    msg = _assign_to(cr.body, "message")
    if not (isinstance(msg, ast.Call) and U(msg.func) == "Message"):
        raise TranslateError("create: message = Message(...) expected")
    kw = _kw(msg, MSG_FIELDS)
    for f in ("target", "caller", "origin", "value"):
        emit(f"pu_create_{f}", CREP, "Z", e.z(kw[f]))
    if U(kw["call_scheme"]) != "op":
        raise TranslateError("create: Message(call_scheme=op) expected")
    i_msg = _index(cr.body, lambda s: isinstance(s, ast.Assign) and U(s.targets[0]) == "message", "create: message assignment")
    i_hif, hif, n_hif = _toplevel_call(cr, "self.handle_insufficient_fund_case", "create")
    if n_hif != 1 or len(hif.args) != 5 or hif.keywords or [U(a) for a in hif.args[2:]] != ["message", "ex", "stack"]:
        raise TranslateError(f"create: unexpected handle_insufficient_fund_case call {U(hif)}")
    emit("pu_create_hif_payer", CREP, "Z", e.z(hif.args[0]))
    emit("pu_create_hif_value", CREP, "Z", e.z(hif.args[1]))
    i_tv, tv, n_tv = _toplevel_call(cr, "self.transfer_value", "create")
    n_bu = sum(1 for n in ast.walk(cr) if isinstance(n, ast.Call) and U(n.func) == "ex.balance_update")
    if n_tv != 1 or n_bu != 0 or len(tv.args) != 4 or tv.keywords or U(tv.args[0]) != "ex":
        raise TranslateError(f"create: balances must be touched by one unconditional transfer_value(ex, from, to, value): {U(tv)}")
    emit("pu_create_tv_from", CREP, "Z", e.z(tv.args[1]))
    emit("pu_create_tv_to", CREP, "Z", e.z(tv.args[2]))
    emit("pu_create_tv_value", CREP, "Z", e.z(tv.args[3]))
    i_sub = _index(cr.body, lambda s: isinstance(s, ast.Assign) and U(s.targets[0]) == "sub_ex", "sub_ex in create")
    if not (i_rp < i_msg < i_hif < i_tv < i_sub):
        raise TranslateError("create: expected order resolve_prank < message < handle_insufficient_fund_case < transfer_value < sub_ex")
    skw = {k.arg: U(k.value) for k in cr.body[i_sub].value.keywords}
    if skw.get("context") != "CallContext(message=message, depth=ex.context.depth + 1)":
        raise TranslateError(f"create: sub_ex context = {skw.get('context')}")

    # ------------------------------------------------------------------ handle_insufficient_fund_case
    h = find_function(tree, "handle_insufficient_fund_case", cls="SEVM")
    if [a.arg for a in h.args.args][:3] != ["self", "caller", "value"]:
        raise TranslateError("handle_insufficient_fund_case: parameters (caller, value, ...) expected")
    first = h.body[0]
    zero_skip = isinstance(first, ast.If) and U(first.test) == "value == ZERO" and [U(s) for s in first.body] == ["return"] and not first.orelse
    emit("pu_hif_zero_shortcut", "", "bool", "true" if zero_skip else "false")
    cond = _assign_to(h.body, "insufficiency_cond")
    emit("pu_insufficient", "(bal value : Z) ", "bool", Ex({"ex.balance_of(caller)": ("bal", "Z"), "value.as_z3()": ("value", "Z")}).b(cond))
    hb = _find(h.body, lambda s: isinstance(s, ast.If) and "insufficiency_cond" in U(s.test), "handle_insufficient_fund_case: branch `if`")
    if U(hb.test) != "ex.check(insufficiency_cond) != unsat" or hb.orelse:
        raise TranslateError("handle_insufficient_fund_case: unexpected feasibility test")
    lines = [U(s) for s in hb.body]
    if lines[0] != "fail_ex = self.create_branch(ex, insufficiency_cond, ex.pc)" or lines[-3:] != ["fail_ex.st.push(ZERO)", "fail_ex.advance()", "stack.push(fail_ex)"]:
        raise TranslateError("handle_insufficient_fund_case: unexpected failing branch")

    # ------------------------------------------------------------------ transfer_value
    t = find_function(tree, "transfer_value", cls="SEVM")
    if [a.arg for a in t.args.args][:5] != ["self", "ex", "caller", "to", "value"]:
        raise TranslateError("transfer_value: parameters (ex, caller, to, value, ...) expected")
    first = t.body[0]
    zs = isinstance(first, ast.If) and U(first.test) == "value.is_concrete and value.value == 0" and [U(s) for s in first.body] == ["return"]
    emit("pu_tv_zero_shortcut", "", "bool", "true" if zs else "false")
    if U(_assign_to(t.body, "caller_balance")) != "ex.balance_of(caller)":
        raise TranslateError("transfer_value: caller_balance = ex.balance_of(caller) expected")
    emit("pu_balance_ok", "(bal value : Z) ", "bool", Ex({"caller_balance": ("bal", "Z"), "value.as_z3()": ("value", "Z")}).b(_assign_to(t.body, "balance_cond")))
    inf = _find(t.body, lambda s: isinstance(s, ast.If) and U(s.test) == "is_false(balance_cond)", "transfer_value: infeasibility test")
    if not (len(inf.body) == 1 and isinstance(inf.body[0], ast.Raise) and U(inf.body[0].exc).startswith("InfeasiblePath(")) or inf.orelse:
        raise TranslateError("transfer_value: infeasible branch")
    if U(_call_stmt(t.body, "ex.path.append")) != "ex.path.append(balance_cond)":
        raise TranslateError("transfer_value: the balance condition must be appended to the path")
    ups = [s.value for s in t.body if isinstance(s, ast.Expr) and isinstance(s.value, ast.Call) and U(s.value.func) == "ex.balance_update"]
    n_ups = sum(1 for n in ast.walk(t) if isinstance(n, ast.Call) and U(n.func) == "ex.balance_update")
    if len(ups) != 2 or n_ups != 2:
        raise TranslateError("transfer_value: two unconditional balance updates expected")
    if U(ups[0].args[0]) != "caller" or U(ups[1].args[0]) != "to":
        raise TranslateError("transfer_value: debit of `caller` must come first, then credit of `to`")
    env = {"BV(caller_balance).sub(value)": ("(Z.sub bal_from value)", "Z"), "BV(ex.balance_of(to)).add(value)": ("(Z.add bal_to value)", "Z")}
    emit("pu_debit", "(bal_from value : Z) ", "Z", Ex(env).z(ups[0].args[1]))
    emit("pu_credit", "(bal_to value : Z) ", "Z", Ex(env).z(ups[1].args[1]))

    head = ["(* GENERATED by translate/t_prankuse.py from src/halmos/sevm.py -- do not edit *)",
            "From Coq Require Import ZArith Bool.", "From HV Require Import Gen.GenOpcodes.", "Open Scope Z_scope.", ""]
    return "\n".join(head + D) + "\n", info


WANT = ["pu_call_fund", "pu_call_target", "pu_call_caller", "pu_call_origin", "pu_call_value", "pu_call_hif_payer", "pu_call_hif_value",
        "pu_call_sends", "pu_call_tv_from", "pu_call_tv_to", "pu_call_tv_value", "pu_call_checks", "pu_call_check_payer", "pu_call_check_ok",
        "pu_create_target", "pu_create_caller", "pu_create_origin", "pu_create_value", "pu_create_hif_payer", "pu_create_hif_value",
        "pu_create_tv_from", "pu_create_tv_to", "pu_create_tv_value", "pu_hif_zero_shortcut", "pu_insufficient", "pu_tv_zero_shortcut",
        "pu_balance_ok", "pu_debit", "pu_credit"]


def selfcheck(info):
    """The selections are inline code without an importable counterpart; the cross-check is the
    correspondence run of C14 (pranked calls of every kind through the real SEVM).  Here: everything emitted."""
    return [f"missing {k}" for k in WANT if k not in info]
