"""T-cacheusers: /repo/src/halmos/__main__.py -> coq/Gen/GenCacheUsers.v

WHO ASKS THE SOLVER, AND THROUGH WHICH DOOR.  The unsat-core cache of a function context holds
cores learnt from assertion queries *after refinement* as well; such a core is unsatisfiable
under the real semantics of mul/div/..., not under the uninterpreted abstraction.  A consumer
that poses the un-refined query (the feasibility check of a stuck path in run_test, the
feasibility check of the setUp paths) therefore must not be answered from that cache.  This
translator regenerates, for every consumer of the solver in __main__.py, the decision
"how is the query answered" as a Gallina function

    gen_<who>_solve (cache hit : bool) (cached low e2e : R) : R

  cache  = args.cache_solver
  hit    = check_unsat_cores(path_ctx.query, ctx.solving_ctx.unsat_cores) in the current state
  cached = a SolverOutput(unsat, ...) built without calling the solver
  low    = solve_low_level(path_ctx)        (query as posed, no look-up)
  e2e    = solve_end_to_end(path_ctx)       (look-up, solver, refinement)

for <who> in {stuck, setup, assert}; whether the consumer's output is handed to
append_unsat_core (never: census); and the test `result != unsat` that counts a stuck path.
Census, fail-closed: every other mention of check_unsat_cores / unsat_cores / append_unsat_core /
solve_low_level / solve_end_to_end / refine / is_refined in __main__.py raises TranslateError.
"""
import ast

from .pyexpr import TranslateError, find_function

NAME = "T-cacheusers"
SRC = "__main__.py"
OUT = "GenCacheUsers.v"

WATCH = {"check_unsat_cores", "unsat_cores", "append_unsat_core", "solve_low_level", "solve_end_to_end",
         "refine", "is_refined", "unsat_core"}


def _fail(node, why):
    raise TranslateError(f"line {getattr(node, 'lineno', '?')}: {why}: {ast.unparse(node)[:200]}")


def watched(node):
    """watched mentions below node (Name ids, Attribute attrs), as (node, name)"""
    out = []
    for n in ast.walk(node):
        if isinstance(n, ast.Name) and n.id in WATCH:
            out.append((n, n.id))
        elif isinstance(n, ast.Attribute) and n.attr in WATCH:
            out.append((n, n.attr))
    return out


# ----------------------------------------------------------------- the little expression language

class Solve:
    """Translates `solver_output = ...` statements / expressions over one PathContext variable."""

    def __init__(self, who, pc_var, cores_ok):
        self.who, self.pc, self.cores_ok = who, pc_var, cores_ok
        self.used = set()     # ast nodes accounted for

    def mark(self, node):
        for n in ast.walk(node):
            self.used.add(id(n))

    def test(self, node):
        if isinstance(node, ast.BoolOp):
            op = " && " if isinstance(node.op, ast.And) else " || "
            return "(" + op.join(self.test(v) for v in node.values) + ")"
        if isinstance(node, ast.UnaryOp) and isinstance(node.op, ast.Not):
            return f"(negb {self.test(node.operand)})"
        if isinstance(node, ast.Constant) and isinstance(node.value, bool):
            return "true" if node.value else "false"
        if ast.unparse(node) == "args.cache_solver":
            return "cache"
        if isinstance(node, ast.Call) and isinstance(node.func, ast.Name) and node.func.id == "check_unsat_cores":
            if len(node.args) != 2 or node.keywords:
                _fail(node, f"{self.who}: check_unsat_cores(query, cores) expected")
            q, c = ast.unparse(node.args[0]), ast.unparse(node.args[1])
            if q not in (f"{self.pc}.query", "query") or c not in self.cores_ok:
                _fail(node, f"{self.who}: look-up of another query / another core list")
            self.mark(node)
            return "hit"
        _fail(node, f"{self.who}: unsupported condition in front of the solver call")

    def expr(self, node):
        if isinstance(node, ast.IfExp):
            return f"(if {self.test(node.test)} then {self.expr(node.body)} else {self.expr(node.orelse)})"
        if isinstance(node, ast.Call) and isinstance(node.func, ast.Name):
            f = node.func.id
            if f in ("solve_low_level", "solve_end_to_end"):
                if len(node.args) != 1 or node.keywords or ast.unparse(node.args[0]) != self.pc:
                    _fail(node, f"{self.who}: {f}({self.pc}) expected")
                self.mark(node)
                return "low" if f == "solve_low_level" else "e2e"
            if f == "SolverOutput":
                a = node.args
                if not a or ast.unparse(a[0]) != "unsat" or len(a) > 4 or any(k.arg in ("unsat_core", "model", "error") for k in node.keywords):
                    _fail(node, f"{self.who}: an output built without the solver must be (unsat, ..) without model/core")
                self.mark(node)
                return "cached"
        _fail(node, f"{self.who}: unsupported way of obtaining the solver output")

    def stmts(self, body, target):
        """a block whose only effect is to bind `target` (comments / debug prints allowed)"""
        res = None
        for s in body:
            if isinstance(s, ast.Expr) and isinstance(s.value, ast.Call) and ast.unparse(s.value.func) in ("debug", "print", "verbose") and not watched(s):
                continue
            if res is not None:
                _fail(s, f"{self.who}: statement after the solver output is bound")
            if isinstance(s, ast.Assign) and len(s.targets) == 1 and isinstance(s.targets[0], ast.Name) and s.targets[0].id == target:
                res = self.expr(s.value)
            elif isinstance(s, ast.If):
                if not s.orelse:
                    _fail(s, f"{self.who}: `if` without else around the solver call")
                t = self.test(s.test)
                res = f"(if {t} then {self.stmts(s.body, target)} else {self.stmts(s.orelse, target)})"
            else:
                _fail(s, f"{self.who}: unexpected statement where the solver output is obtained")
        if res is None:
            raise TranslateError(f"{self.who}: `{target}` is never bound")
        return res


def check_path_ctx(fn, who, var, query_ok, before):
    """the PathContext the consumer uses: query=<un-refined text of the path>, solving_ctx=ctx.solving_ctx"""
    found = [s for s in ast.walk(fn) if isinstance(s, ast.Assign) and len(s.targets) == 1 and isinstance(s.targets[0], ast.Name)
             and s.targets[0].id == var and s.lineno < before.lineno]
    if not found:
        raise TranslateError(f"{who}: `{var} = PathContext(...)` not found before the solver call")
    s = max(found, key=lambda x: x.lineno)
    c = s.value
    if not (isinstance(c, ast.Call) and ast.unparse(c.func) == "PathContext" and not c.args):
        _fail(s, f"{who}: {var} must be a PathContext(...) with keyword arguments")
    kw = {k.arg: ast.unparse(k.value) for k in c.keywords}
    if set(kw) != {"args", "path_id", "query", "solving_ctx"}:
        _fail(s, f"{who}: PathContext keywords {sorted(kw)} (is_refined / others not expected)")
    if kw["solving_ctx"] != "ctx.solving_ctx" or kw["args"] != "args":
        _fail(s, f"{who}: PathContext must use the function's own solving_ctx and args")
    if kw["query"] not in query_ok:
        _fail(s, f"{who}: query is `{kw['query']}`, expected one of {query_ok}")
    return kw


def result_test(node, who):
    """`<v>.result != unsat` and equivalent spellings -> (v, Gallina over is_unsat)"""
    neg = False
    if isinstance(node, ast.UnaryOp) and isinstance(node.op, ast.Not):
        neg, node = True, node.operand
    if isinstance(node, ast.Compare) and len(node.ops) == 1:
        l, r, op = node.left, node.comparators[0], node.ops[0]
        if ast.unparse(l) == "unsat":
            l, r = r, l
        if ast.unparse(r) == "unsat" and isinstance(l, ast.Attribute) and l.attr == "result" and isinstance(l.value, ast.Name):
            if isinstance(op, (ast.NotEq, ast.IsNot)):
                return l.value.id, ("is_unsat" if neg else "negb is_unsat")
            if isinstance(op, (ast.Eq, ast.Is)):
                return l.value.id, ("negb is_unsat" if neg else "is_unsat")
    _fail(node, f"{who}: unsupported test on the solver output")


def pc_var(node, who):
    """the variable passed to the solver functions below node (one name; `path_ctx` if there is no such call)"""
    names = {ast.unparse(c.args[0]) for c in ast.walk(node) if isinstance(c, ast.Call) and isinstance(c.func, ast.Name)
             and c.func.id in ("solve_low_level", "solve_end_to_end") and len(c.args) == 1 and isinstance(c.args[0], ast.Name)}
    if len(names) > 1:
        _fail(node, f"{who}: solver calls on several PathContext variables")
    return names.pop() if names else "path_ctx"


# ----------------------------------------------------------------- run_test: the stuck arm

def tr_stuck(tree):
    fn = find_function(tree, "run_test")
    loops = [s for s in fn.body if isinstance(s, ast.For) and ast.unparse(s.iter) == "enumerate(exs)"]
    if len(loops) != 1:
        raise TranslateError("run_test: expected one `for path_id, ex in enumerate(exs)` loop")
    loop = loops[0]
    arm = None
    for s in loop.body:
        node = s
        while isinstance(node, ast.If):
            if ast.unparse(node.test) == "ex.context.is_stuck()":
                if arm is not None:
                    raise TranslateError("run_test: two stuck arms")
                arm = node
            node = node.orelse[0] if len(node.orelse) == 1 and isinstance(node.orelse[0], ast.If) else None
    if arm is None:
        raise TranslateError("run_test: `elif ex.context.is_stuck():` not found in the path loop")
    tries = [s for s in arm.body if isinstance(s, ast.Try)]
    if len(tries) != 1:
        _fail(arm, "run_test/stuck: expected one try block around the solver call")
    tr = tries[0]
    # after the try: `if <out>.result != unsat: stuck.append(...)` -- names the variable holding the output
    after = arm.body[arm.body.index(tr) + 1:]
    if len(after) != 1 or not isinstance(after[0], ast.If) or after[0].orelse:
        _fail(arm, "run_test/stuck: expected exactly `if <output>.result != unsat: stuck.append(..)` after the try")
    out_var, counted = result_test(after[0].test, "run_test/stuck")
    pc = pc_var(tr, "run_test/stuck")
    kw = check_path_ctx(arm, "run_test/stuck", pc, ("ex.path.to_smt2(args)",), tr)
    sv = Solve("run_test/stuck", pc, ("ctx.solving_ctx.unsat_cores", f"{pc}.solving_ctx.unsat_cores"))
    g = sv.stmts(tr.body, out_var)
    # handlers: may only build an error output (C05's subject); they must not touch the cache
    for h in tr.handlers:
        w = [n for n, _ in watched(h)]
        if w:
            _fail(w[0], "run_test/stuck: exception handler mentions the solver/cache")
    if tr.orelse or tr.finalbody:
        _fail(tr, "run_test/stuck: try with else/finally")
    ap = [n for n in ast.walk(after[0]) if isinstance(n, ast.Call) and ast.unparse(n.func) == "stuck.append"]
    if len(ap) != 1 or after[0].body[0].value is not ap[0]:
        _fail(after[0], "run_test/stuck: the counting arm must start with stuck.append(..)")
    w = [n for n, _ in watched(after[0])]
    if w:
        _fail(w[0], "run_test/stuck: the counting arm mentions the solver/cache")
    # everything watched inside run_test must be what was just translated
    for n, name in watched(fn):
        if id(n) not in sv.used:
            _fail(n, f"run_test: `{name}` used outside the translated stuck-path solver call")
    # `stuck` is only appended to in that arm and only its length decides
    apps = [n for n in ast.walk(fn) if isinstance(n, ast.Call) and ast.unparse(n.func) == "stuck.append"]
    if len(apps) != 1:
        raise TranslateError("run_test: stuck.append outside the stuck arm")
    return g, counted, kw


# ----------------------------------------------------------------- setup: feasibility of the setUp paths

def tr_setup(tree):
    fn = find_function(tree, "setup")
    calls = [(n, name) for n, name in watched(fn)]
    assigns = [s for s in ast.walk(fn) if isinstance(s, ast.Assign) and len(s.targets) == 1 and isinstance(s.targets[0], ast.Name) and watched(s.value)]
    if len(assigns) != 1:
        raise TranslateError(f"setup: expected one `<output> = <solver call>`, found {len(assigns)}")
    a = assigns[0]
    out_var = a.targets[0].id
    pc = pc_var(a, "setup")
    check_path_ctx(fn, "setup", pc, ("query",), a)
    # the path is kept when `<output>.result != unsat`
    tests = [n for n in ast.walk(fn) if isinstance(n, ast.If) and any(isinstance(x, ast.Name) and x.id == out_var for x in ast.walk(n.test))]
    if len(tests) != 1 or result_test(tests[0].test, "setup") != (out_var, "negb is_unsat"):
        raise TranslateError("setup: expected one `if <output>.result != unsat:` deciding whether the setUp path is kept")
    # `query` there is the loop variable over setup_exs_no_error, filled with setup_ex.path.to_smt2(args)
    fills = [n for n in ast.walk(fn) if isinstance(n, ast.Call) and ast.unparse(n.func) == "setup_exs_no_error.append"]
    if len(fills) != 1 or ast.unparse(fills[0].args[0]) != "(setup_ex, setup_ex.path.to_smt2(args))":
        raise TranslateError("setup: setup_exs_no_error must be filled with (setup_ex, setup_ex.path.to_smt2(args))")
    sv = Solve("setup", pc, ("ctx.solving_ctx.unsat_cores", f"{pc}.solving_ctx.unsat_cores"))
    g = sv.expr(a.value)
    for n, name in calls:
        if id(n) not in sv.used:
            _fail(n, f"setup: `{name}` used outside the translated solver call")
    return g


# ----------------------------------------------------------------- assertion violations: submit(solve_end_to_end, path_ctx) + callback

def tr_assert(tree):
    fn = find_function(tree, "handle_assertion_violation", cls="CounterexampleHandler")
    subs = [n for n in ast.walk(fn) if isinstance(n, ast.Call) and ast.unparse(n.func).endswith("thread_pool.submit")]
    if len(subs) != 1:
        raise TranslateError("handle_assertion_violation: expected one thread_pool.submit")
    s = subs[0]
    if len(s.args) != 2 or s.keywords or not isinstance(s.args[0], ast.Name) or ast.unparse(s.args[1]) != "path_ctx":
        _fail(s, "handle_assertion_violation: submit(<solver function>, path_ctx) expected")
    f = s.args[0].id
    if f == "solve_end_to_end":
        g = "e2e"
    elif f == "solve_low_level":
        g = "low"
    else:
        _fail(s, "handle_assertion_violation: unknown solver function submitted")
    for n, name in watched(fn):
        if n is not s.args[0]:
            _fail(n, f"handle_assertion_violation: `{name}` used outside the submit call")
    # the query: ex.path.to_smt2(args) (un-refined; solve_end_to_end refines it itself)
    q = [x for x in ast.walk(fn) if isinstance(x, (ast.Assign, ast.AnnAssign)) and ast.unparse(x.targets[0] if isinstance(x, ast.Assign) else x.target) == "query"]
    if len(q) != 1 or ast.unparse(q[0].value) != "ex.path.to_smt2(args)":
        raise TranslateError("handle_assertion_violation: `query = ex.path.to_smt2(args)` expected")
    return g


def census(tree, handled):
    """every watched mention in the module sits in a function some translator accounts for"""
    allowed = {
        ("setup",), ("run_test",), ("CounterexampleHandler", "handle_assertion_violation"),
        ("CounterexampleHandler", "_solve_end_to_end_callback"),   # T-coreappend: the append guard
    }

    def go(node, path):
        for c in ast.iter_child_nodes(node):
            p = path + (c.name,) if isinstance(c, (ast.FunctionDef, ast.AsyncFunctionDef, ast.ClassDef)) else path
            hit = (isinstance(c, ast.Name) and c.id in WATCH) or (isinstance(c, ast.Attribute) and c.attr in WATCH)
            if hit and path not in allowed:
                _fail(c, f"solver/cache used in `{'.'.join(path) or '<module>'}`, which no translator of C16 covers")
            go(c, p)

    go(tree, ())
    # the callback is the only place that learns: exactly one append (shape checked by T-coreappend)
    cb = find_function(tree, "_solve_end_to_end_callback", cls="CounterexampleHandler")
    names = sorted(name for _, name in watched(cb))
    if names != ["append_unsat_core", "unsat_core", "unsat_core"]:
        raise TranslateError(f"_solve_end_to_end_callback: cache-related mentions {names}, expected one guarded append of the output's core")


def translate(src_text):
    tree = ast.parse(src_text)
    stuck, counted, _ = tr_stuck(tree)
    setup = tr_setup(tree)
    asrt = tr_assert(tree)
    census(tree, None)
    sig = "{R : Type} (cache hit : bool) (cached low e2e : R) : R"
    text = "\n".join([
        "(* GENERATED by translate/t_cacheusers.py from src/halmos/__main__.py (run_test, setup, handle_assertion_violation) -- do not edit *)",
        "From Coq Require Import Bool.",
        "",
        "(* how the consumer obtains its SolverOutput: cache = args.cache_solver, hit = check_unsat_cores(query, cores) now,",
        "   cached = SolverOutput(unsat, ..) without a solver call, low = solve_low_level(path_ctx), e2e = solve_end_to_end(path_ctx) *)",
        "(* run_test, `elif ex.context.is_stuck()`: query = ex.path.to_smt2(args), not refined *)",
        f"Definition gen_stuck_solve {sig} := {stuck}.",
        "(* setup(): feasibility of the candidate setUp paths, query = setup_ex.path.to_smt2(args), not refined *)",
        f"Definition gen_setup_solve {sig} := {setup}.",
        "(* handle_assertion_violation: what is submitted to the thread pool *)",
        f"Definition gen_assert_solve {sig} := {asrt}.",
        "(* a stuck path is counted when *)",
        f"Definition gen_stuck_counted (is_unsat : bool) : bool := {counted}.",
        "(* census: the only append_unsat_core is the guarded one of the callback (Gen/GenCoreAppend.v): the output of a",
        "   stuck / setup query is never learnt; no other function of __main__.py touches the solver or the cache *)",
        "",
    ])
    return text, {"stuck": stuck, "setup": setup, "assert": asrt, "counted": counted}


def selfcheck(info):
    return []
