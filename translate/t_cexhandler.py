"""T-cexhandler: /repo/src/halmos/__main__.py -> coq/Gen/GenCexHandler.v

CounterexampleHandler, the last step between a solver answer and a reported counterexample:

  gen_get_solver_output   _get_solver_output: in which ORDER the handler looks at the state of
                          the solver executor (shut down: the solver processes were killed),
                          at future.exception() and at future.result(), and which guards decide
                          that the result is dropped (an `err` output)
  gen_callback_verdict    _solve_end_to_end_callback: which list (valid / potentially invalid /
                          none) the model of a solver output goes to
  gen_callback_shutdown   ... and whether the executor is shut down after it (--early-exit)

Guards are translated (not rejected) when they are built from `<...>.executor.is_shutdown()`,
`<out>.result ==/!=/in/not in` over sat / unsat / unknown / "err", `model is None`,
`model.is_valid`, `args.early_exit` and not / and / or; the theorems of Props/C04.v decide
whether a result obtained after a shutdown can still be reported.  Every other shape raises
TranslateError (fail-closed).
"""
import ast

from .pyexpr import TranslateError, find_function, strip_docstring

NAME = "T-cexhandler"
SRC = "__main__.py"
OUT = "GenCexHandler.v"

KIND = {"sat": "KSat", "unsat": "KUnsat", "unknown": "KUnknown", "err": "KErr"}


def _src(n):
    try:
        return ast.unparse(n)
    except Exception:  # noqa: BLE001
        return repr(n)


def _fail(where, node, why):
    raise TranslateError(f"{where}: {why}: {_src(node)[:100]!r} at line {getattr(node, 'lineno', '?')}")


def _kind(n, where):
    if isinstance(n, ast.Name) and n.id in ("sat", "unsat", "unknown"):
        return KIND[n.id]
    if isinstance(n, ast.Constant) and n.value == "err":
        return KIND["err"]
    _fail(where, n, "not a solver result constant")


class Conds:
    """guards over: is_shutdown (bool), o (the SolverOutput in hand, or None), early_exit"""

    def __init__(self, where, result_exprs, model_exprs, allow_shutdown=True):
        self.where = where
        self.result_exprs = set(result_exprs)   # source texts that denote <out>.result
        self.model_exprs = set(model_exprs)     # source texts that denote <out>.model
        self.allow_shutdown = allow_shutdown

    def tr(self, n):
        w = self.where
        if isinstance(n, ast.UnaryOp) and isinstance(n.op, ast.Not):
            return f"(negb {self.tr(n.operand)})"
        if isinstance(n, ast.BoolOp):
            op = "andb" if isinstance(n.op, ast.And) else "orb"
            parts = [self.tr(v) for v in n.values]
            out = parts[-1]
            for p in reversed(parts[:-1]):
                out = f"({op} {p} {out})"
            return out
        s = _src(n)
        if s.endswith(".executor.is_shutdown()") and isinstance(n, ast.Call) and not n.args and not n.keywords:
            if s not in ("self.ctx.solving_ctx.executor.is_shutdown()", "ctx.solving_ctx.executor.is_shutdown()"):
                _fail(w, n, "is_shutdown() of something other than the function's solver executor")
            if not self.allow_shutdown:
                _fail(w, n, "is_shutdown() is not expected here")
            return "is_shutdown"
        if s in ("args.early_exit", "ctx.args.early_exit", "self.ctx.args.early_exit"):
            return "early_exit"
        if isinstance(n, ast.Compare) and len(n.ops) == 1:
            l, op, r = n.left, n.ops[0], n.comparators[0]
            if _src(l) in self.result_exprs:
                if isinstance(op, (ast.Eq, ast.NotEq)):
                    t = f"(out_is {_kind(r, w)} o)"
                    return t if isinstance(op, ast.Eq) else f"(negb {t})"
                if isinstance(op, (ast.In, ast.NotIn)) and isinstance(r, (ast.Tuple, ast.List, ast.Set)) and r.elts:
                    parts = [f"(out_is {_kind(e, w)} o)" for e in r.elts]
                    t = parts[-1]
                    for p in reversed(parts[:-1]):
                        t = f"(orb {p} {t})"
                    return t if isinstance(op, ast.In) else f"(negb {t})"
            if _src(l) in self.model_exprs and isinstance(r, ast.Constant) and r.value is None and isinstance(op, (ast.Is, ast.IsNot)):
                # only a sat output carries a model (SolverOutput.from_result)
                return "(negb (out_is KSat o))" if isinstance(op, ast.Is) else "(out_is KSat o)"
        if isinstance(n, ast.Attribute) and n.attr == "is_valid" and _src(n.value) in self.model_exprs:
            return "(out_model_valid o)"
        _fail(w, n, "unsupported guard")


# ----------------------------------------------------------------------------- _get_solver_output

def _is_from_error_return(st):
    return (isinstance(st, ast.Return) and isinstance(st.value, ast.Call)
            and _src(st.value.func) == "SolverOutput.from_error")


def _error_block(where, body):
    """a block that logs (optionally) and returns SolverOutput.from_error(...)"""
    if not body or not _is_from_error_return(body[-1]):
        _fail(where, body[-1] if body else ast.Pass(), "expected a block ending in return SolverOutput.from_error(...)")
    for st in body[:-1]:
        ok = False
        if isinstance(st, ast.Assign) and len(st.targets) == 1 and isinstance(st.targets[0], ast.Name) and isinstance(st.value, ast.Constant):
            ok = True
        if isinstance(st, ast.If) and not st.orelse and all(isinstance(x, ast.Expr) and isinstance(x.value, ast.Call) and _src(x.value.func) in ("error", "warn", "debug") for x in st.body):
            ok = True
        if isinstance(st, ast.Expr) and isinstance(st.value, ast.Call) and _src(st.value.func) in ("error", "warn", "debug"):
            ok = True
        if not ok:
            _fail(where, st, "unexpected statement before return SolverOutput.from_error(...)")


def _tr_get(fn):
    where = "_get_solver_output"
    if [a.arg for a in fn.args.args] != ["self", "future", "path_ctx"] or fn.decorator_list:
        raise TranslateError(f"{where}: unexpected signature")
    body = strip_docstring(fn.body)

    def go(stmts, have):
        """have: name of the variable holding the SolverOutput (None before future.result())"""
        if not stmts:
            _fail(where, fn, "falls off the end (returns None)")
        st, rest = stmts[0], stmts[1:]
        cs = Conds(where, {f"{have}.result"} if have else set(), {f"{have}.model"} if have else set())
        # bookkeeping: path_id, query_file = ...
        if isinstance(st, ast.Assign) and _src(st) == "(path_id, query_file) = (path_ctx.path_id, str(path_ctx.dump_file))":
            return go(rest, have)
        if isinstance(st, ast.Assign) and _src(st) == "path_id, query_file = (path_ctx.path_id, str(path_ctx.dump_file))":
            return go(rest, have)
        if isinstance(st, ast.If):
            t = st.test
            # if e := future.exception(): <error block>
            if isinstance(t, ast.NamedExpr) and _src(t.value) == "future.exception()" and not st.orelse:
                _error_block(where, st.body)
                return f"match f with FExc => OErr | _ => {go(rest, have)} end"
            if _src(t) == "future.exception() is not None" and not st.orelse:
                _error_block(where, st.body)
                return f"match f with FExc => OErr | _ => {go(rest, have)} end"
            g = cs.tr(t)
            if st.orelse:
                _fail(where, st, "guard with an else branch")
            _error_block(where, st.body)
            return f"if {g} then OErr else {go(rest, have)}"
        if isinstance(st, ast.Try):
            if have is not None or st.finalbody or st.orelse or len(st.handlers) != 1 or len(st.body) != 1:
                _fail(where, st, "unexpected try shape")
            h = st.handlers[0]
            if h.type is None or _src(h.type) not in ("Exception", "BaseException"):
                _fail(where, st, "the handler must catch Exception")
            _error_block(where, h.body)
            b = st.body[0]
            if isinstance(b, ast.Return) and _src(b.value) == "future.result()":
                return "match f with FRes o => o | _ => OErr end"
            if (isinstance(b, ast.Assign) and len(b.targets) == 1 and isinstance(b.targets[0], ast.Name)
                    and _src(b.value) == "future.result()"):
                name = b.targets[0].id
                return f"match f with FRes o => {go(rest, name)} | _ => OErr end"
            _fail(where, b, "expected `return future.result()` or `<name> = future.result()`")
        if isinstance(st, ast.Return):
            if rest:
                _fail(where, st, "statements after return")
            if have is not None and isinstance(st.value, ast.Name) and st.value.id == have:
                return "o"
            if _is_from_error_return(st):
                return "OErr"
            _fail(where, st, "unexpected return value")
        _fail(where, st, "unsupported statement")

    return go(body, None)


# ----------------------------------------------------------------------------- _solve_end_to_end_callback

BOOKKEEPING = {
    "ctx = self.ctx",
    "args = ctx.args",
    "solver_output: SolverOutput = self._get_solver_output(future, path_ctx)",
    "solver_output = self._get_solver_output(future, path_ctx)",
    "ctx.solver_outputs.append(solver_output)",
    "result, model = (solver_output.result, solver_output.model)",
    "(result, model) = (solver_output.result, solver_output.model)",
    "path_id = solver_output.path_id",
}
VALID_APPEND = "ctx.valid_counterexamples.append(model)"
INVALID_APPEND = "ctx.invalid_counterexamples.append(model)"
SHUTDOWN = "ctx.solving_ctx.executor.shutdown(wait=False)"


def _mentions_lists(node):
    s = _src(node)
    return "valid_counterexamples" in s or "invalid_counterexamples" in s


def _mentions_shutdown(node):
    return ".shutdown(" in _src(node)


def _block_effect(where, body, cs):
    """-> (verdict term, shutdown term) of a block that does not return: straight-line appends and
    nested ifs over translated guards"""
    verdict, shut = None, "false"
    for st in body:
        if isinstance(st, ast.Return):
            _fail(where, st, "return inside a reporting block")
        s = _src(st)
        if s == VALID_APPEND:
            if verdict is not None:
                _fail(where, st, "two appends on one path")
            verdict = "ValidCex"
            continue
        if s == INVALID_APPEND:
            if verdict is not None:
                _fail(where, st, "two appends on one path")
            verdict = "InvalidCex"
            continue
        if s == SHUTDOWN:
            shut = "true"
            continue
        if isinstance(st, ast.If) and (_mentions_lists(st) or _mentions_shutdown(st)):
            g = cs.tr(st.test)
            v1, s1 = _block_effect(where, st.body, cs)
            v2, s2 = _block_effect(where, st.orelse, cs)
            if v1 != "NoModel" or v2 != "NoModel":
                if verdict is not None:
                    _fail(where, st, "two appends on one path")
                verdict = f"(if {g} then {v1} else {v2})"
            if s1 != "false" or s2 != "false":
                if shut != "false":
                    _fail(where, st, "two shutdowns on one path")
                shut = f"(if {g} then {s1} else {s2})"
            continue
        if _mentions_lists(st) or _mentions_shutdown(st):
            _fail(where, st, "unexpected use of the counterexample lists / executor")
    return (verdict or "NoModel"), shut


def _tr_callback(fn):
    where = "_solve_end_to_end_callback"
    if [a.arg for a in fn.args.args] != ["self", "future", "ex", "path_ctx", "description"] or fn.decorator_list:
        raise TranslateError(f"{where}: unexpected signature")
    body = strip_docstring(fn.body)
    cs = Conds(where, {"result", "solver_output.result"}, {"model", "solver_output.model"}, allow_shutdown=False)
    seen_get = [False]

    def go(stmts):
        """-> (verdict term, shutdown term)"""
        if not stmts:
            return "NoModel", "false"
        st, rest = stmts[0], stmts[1:]
        s = _src(st)
        if s in BOOKKEEPING:
            if "_get_solver_output" in s:
                seen_get[0] = True
            return go(rest)
        if isinstance(st, ast.Return) and st.value is None:
            return "NoModel", "false"
        if isinstance(st, ast.If):
            ends = bool(st.body) and isinstance(st.body[-1], ast.Return) and st.body[-1].value is None
            if ends and not st.orelse:
                if _mentions_lists(st) or _mentions_shutdown(st):
                    _fail(where, st, "an early-return arm touches the counterexample lists / executor")
                g = cs.tr(st.test)
                v, sh = go(rest)
                return f"(if {g} then NoModel else {v})", f"(if {g} then false else {sh})"
            if any(isinstance(x, ast.Return) for x in ast.walk(st)):
                _fail(where, st, "unsupported return placement")
            if _mentions_lists(st) or _mentions_shutdown(st):
                v, sh = _block_effect(where, [st], cs)
                v2, sh2 = go(rest)
                if v2 != "NoModel" or sh2 != "false":
                    _fail(where, st, "the counterexample lists are touched at two places")
                return v, sh
            return go(rest)   # printing / probes / flamegraph bookkeeping
        if _mentions_lists(st) or _mentions_shutdown(st):
            _fail(where, st, "unconditional use of the counterexample lists / executor")
        if isinstance(st, (ast.Expr, ast.Assign, ast.AnnAssign)):
            for x in ast.walk(st):
                if isinstance(x, ast.Name) and isinstance(x.ctx, ast.Store) and x.id in ("result", "model", "solver_output"):
                    _fail(where, st, "the solver output is re-bound")
            return go(rest)
        _fail(where, st, "unsupported statement")

    v, sh = go(body)
    if not seen_get[0]:
        raise TranslateError(f"{where}: the solver output does not come from self._get_solver_output(future, path_ctx)")
    return v, sh


def translate(src_text):
    tree = ast.parse(src_text)
    imported = set()
    for node in tree.body:
        if isinstance(node, ast.ImportFrom) and node.module == "z3":
            imported |= {a.asname or a.name for a in node.names}
    for n in ("unsat", "unknown"):
        if n not in imported:
            raise TranslateError(f"`{n}` is not imported from z3 in __main__.py")
    get = _tr_get(find_function(tree, "_get_solver_output", cls="CounterexampleHandler"))
    v, sh = _tr_callback(find_function(tree, "_solve_end_to_end_callback", cls="CounterexampleHandler"))
    lines = [
        "(* GENERATED by translate/t_cexhandler.py from src/halmos/__main__.py -- do not edit *)",
        "From Coq Require Import Bool String.",
        "From HV Require Import Model.SolveModel Model.CexDefs.",
        "",
        "(* CounterexampleHandler._get_solver_output *)",
        "Definition gen_get_solver_output (is_shutdown : bool) (f : fut) : outcome :=",
        f"  {get}.",
        "",
        "(* CounterexampleHandler._solve_end_to_end_callback: the list the model goes to *)",
        "Definition gen_callback_verdict (early_exit : bool) (o : outcome) : verdict :=",
        f"  {v}.",
        "",
        "(* ... and whether the solver executor is shut down afterwards *)",
        "Definition gen_callback_shutdown (early_exit : bool) (o : outcome) : bool :=",
        f"  {sh}.",
        "",
    ]
    return "\n".join(lines), {"get": get, "verdict": v, "shutdown": sh}


def selfcheck(info):
    """the correspondence run of C04 (family `handler`) executes the real methods on fabricated
    futures for every combination and compares with the extracted gen_* functions"""
    return []
