"""T-assert-arms: /repo/src/halmos/assertions.py -> coq/Gen/GenAssertArms.v

Emits the four arms of `vm_assert_binary` (keyed by (arr, is_bytes)) and the body of
`vm_assert_unary`:
  * an extracting arm  `v1 = F(arg, a..); v2 = F(arg, b..); cond = mk_cond(bop, v1, v2);
    msg = extract_string_argument(arg, K) if log else None; return VmAssertion(cond, msg)`
    as `GExtract "F" [a..] [b..] K`;
  * a raising arm `raise C(...)` as `GRaise "C"` (the class decides what SEVM.run does with it);
  * the operand-type test `is_bytes = typ in [...]` as `bytes_types`;
  * the unary handler's word offset and message index.
Proofs/AssertRunProofs.v proves that these are the extractors, offsets, message positions and
exception class that Model/AssertModel.v uses.  Fail-closed on any other shape.
"""
import ast

from .pyexpr import TranslateError

NAME = "T-assert-arms"
SRC = "assertions.py"
OUT = "GenAssertArms.v"


def _u(n):
    return ast.unparse(n)


def fun(tree, name):
    fs = [n for n in tree.body if isinstance(n, ast.FunctionDef) and n.name == name]
    if len(fs) != 1:
        raise TranslateError(f"expected exactly one module-level function {name}")
    return fs[0]


def strip_doc(body):
    return [s for s in body if not (isinstance(s, ast.Expr) and isinstance(s.value, ast.Constant) and isinstance(s.value.value, str))]


def int_args(call, what):
    out = []
    if call.keywords or not call.args or _u(call.args[0]) != "arg":
        raise TranslateError(f"{what}: extractor call is not F(arg, <ints>)")
    for a in call.args[1:]:
        if not (isinstance(a, ast.Constant) and type(a.value) is int):
            raise TranslateError(f"{what}: non-literal extractor argument {_u(a)!r}")
        out.append(a.value)
    return out


def msg_index(stmt, what):
    """msg = extract_string_argument(arg, K) if log else None"""
    v = stmt.value if isinstance(stmt, ast.Assign) and len(stmt.targets) == 1 and _u(stmt.targets[0]) == "msg" else None
    if not (isinstance(v, ast.IfExp) and _u(v.test) == "log" and _u(v.orelse) == "None"
            and isinstance(v.body, ast.Call) and _u(v.body.func) == "extract_string_argument"):
        raise TranslateError(f"{what}: message is not `extract_string_argument(arg, K) if log else None`")
    a = int_args(v.body, what)
    if len(a) != 1:
        raise TranslateError(f"{what}: extract_string_argument arity")
    return a[0]


def arm(body, what):
    body = strip_doc(body)
    if not (len(body) == 2 and isinstance(body[0], ast.FunctionDef) and body[0].name == "_f" and _u(body[1]) == "return _f"):
        raise TranslateError(f"{what}: arm is not `def _f(arg): ...; return _f`")
    f = body[0]
    if [a.arg for a in f.args.args] != ["arg"] or f.args.vararg or f.args.kwarg or f.args.kwonlyargs or f.decorator_list:
        raise TranslateError(f"{what}: _f does not take exactly (arg)")
    fb = strip_doc(f.body)
    if len(fb) == 1 and isinstance(fb[0], ast.Raise):
        e = fb[0].exc
        if not (isinstance(e, ast.Call) and isinstance(e.func, ast.Name)) or fb[0].cause is not None:
            raise TranslateError(f"{what}: raise of something that is not C(...)")
        return ("raise", e.func.id)
    if len(fb) != 5:
        raise TranslateError(f"{what}: unexpected handler body ({len(fb)} statements)")
    ext = []
    for k, name in enumerate(("v1", "v2")):
        s = fb[k]
        if not (isinstance(s, ast.Assign) and len(s.targets) == 1 and _u(s.targets[0]) == name
                and isinstance(s.value, ast.Call) and isinstance(s.value.func, ast.Name)):
            raise TranslateError(f"{what}: statement {k} is not `{name} = F(arg, ...)`")
        ext.append((s.value.func.id, int_args(s.value, what)))
    if ext[0][0] != ext[1][0]:
        raise TranslateError(f"{what}: the two operands use different extractors")
    if _u(fb[2]) != "cond = mk_cond(bop, v1, v2)":
        raise TranslateError(f"{what}: condition is not mk_cond(bop, v1, v2): {_u(fb[2])!r}")
    k = msg_index(fb[3], what)
    if _u(fb[4]) != "return VmAssertion(cond, msg)":
        raise TranslateError(f"{what}: does not return VmAssertion(cond, msg)")
    return ("extract", ext[0][0], ext[0][1], ext[1][1], k)


def translate(src_text):
    tree = ast.parse(src_text)
    # the names used must be the imported ones (no module-level redefinition)
    for n in tree.body:
        if isinstance(n, ast.FunctionDef) and n.name in ("extract_bytes", "extract_bytes_argument", "extract_bytes32_array_argument", "extract_string_argument", "HalmosException"):
            raise TranslateError(f"{n.name} is redefined in assertions.py")
    b = fun(tree, "vm_assert_binary")
    if [a.arg for a in b.args.args] != ["bop", "typ", "log"]:
        raise TranslateError("vm_assert_binary: parameters are not (bop, typ, log)")
    body = strip_doc(b.body)
    if len(body) != 4:
        raise TranslateError("vm_assert_binary: expected 3 assignments and one if")
    if _u(body[0]) != "arr = typ.endswith('[]')" or _u(body[1]) != "typ = typ.replace('[]', '')":
        raise TranslateError("vm_assert_binary: arr / typ prelude changed")
    s = body[2]
    if not (isinstance(s, ast.Assign) and _u(s.targets[0]) == "is_bytes" and isinstance(s.value, ast.Compare)
            and _u(s.value.left) == "typ" and len(s.value.ops) == 1 and isinstance(s.value.ops[0], ast.In)
            and isinstance(s.value.comparators[0], (ast.List, ast.Tuple, ast.Set))
            and all(isinstance(e, ast.Constant) and isinstance(e.value, str) for e in s.value.comparators[0].elts)):
        raise TranslateError("vm_assert_binary: is_bytes is not `typ in [<string literals>]`")
    bytes_types = [e.value for e in s.value.comparators[0].elts]
    top = body[3]

    def two(ifnode, var, what):
        if not (isinstance(ifnode, ast.If) and _u(ifnode.test) == f"not {var}" and ifnode.orelse):
            raise TranslateError(f"{what}: not an `if not {var}: ... else: ...`")
        return ifnode.body, ifnode.orelse

    na, ya = two(top, "arr", "vm_assert_binary")
    arms = []
    for arrv, blk in ((False, na), (True, ya)):
        blk = strip_doc(blk)
        if len(blk) != 1:
            raise TranslateError("vm_assert_binary: an arr-branch holds more than the is_bytes test")
        nb, yb = two(blk[0], "is_bytes", "vm_assert_binary")
        arms.append((arrv, False, arm(nb, f"arm arr={arrv} is_bytes=False")))
        arms.append((arrv, True, arm(yb, f"arm arr={arrv} is_bytes=True")))
    # unary
    u = fun(tree, "vm_assert_unary")
    ub = strip_doc(u.body)
    if not (len(ub) == 2 and isinstance(ub[0], ast.FunctionDef) and ub[0].name == "_f" and _u(ub[1]) == "return _f"):
        raise TranslateError("vm_assert_unary: not `def _f(arg): ...; return _f`")
    fb = strip_doc(ub[0].body)
    if len(fb) != 4:
        raise TranslateError("vm_assert_unary: unexpected handler body")
    s0 = fb[0]
    if not (isinstance(s0, ast.Assign) and _u(s0.targets[0]) == "actual" and isinstance(s0.value, ast.Call)
            and _u(s0.value.func) == "uint256" and len(s0.value.args) == 1 and isinstance(s0.value.args[0], ast.Call)
            and _u(s0.value.args[0].func) == "arg.get_word" and len(s0.value.args[0].args) == 1
            and isinstance(s0.value.args[0].args[0], ast.Constant) and type(s0.value.args[0].args[0].value) is int):
        raise TranslateError("vm_assert_unary: actual is not uint256(arg.get_word(<int>))")
    uoff = s0.value.args[0].args[0].value
    if _u(fb[1]) != "cond = test(actual, expected)":
        raise TranslateError("vm_assert_unary: cond is not test(actual, expected)")
    umsg = msg_index(fb[2], "vm_assert_unary")
    if _u(fb[3]) != "return VmAssertion(cond, msg)":
        raise TranslateError("vm_assert_unary: does not return VmAssertion(cond, msg)")

    def q(s):
        if any(ord(c) < 32 or ord(c) > 126 or c == '"' for c in s):
            raise TranslateError(f"unexpected string {s!r}")
        return '"' + s + '"'

    def zl(l):
        return "[" + "; ".join(f"{v}%Z" if v >= 0 else f"({v})%Z" for v in l) + "]"

    def show(a):
        if a[0] == "raise":
            return f"GRaise {q(a[1])}"
        return f"GExtract {q(a[1])} {zl(a[2])} {zl(a[3])} {a[4]}%Z"

    B = {False: "false", True: "true"}
    lines = [
        "(* GENERATED by translate/t_assert_arms.py from src/halmos/assertions.py -- do not edit *)",
        "From Coq Require Import ZArith List String.",
        "Import ListNotations.",
        "Open Scope string_scope.",
        "",
        "Inductive gen_arm :=",
        "  | GExtract (fn : string) (a1 a2 : list Z) (msg_idx : Z)",
        "  | GRaise (cls : string).",
        "",
        "(* ((arr, is_bytes), arm) *)",
        "Definition binary_arms : list ((bool * bool) * gen_arm) := [",
        ";\n".join(f"  (({B[a]}, {B[b]}), {show(x)})" for a, b, x in arms),
        "].",
        f"Definition bytes_types : list string := [{'; '.join(q(t) for t in bytes_types)}].",
        f"Definition unary_word_offset : Z := {uoff}%Z.",
        f"Definition unary_msg_idx : Z := {umsg}%Z.",
        "",
    ]
    return "\n".join(lines), {"arms": arms, "bytes_types": bytes_types, "uoff": uoff, "umsg": umsg}


def selfcheck(info):
    import halmos.assertions as a
    import halmos.utils as u

    bad = []
    for _, _, x in info["arms"]:
        if x[0] == "extract":
            if getattr(a, x[1], None) is not getattr(u, x[1], object()):
                bad.append(f"assertions.{x[1]} is not halmos.utils.{x[1]}")
        else:
            import builtins

            import halmos.exceptions as ex

            c = getattr(a, x[1], None) or getattr(builtins, x[1], None)
            if not isinstance(c, type):
                bad.append(f"raised name {x[1]} is not a class")
            elif hasattr(ex, x[1]) and getattr(ex, x[1]) is not c:
                bad.append(f"assertions.{x[1]} is not halmos.exceptions.{x[1]}")
    if a.extract_string_argument is not u.extract_string_argument:
        bad.append("assertions.extract_string_argument is not halmos.utils.extract_string_argument")
    return bad
