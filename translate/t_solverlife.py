"""T-solverlife: /repo/src/halmos/__main__.py (run_message, mk_solver, reset) -> coq/Gen/GenSolverLife.v

The per-state life cycle of the branching solver in `run_message`, the function that runs ONE test on
every frontier state of the contract:

    for depth in range(ctx.max_call_depth + 1):             <- depth loop
        for ex in get_frontier(contract_ctx, depth):        <- state loop
            try:
                solver = mk_solver(args)                    create
                path = Path(solver)                         the Path of this state's run
                path.extend_path(ex.path)                   extend with the state's own (sliced) conditions
                path.process_dyn_params(dyn_params)
                yield from sevm.run_message(ex, message, path)      run
            finally:
                reset(solver)                               reset

What SEVM.run leaves behind in the solver (the conditions of the path explored last: Path.activate pops to
the scope recorded at the branch and adds the pending condition THERE) is visible to whatever uses the same
solver object next, so WHERE the solver is created and reset relative to the two loops decides whether the
run on a state starts from exactly that state's conditions.  Emitted (Model/SolverLifeModel.v threads an
explicit solver context through the loops according to these facts):

    solver_created_at : life_pos          InTest | InDepth | InState   -- position of `solver = mk_solver(..)`
    solver_reset_at   : option life_pos   position of `reset(solver)` (None: no reset at all)
    solver_reset_in_finally : bool        the reset is the `finally` of a try that covers the run

Fail-closed, everything else is a TranslateError:
  * run_message consists of simple name assignments, exactly the two nested `for` loops (depth over
    range(...), states over get_frontier(<ctx>, <depth variable>)), at most one try/finally without
    handlers per level, calls and the one `yield from`;
  * the solver is a local name bound by exactly one `mk_solver(...)` call, used for nothing but
    `Path(<solver>)` and `reset(<solver>)`;
  * `Path(<solver>)` is built INSIDE the state loop (a Path object that outlives a state would carry pending
    conditions / scope numbers over), bound to a local name used for nothing but `.extend_path(<state>.path)`,
    `.process_dyn_params(...)` and as the third argument of the run;
  * the run is `yield from <sevm>.run_message(<state loop variable>, <message parameter>, <path>)` inside the state loop,
    after create / Path / extend_path in that order; the reset comes after the run (or after the loop it follows);
  * mk_solver is an undecorated function that returns a `create_solver(...)` call (a new object per call),
    reset ends with an unconditional `solver.reset()`.
The run-time self-check creates two solvers with the real mk_solver (distinct, empty) and fills / resets one with the
real reset (no assertions, no scopes left).
"""
import ast

from .pyexpr import TranslateError, find_function, strip_docstring

NAME = "T-solverlife"
SRC = "__main__.py"
OUT = "GenSolverLife.v"

POS = ["InTest", "InDepth", "InState"]


def _src(node):
    try:
        return ast.unparse(node)
    except Exception:  # noqa: BLE001
        return repr(node)


def _fail(why, node=None):
    at = f" at line {getattr(node, 'lineno', '?')}: {_src(node)[:120]!r}" if node is not None else ""
    raise TranslateError(f"T-solverlife: {why}{at}")


def _is_call_of(node, fname):
    return isinstance(node, ast.Call) and isinstance(node.func, ast.Name) and node.func.id == fname


class _Walk:
    """collects the statements of run_message with their loop level (0 test, 1 depth loop, 2 state loop),
    whether they sit in a `finally`, and a running sequence number (program order)"""

    def __init__(self, fn):
        self.fn = fn
        self.events = []          # (kind, level, in_finally, seq, node, extra)
        self.loops = []           # the For nodes, outermost first
        self.tries = []           # (Try node, level)
        self.seq = 0
        self.params = [a.arg for a in fn.args.args]

    def add(self, kind, level, fin, node, extra=None):
        self.seq += 1
        self.events.append({"kind": kind, "level": level, "finally": fin, "seq": self.seq, "node": node, "extra": extra})

    def block(self, stmts, level, fin):
        for s in stmts:
            self.stmt(s, level, fin)

    def stmt(self, s, level, fin):
        if isinstance(s, ast.Expr) and isinstance(s.value, ast.Constant) and isinstance(s.value.value, str):
            return                                                   # docstring / string statement
        if isinstance(s, ast.Assign):
            if len(s.targets) != 1 or not isinstance(s.targets[0], ast.Name):
                _fail("run_message: only plain `name = ...` assignments are modelled", s)
            self.add("assign", level, fin, s, s.targets[0].id)
            return
        if isinstance(s, ast.For):
            if s.orelse:
                _fail("run_message: for ... else", s)
            if fin:
                _fail("run_message: a loop inside a finally block", s)
            if level >= 2:
                _fail("run_message: a third loop", s)
            if not isinstance(s.target, ast.Name):
                _fail("run_message: the loop variable is not a plain name", s)
            if len(self.loops) != level:
                _fail("run_message: more than one loop at a level", s)
            self.loops.append(s)
            self.add("for", level, fin, s, s.target.id)
            self.block(s.body, level + 1, fin)
            self.add("endfor", level, fin, s, s.target.id)
            return
        if isinstance(s, ast.Try):
            if s.handlers or s.orelse:
                _fail("run_message: try with except / else clauses", s)
            if fin:
                _fail("run_message: try inside a finally block", s)
            self.tries.append((s, level))
            self.add("try", level, fin, s)
            self.block(s.body, level, fin)
            self.add("finally", level, fin, s)
            self.block(s.finalbody, level, True)
            self.add("endtry", level, fin, s)
            return
        if isinstance(s, ast.Expr) and isinstance(s.value, ast.YieldFrom):
            self.add("yieldfrom", level, fin, s)
            return
        if isinstance(s, ast.Expr) and isinstance(s.value, ast.Call):
            self.add("call", level, fin, s)
            return
        _fail(f"run_message: statement of kind {type(s).__name__} is not modelled", s)


def _names_in(node):
    return [n for n in ast.walk(node) if isinstance(n, ast.Name)]


def analyse_run_message(fn):
    if fn.decorator_list:
        _fail("run_message is decorated", fn)
    if fn.args.vararg or fn.args.kwarg or fn.args.kwonlyargs or fn.args.posonlyargs or fn.args.defaults:
        _fail("run_message: only plain parameters are modelled", fn)
    for n in ast.walk(fn):
        if isinstance(n, (ast.FunctionDef, ast.AsyncFunctionDef, ast.ClassDef, ast.Lambda)) and n is not fn:
            _fail("run_message: nested definition", n)
        if isinstance(n, (ast.Global, ast.Nonlocal, ast.NamedExpr, ast.While, ast.With, ast.If, ast.IfExp, ast.Return, ast.Yield, ast.Await)):
            _fail(f"run_message: {type(n).__name__} is not modelled", n)
    w = _Walk(fn)
    if len(w.params) != 4:
        _fail(f"run_message: expected the parameters (ctx, sevm, message, dyn_params), found {w.params}", fn)
    p_ctx, p_sevm, p_msg, p_dyn = w.params
    w.block(strip_docstring(fn.body), 0, False)
    ev = w.events

    # ---- the two loops
    if len(w.loops) != 2:
        _fail(f"run_message: expected the depth loop and the state loop, found {len(w.loops)} loops", fn)
    dloop, sloop = w.loops
    if not (_is_call_of(dloop.iter, "range") and len(dloop.iter.args) == 1 and not dloop.iter.keywords):
        _fail("run_message: the outer loop is not `for <depth> in range(<max depth> + 1)`", dloop)
    if "max_call_depth" not in _src(dloop.iter.args[0]):
        _fail("run_message: the bound of the depth loop is not derived from max_call_depth", dloop)
    dvar, svar = dloop.target.id, sloop.target.id
    it = sloop.iter
    if not (_is_call_of(it, "get_frontier") and len(it.args) == 2 and not it.keywords
            and isinstance(it.args[1], ast.Name) and it.args[1].id == dvar):
        _fail("run_message: the inner loop is not `for <state> in get_frontier(<contract ctx>, <depth variable>)`", sloop)
    if not any(x is sloop for x in ast.walk(dloop)):
        _fail("run_message: the state loop is not nested in the depth loop", sloop)

    # ---- assignments: every local name is bound once
    bound = {}
    for e in ev:
        if e["kind"] == "assign":
            if e["extra"] in bound or e["extra"] in w.params or e["extra"] in (dvar, svar):
                _fail(f"run_message: `{e['extra']}` is bound more than once", e["node"])
            bound[e["extra"]] = e
    if dvar in w.params or svar in w.params or dvar == svar:
        _fail("run_message: a loop variable shadows another name", sloop)

    # ---- create
    creates = [e for e in bound.values() if _is_call_of(e["node"].value, "mk_solver")]
    other_mk = [n for n in ast.walk(fn) if isinstance(n, ast.Name) and n.id == "mk_solver"]
    if len(creates) != 1 or len(other_mk) != 1:
        _fail(f"run_message: expected exactly one `<solver> = mk_solver(...)`, found {len(creates)} (and {len(other_mk)} references to mk_solver)", fn)
    create = creates[0]
    if create["finally"]:
        _fail("run_message: the solver is created in a finally block", create["node"])
    solver = create["extra"]

    # ---- Path(<solver>)
    paths = [e for e in bound.values() if _is_call_of(e["node"].value, "Path")]
    if len(paths) != 1 or len([n for n in ast.walk(fn) if isinstance(n, ast.Name) and n.id == "Path"]) != 1:
        _fail(f"run_message: expected exactly one `<path> = Path(<solver>)`, found {len(paths)}", fn)
    pe = paths[0]
    pc = pe["node"].value
    if not (len(pc.args) == 1 and not pc.keywords and isinstance(pc.args[0], ast.Name) and pc.args[0].id == solver):
        _fail(f"run_message: the Path of a state's run is not built on the solver `{solver}` created here", pe["node"])
    if pe["level"] != 2 or pe["finally"]:
        _fail("run_message: the Path object is not built inside the state loop (one Path per frontier state)", pe["node"])
    path = pe["extra"]

    # ---- the run
    yfs = [e for e in ev if e["kind"] == "yieldfrom"]
    if len(yfs) != 1:
        _fail(f"run_message: expected exactly one `yield from`, found {len(yfs)}", fn)
    run = yfs[0]
    rc = run["node"].value.value
    if not (isinstance(rc, ast.Call) and isinstance(rc.func, ast.Attribute) and rc.func.attr == "run_message"
            and isinstance(rc.func.value, ast.Name) and rc.func.value.id == p_sevm and not rc.keywords
            and [_src(a) for a in rc.args] == [svar, p_msg, path]):
        _fail(f"run_message: the run is not `yield from {p_sevm}.run_message({svar}, {p_msg}, {path})`", run["node"])
    if run["level"] != 2 or run["finally"]:
        _fail("run_message: the run is not inside the state loop", run["node"])

    # ---- calls: extend_path, process_dyn_params, reset; nothing else
    calls = [e for e in ev if e["kind"] == "call"]
    extend = None
    reset = None
    for e in calls:
        c = e["node"].value
        if isinstance(c.func, ast.Attribute) and isinstance(c.func.value, ast.Name) and c.func.value.id == path:
            if c.func.attr == "extend_path":
                if extend is not None:
                    _fail("run_message: extend_path called twice", e["node"])
                if not (len(c.args) == 1 and not c.keywords and _src(c.args[0]) == f"{svar}.path"):
                    _fail(f"run_message: the Path of a state's run is not extended with that state's own path `{svar}.path`", e["node"])
                extend = e
            elif c.func.attr == "process_dyn_params":
                if not (len(c.args) == 1 and not c.keywords and _src(c.args[0]) == p_dyn):
                    _fail("run_message: process_dyn_params is not given the dyn_params parameter", e["node"])
                if e["level"] != 2 or not (pe["seq"] < e["seq"] < run["seq"]):
                    _fail("run_message: process_dyn_params is not between Path(...) and the run", e["node"])
            else:
                _fail(f"run_message: unmodelled use of the path object: .{c.func.attr}(...)", e["node"])
        elif _is_call_of(c, "reset"):
            if reset is not None:
                _fail("run_message: reset called twice", e["node"])
            if not (len(c.args) == 1 and not c.keywords and isinstance(c.args[0], ast.Name) and c.args[0].id == solver):
                _fail(f"run_message: reset is not applied to the solver `{solver}`", e["node"])
            reset = e
        else:
            _fail("run_message: unmodelled call statement", e["node"])
    if extend is None:
        _fail("run_message: the Path of a state's run is never extended with the state's path", fn)
    if extend["level"] != 2 or extend["finally"]:
        _fail("run_message: extend_path is not inside the state loop", extend["node"])

    # ---- every use of the solver / path names is one of the above
    allowed = {id(pc.args[0])}
    if reset is not None:
        allowed.add(id(reset["node"].value.args[0]))
    for n in _names_in(fn):
        if n.id == solver and isinstance(n.ctx, ast.Load) and id(n) not in allowed:
            _fail(f"run_message: unmodelled use of the solver `{solver}`", n)
    allowed_p = {id(rc.args[2]), id(extend["node"].value.func.value)}
    for e in calls:
        c = e["node"].value
        if isinstance(c.func, ast.Attribute) and isinstance(c.func.value, ast.Name) and c.func.value.id == path:
            allowed_p.add(id(c.func.value))
    for n in _names_in(fn):
        if n.id == path and isinstance(n.ctx, ast.Load) and id(n) not in allowed_p:
            _fail(f"run_message: unmodelled use of the path `{path}`", n)
    # the state loop variable is used for the run and the extension only
    for n in _names_in(fn):
        if n.id == svar and isinstance(n.ctx, ast.Load) and not (n is rc.args[0] or n is extend["node"].value.args[0].value):
            _fail(f"run_message: unmodelled use of the frontier state `{svar}`", n)

    # ---- order
    if not (create["seq"] < pe["seq"] < extend["seq"] < run["seq"]):
        _fail("run_message: expected the order create < Path(...) < extend_path < run", run["node"])
    if reset is not None:
        if reset["seq"] < run["seq"]:
            _fail("run_message: reset before the run", reset["node"])
        # at level 2 the reset follows the run in the same iteration; at a lower level it must come after the
        # end of the loop one level below it (program order: after the `endfor` event of that loop)
        if reset["level"] < 2:
            inner = w.loops[reset["level"]]
            end = next(e for e in ev if e["kind"] == "endfor" and e["node"] is inner)
            if reset["seq"] < end["seq"]:
                _fail("run_message: reset at an outer level but before the loop it should follow", reset["node"])
        if reset["finally"]:
            tr = [t for t, lvl in w.tries if any(x is reset["node"] for s in t.finalbody for x in ast.walk(s))]
            if len(tr) != 1 or not any(x is run["node"] for s in tr[0].body for x in ast.walk(s)):
                _fail("run_message: the finally block with the reset does not belong to a try that covers the run", reset["node"])
    # a try/finally without the reset has no modelled meaning
    for t, _lvl in w.tries:
        if reset is None or not any(x is reset["node"] for s in t.finalbody for x in ast.walk(s)):
            _fail("run_message: try/finally without the solver reset", t)
        if len(t.finalbody) != 1:
            _fail("run_message: the finally block does more than resetting the solver", t)

    # ---- the remaining assignments read the parameters only (args = ctx.args, contract_ctx = ctx.contract_ctx)
    for nme, e in bound.items():
        if e is create or e is pe:
            continue
        v = e["node"].value
        if not (isinstance(v, ast.Attribute) and isinstance(v.value, ast.Name) and v.value.id == p_ctx) or e["level"] != 0:
            _fail("run_message: unmodelled assignment", e["node"])

    return {
        "created_at": POS[create["level"]],
        "reset_at": POS[reset["level"]] if reset is not None else None,
        "reset_in_finally": bool(reset is not None and reset["finally"]),
        "solver_var": solver, "path_var": path, "state_var": svar, "depth_var": dvar,
        "extended_with": _src(extend["node"].value.args[0]),
        "run": _src(rc),
        "params": w.params,
    }


def check_mk_solver(tree):
    fn = find_function(tree, "mk_solver")
    if fn.decorator_list:
        _fail("mk_solver is decorated (a cached solver is not a new solver)", fn)
    rets = [n for n in ast.walk(fn) if isinstance(n, ast.Return)]
    if len(rets) != 1 or not _is_call_of(rets[0].value, "create_solver") or fn.body[-1] is not rets[0]:
        _fail("mk_solver does not end with the single `return create_solver(...)`", fn)
    for n in ast.walk(fn):
        if isinstance(n, (ast.Global, ast.Nonlocal, ast.If, ast.IfExp, ast.While, ast.For, ast.Try, ast.With)):
            _fail(f"mk_solver: {type(n).__name__} is not modelled", n)
    return {"returns": _src(rets[0].value)[:200]}


def check_reset(tree):
    fn = find_function(tree, "reset")
    if fn.decorator_list or len(fn.args.args) != 1:
        _fail("reset: expected an undecorated function of the solver", fn)
    p = fn.args.args[0].arg
    last = fn.body[-1]
    if not (isinstance(last, ast.Expr) and _src(last.value) == f"{p}.reset()"):
        _fail(f"reset does not end with `{p}.reset()`", last)
    # the only early exit is `if not solver: return`
    for s in fn.body[:-1]:
        for n in ast.walk(s):
            if isinstance(n, (ast.Return, ast.Raise)):
                if not (isinstance(s, ast.If) and _src(s.test) == f"not {p}" and len(s.body) == 1 and isinstance(s.body[0], ast.Return)
                        and s.body[0].value is None and not s.orelse):
                    _fail("reset: an early exit other than `if not solver: return`", s)
    return {"param": p}


def translate(src_text):
    tree = ast.parse(src_text)
    info = analyse_run_message(find_function(tree, "run_message"))
    info["mk_solver"] = check_mk_solver(tree)
    info["reset"] = check_reset(tree)
    reset_at = f"Some {info['reset_at']}" if info["reset_at"] else "None"
    lines = [
        "(* GENERATED by translate/t_solverlife.py from src/halmos/__main__.py (run_message) -- do not edit *)",
        "",
        "(* a position relative to the two loops of run_message: outside both (once per test), inside the depth loop",
        "   only (once per depth), inside the loop over the frontier states (once per state) *)",
        "Inductive life_pos := InTest | InDepth | InState.",
        "",
        f"(* `{info['solver_var']} = mk_solver(...)`: where the branching solver of the runs is created *)",
        f"Definition solver_created_at : life_pos := {info['created_at']}.",
        "",
        f"(* `reset({info['solver_var']})`: where it is emptied (None: nowhere) *)",
        f"Definition solver_reset_at : option life_pos := {reset_at}.",
        "",
        "(* the reset is the finally block of a try that covers the run *)",
        f"Definition solver_reset_in_finally : bool := {'true' if info['reset_in_finally'] else 'false'}.",
        "",
        f"(* checked shape: `{info['path_var']} = Path({info['solver_var']})` inside the state loop; `{info['path_var']}.extend_path({info['extended_with']})`;",
        f"   `yield from {info['run']}` *)",
        "",
    ]
    return "\n".join(lines), info


def selfcheck(info):
    """the real mk_solver gives a new, empty solver per call and the real reset leaves nothing behind"""
    import inspect

    import z3

    import halmos.__main__ as hm
    from halmos.config import default_config

    bad = []
    got = list(inspect.signature(hm.run_message).parameters)
    if got != info["params"]:
        bad.append(f"run_message: run-time parameters {got}, source text {info['params']}")
    args = default_config()
    a, b = hm.mk_solver(args), hm.mk_solver(args)
    if a is b:
        bad.append("mk_solver returned the same solver object twice")
    x = z3.BitVec("t_solverlife_x", 256)
    a.add(x == 5)
    if len(b.assertions()) != 0 or b.num_scopes() != 0:
        bad.append("a solver returned by mk_solver is not empty (assertions added to one solver are visible in another)")
    c = hm.mk_solver(args)
    if len(c.assertions()) != 0 or c.num_scopes() != 0:
        bad.append("a solver returned by mk_solver is not empty")
    a.push()
    a.add(x != 7)
    hm.reset(a)
    if len(a.assertions()) != 0 or a.num_scopes() != 0:
        bad.append(f"reset(solver) leaves {len(a.assertions())} assertions / {a.num_scopes()} scopes behind")
    hm.reset(b)
    hm.reset(c)
    return bad
