"""T-callbackcopies: /repo/src/halmos/sevm.py -> coq/Gen/GenCallbackCopies.v

The continuations of a caller after a sub-call.  SEVM.call (nested call_known) and SEVM.create_contract
install a return `callback(new_ex, stack)` that is run once PER OUTCOME of the callee / constructor: every
outcome is turned into one continuation of the caller.  All those continuations are sibling paths, and they
are all derived from the same two sources captured by the closure:

    ex        the caller's Exec at the time of the call            new_ex.F = <expr over ex.F>
    orig_F    the backups taken before the call (network state)    new_ex.F = <expr over orig_F>   (failing outcome)

so whatever the interpreter mutates in place below a field must be copied, not shared, or one continuation's
writes are visible to the siblings built from the same source.  Emitted (copykind of Gen/GenCopies.v):

    call_backup_table / create_backup_table     orig_F = <expr over ex.F>          (before the call)
    call_resume_table / create_resume_table     fields of new_ex set on every outcome (context, st, jumpis, ...)
    call_restore_table / create_restore_table   fields of new_ex set on a failing outcome (code, storage, ...)

Classification: `src` Share, `src.copy()` Shallow, `deepcopy(src)` Deep; anything else raises (fail-closed).
`insn` is derived from pgm / pc (immutable) and is left out, as in T-copies.
"""
import ast

from .pyexpr import TranslateError, find_function

NAME = "T-callbackcopies"
SRC = "sevm.py"
OUT = "GenCallbackCopies.v"

BACKUPS = ["code", "storage", "transient_storage", "balance"]
SKIP = {"insn"}


def _src(node):
    try:
        return ast.unparse(node)
    except Exception:  # noqa: BLE001
        return repr(node)


def _nested(fn, name):
    out = [n for n in ast.walk(fn) if isinstance(n, ast.FunctionDef) and n.name == name and n is not fn]
    if len(out) != 1:
        raise TranslateError(f"T-callbackcopies: expected exactly one nested function {name} in {fn.name}, found {len(out)}")
    return out[0]


def classify(expr, field, what):
    """kind of `expr` as a copy of the source for `field`: ex.<field> or orig_<field>"""
    def is_source(e):
        if isinstance(e, ast.Name) and e.id.startswith("orig_"):
            if e.id != f"orig_{field}":
                raise TranslateError(f"T-callbackcopies: {what}: field {field} taken from {e.id}")
            return True
        if isinstance(e, ast.Attribute) and isinstance(e.value, ast.Name) and e.value.id == "ex":
            if e.attr != field:
                raise TranslateError(f"T-callbackcopies: {what}: field {field} taken from ex.{e.attr}")
            return True
        return False

    if is_source(expr):
        return "Share"
    if (isinstance(expr, ast.Call) and isinstance(expr.func, ast.Attribute) and expr.func.attr == "copy" and not expr.args
            and not expr.keywords and is_source(expr.func.value)):
        return "Shallow"
    if (isinstance(expr, ast.Call) and isinstance(expr.func, ast.Name) and expr.func.id == "deepcopy" and len(expr.args) == 1
            and not expr.keywords and is_source(expr.args[0])):
        return "Deep"
    raise TranslateError(f"T-callbackcopies: {what}: unsupported initialiser for {field}: {_src(expr)}")


def backup_table(owner, what):
    """orig_F = <expr over ex.F> assignments directly in `owner` (not in the nested callback)"""
    rows = {}
    for st in owner.body:
        if isinstance(st, ast.Assign) and len(st.targets) == 1 and isinstance(st.targets[0], ast.Name) and st.targets[0].id.startswith("orig_"):
            f = st.targets[0].id[len("orig_"):]
            if f in rows:
                raise TranslateError(f"T-callbackcopies: {what}: orig_{f} assigned twice")
            rows[f] = classify(st.value, f, what + " backup")
    if sorted(rows) != sorted(BACKUPS):
        raise TranslateError(f"T-callbackcopies: {what}: backups taken of {sorted(rows)}, expected {sorted(BACKUPS)}")
    return [(f, rows[f]) for f in BACKUPS]


def callback_tables(cb, what):
    """(resume rows, restore rows): assignments `new_ex.F = ...`; those whose value mentions an orig_* backup are the
    restore of a failing outcome (they must all sit in one branch of an `if`), the others the resumption of the caller"""
    if [a.arg for a in cb.args.args] != ["new_ex", "stack"]:
        raise TranslateError(f"T-callbackcopies: {what}: callback signature {[a.arg for a in cb.args.args]}")
    resume, restore = {}, {}
    parents = {}
    for n in ast.walk(cb):
        for ch in ast.iter_child_nodes(n):
            parents[ch] = n
    restore_blocks = set()
    for n in ast.walk(cb):
        if isinstance(n, (ast.AugAssign, ast.AnnAssign)) and "new_ex" in _src(n.target):
            raise TranslateError(f"T-callbackcopies: {what}: unsupported assignment {_src(n)}")
        if not isinstance(n, ast.Assign):
            continue
        for t in n.targets:
            if isinstance(t, ast.Attribute) and isinstance(t.value, ast.Name) and t.value.id == "new_ex":
                f = t.attr
                if f in SKIP:
                    continue
                uses_backup = any(isinstance(x, ast.Name) and x.id.startswith("orig_") for x in ast.walk(n.value))
                uses_ex = any(isinstance(x, ast.Name) and x.id == "ex" for x in ast.walk(n.value))
                if not uses_backup and not uses_ex:
                    raise TranslateError(f"T-callbackcopies: {what}: new_ex.{f} = {_src(n.value)} is taken from neither ex nor a backup")
                table = restore if uses_backup else resume
                if f in table:
                    raise TranslateError(f"T-callbackcopies: {what}: new_ex.{f} assigned twice")
                table[f] = classify(n.value, f, what)
                if uses_backup:
                    restore_blocks.add(id(parents[n]))
            elif "new_ex" in _src(t) and not isinstance(t, ast.Name):
                raise TranslateError(f"T-callbackcopies: {what}: store below new_ex: {_src(n)}")
    if sorted(restore) != sorted(BACKUPS):
        raise TranslateError(f"T-callbackcopies: {what}: a failing outcome restores {sorted(restore)}, expected {sorted(BACKUPS)}")
    if len(restore_blocks) != 1:
        raise TranslateError(f"T-callbackcopies: {what}: the restore statements are spread over {len(restore_blocks)} blocks")
    for need in ("context", "st", "jumpis", "callback", "pgm", "pc"):
        if need not in resume:
            raise TranslateError(f"T-callbackcopies: {what}: new_ex.{need} is not re-established from the caller")
    return sorted(resume.items()), [(f, restore[f]) for f in BACKUPS]


def coq_table(name, rows):
    body = ";\n    ".join(f'("{f}"%string, {k})' for f, k in rows)
    return f"Definition {name} : list (string * copykind) :=\n  [ {body} ].\n"


def translate(src_text):
    tree = ast.parse(src_text)
    call = find_function(tree, "call", cls="SEVM")
    call_known = _nested(call, "call_known")
    create = find_function(tree, "create", cls="SEVM")
    info = {}
    lines = [
        "(* GENERATED by translate/t_callbackcopies.py from src/halmos/sevm.py -- do not edit *)",
        "From Coq Require Import List String.",
        "From HV Require Import Gen.GenCopies.",
        "Import ListNotations.",
        "",
    ]
    for key, owner in (("call", call_known), ("create", create)):
        cb = _nested(owner, "callback")
        bk = backup_table(owner, key)
        resume, restore = callback_tables(cb, key)
        info[key] = {"backup": bk, "resume": resume, "restore": restore}
        lines += [coq_table(f"{key}_backup_table", bk), coq_table(f"{key}_resume_table", resume), coq_table(f"{key}_restore_table", restore)]
    return "\n".join(lines), info


def selfcheck(info):
    """the imported class has the two methods; the dynamic side of this translator is the L2 corpus of the C20 check
    (continuations of a caller after a sub-call with several outcomes, each re-derived alone)"""
    from halmos.sevm import SEVM

    return [f"SEVM.{m} does not exist at run time" for m in ("call", "create") if not hasattr(SEVM, m)]
