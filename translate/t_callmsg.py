"""T-callmsg: the first-order decision logic of the message-call machinery of
src/halmos/sevm.py -> coq/Gen/GenCallMsg.v  (used by Model/CallModel.v, property C09).

Translated, each from one whitelisted syntactic shape (fail-closed; where a defect was repaired
the shape before the repair is accepted too, so that the model follows a tree in which the
repair is reverted and the theorems -- not only the translator -- report it):
  SEVM.call      fund; the static-context test of a value-bearing CALL (absent = false);
                 Message(target, caller, origin, value, is_static, call_scheme);
                 the guard of send_callvalue and the (from, to, amount) it passes on, the balance
                 requirement of the scheme that moves nothing (CALLCODE; absent = none);
                 the arguments of handle_insufficient_fund_case; which network-state
                 fields the callback restores under `if not subcall_success`;
                 subcall_success; the two copy_returndata_to_memory arguments
  SEVM.create    the static check, Message(...) fields, restored fields, the order
                 backup -> set-up -> transfer
  copy or alias  for code / storage / transient_storage: whether the backups (orig_X = ...), the
                 restores (new_ex.X = ...) of both callbacks and create_branch hand over a private
                 copy (dict.copy() of the code map, deepcopy of the storage maps) or the object
                 itself -> call_backup_copies_*, call_restore_copies_*, create_backup_copies_*,
                 create_restore_copies_*, branch_copies_* (used by Model/CallHeapModel.v)
  pinned         sub_ex shares ex.<field>; the callbacks re-install the parent's context / stack+memory
                 / jumpis as deepcopies; create_branch copies cnts / st / context / jumpis; the worklist
                 is LIFO and the main loop prefers the state just advanced; JUMPI with both sides
                 followed: true side = create_branch copy pushed first, false side = the state
                 itself pushed last; the insufficient-funds fork precedes the call dispatch
  EXTCODESIZE / EXTCODECOPY   size of an existing / non-existing account; which accounts are read
                 through Contract.slice and how many zero bytes the others yield
  handle_insufficient_fund_case   the zero shortcut and the insufficiency condition
  transfer_value the zero shortcut, the balance condition, debit-then-credit
  copy_returndata_to_memory       effective size
  Exec.returndata                 the visibility rule
  Exec.new_address                counter scheme
  SEVM.run       the depth-limit guard; the static checks of SSTORE/TSTORE (sstore) and LOG;
                 RETURNDATACOPY: whether the bound test is under the size guard, the bound, the copy guard
"""
import ast

from .pyexpr import TranslateError, find_function

NAME = "T-callmsg"
SRC = "sevm.py"
OUT = "GenCallMsg.v"


def U(n):
    return ast.unparse(n)


class Ex:
    """expression translator over an explicit environment {python source text: (gallina, type)}"""

    def __init__(self, env, consts=None):
        self.env = env
        self.consts = consts or {}

    def tr(self, n):
        src = U(n)
        if src in self.env:
            return self.env[src]
        if isinstance(n, ast.Constant) and isinstance(n.value, bool):
            return ("true" if n.value else "false", "bool")
        if isinstance(n, ast.Constant) and isinstance(n.value, int):
            return (str(n.value), "Z")
        if isinstance(n, ast.Name) and n.id in self.consts:
            return (n.id, "Z")
        if isinstance(n, ast.IfExp):
            c = self.b(n.test)
            a, b = self.tr(n.body), self.tr(n.orelse)
            if a[1] != b[1]:
                raise TranslateError(f"if-expression arms of different types: {src}")
            return (f"(if {c} then {a[0]} else {b[0]})", a[1])
        if isinstance(n, ast.BoolOp):
            f = "orb" if isinstance(n.op, ast.Or) else "andb"
            vals = [self.b(v) for v in n.values]
            t = vals[-1]
            for v in reversed(vals[:-1]):
                t = f"({f} {v} {t})"
            return (t, "bool")
        if isinstance(n, ast.UnaryOp) and isinstance(n.op, ast.Not):
            return (f"(negb {self.b(n.operand)})", "bool")
        if isinstance(n, ast.Compare) and len(n.ops) == 1:
            op, rhs = n.ops[0], n.comparators[0]
            if isinstance(op, (ast.In, ast.NotIn)) and isinstance(rhs, (ast.List, ast.Tuple)):
                l = self.z(n.left)
                alts = [f"(Z.eqb {l} {self.z(e)})" for e in rhs.elts]
                t = alts[-1] if alts else "false"
                for a in reversed(alts[:-1]):
                    t = f"(orb {a} {t})"
                return (t if isinstance(op, ast.In) else f"(negb {t})", "bool")
            if isinstance(op, (ast.Is, ast.IsNot)) and isinstance(rhs, ast.Constant) and rhs.value is None:
                l = self.tr(n.left)
                if l[1] != "opt":
                    raise TranslateError(f"`is None` on a non-option: {src}")
                return (f"(negb {l[0]})" if isinstance(op, ast.Is) else l[0], "bool")
            table = {ast.Eq: "Z.eqb", ast.Gt: "Z.gtb", ast.GtE: "Z.geb", ast.Lt: "Z.ltb", ast.LtE: "Z.leb"}
            if type(op) in table:
                return (f"({table[type(op)]} {self.z(n.left)} {self.z(rhs)})", "bool")
            if isinstance(op, ast.NotEq):
                return (f"(negb (Z.eqb {self.z(n.left)} {self.z(rhs)}))", "bool")
        if isinstance(n, ast.BinOp) and isinstance(n.op, (ast.Add, ast.Sub)):
            f = "Z.add" if isinstance(n.op, ast.Add) else "Z.sub"
            return (f"({f} {self.z(n.left)} {self.z(n.right)})", "Z")
        if isinstance(n, ast.Call) and not n.keywords:
            fn = U(n.func)
            if fn == "simplify" and len(n.args) == 1:
                return self.tr(n.args[0])
            if fn in ("ULT", "UGE", "ULE", "UGT") and len(n.args) == 2:
                g = {"ULT": "Z.ltb", "UGE": "Z.geb", "ULE": "Z.leb", "UGT": "Z.gtb"}[fn]
                return (f"({g} {self.z(n.args[0])} {self.z(n.args[1])})", "bool")
            if fn == "min" and len(n.args) == 2:
                return (f"(Z.min {self.z(n.args[0])} {self.z(n.args[1])})", "Z")
        raise TranslateError(f"unsupported expression shape: {src!r} (line {getattr(n, 'lineno', '?')})")

    def z(self, n):
        t, ty = self.tr(n)
        if ty != "Z":
            raise TranslateError(f"expected an integer expression: {U(n)}")
        return t

    def b(self, n):
        t, ty = self.tr(n)
        if ty == "opt":       # truthiness of an optional object = it is present
            return t
        if ty != "bool":
            raise TranslateError(f"expected a boolean expression: {U(n)}")
        return t


def _find(stmts, pred, what):
    hits = [s for s in stmts if pred(s)]
    if len(hits) != 1:
        raise TranslateError(f"expected exactly one {what}, found {len(hits)}")
    return hits[0]


def _assign_to(stmts, name):
    def pred(s):
        if isinstance(s, ast.AnnAssign) and isinstance(s.target, ast.Name) and s.target.id == name:
            return True
        return isinstance(s, ast.Assign) and len(s.targets) == 1 and U(s.targets[0]).strip("()") == name
    return _find(stmts, pred, f"assignment to {name}").value


def _nested(fn, name):
    return _find(fn.body, lambda s: isinstance(s, ast.FunctionDef) and s.name == name, f"nested def {name}")


def _call_stmt(stmts, dotted):
    return _find(stmts, lambda s: isinstance(s, ast.Expr) and isinstance(s.value, ast.Call) and U(s.value.func) == dotted,
                 f"call of {dotted}").value


def _kw(call, allowed):
    if call.args:
        raise TranslateError(f"{U(call.func)}: positional arguments not expected")
    kws = {k.arg: k.value for k in call.keywords}
    if set(kws) != set(allowed):
        raise TranslateError(f"{U(call.func)}: keywords {sorted(kws)} != {sorted(allowed)}")
    return kws


MSG_FIELDS = ["target", "caller", "origin", "value", "data", "is_static", "call_scheme"]
NET_FIELDS = ["code", "storage", "transient_storage", "balance"]


COPY_FIELDS = ["code", "storage", "transient_storage"]     # mutable Python objects (balance is an immutable z3 term)


def _copy_kind(f, value, src):
    """how `value` is obtained from the object `src` of field f: True = a private copy
    (dict.copy() of the code map -- Contract objects are immutable --, deepcopy of the
    storage maps), False = the object itself (alias)"""
    v = U(value)
    if f == "balance":
        if v != src:
            raise TranslateError(f"balance is handed over as {v}")
        return None
    if v == src:
        return False
    if (f == "code" and v == f"{src}.copy()") or (f != "code" and v == f"deepcopy({src})"):
        return True
    raise TranslateError(f"{f}: unexpected way of handing over {src}: {v}")


def _restored(if_stmt, who):
    """fields X with `new_ex.X = <orig_X | copy of orig_X>` in the statement list -> {X: copies?}"""
    out = {}
    for s in if_stmt:
        if isinstance(s, ast.Assign) and len(s.targets) == 1 and isinstance(s.targets[0], ast.Attribute) and U(s.targets[0].value) == who:
            f = s.targets[0].attr
            if f in NET_FIELDS:
                if f in out:
                    raise TranslateError(f"{f} restored twice")
                out[f] = _copy_kind(f, s.value, f"orig_{f}")
    return out


def _backups(stmts):
    """orig_X = <ex.X | copy of ex.X>; returns ({field: statement index}, {field: copies?})"""
    out, kinds = {}, {}
    for i, s in enumerate(stmts):
        if isinstance(s, ast.Assign) and len(s.targets) == 1 and isinstance(s.targets[0], ast.Name) and s.targets[0].id.startswith("orig_"):
            f = s.targets[0].id[5:]
            if f not in NET_FIELDS or f in out:
                raise TranslateError(f"unexpected backup statement {U(s)}")
            kinds[f] = _copy_kind(f, s.value, f"ex.{f}")
            out[f] = i
    return out, kinds


def _emit_copies(emit, prefix, kinds):
    for f in COPY_FIELDS:
        emit(f"{prefix}_{f}", "", "bool", "true" if kinds.get(f, True) else "false")


def _pin_callback_copies(cb, who):
    """the caller's frame objects captured by the callback are handed to every callee path as
    private copies (they are shared by all the paths of the callee)"""
    want = {"context": "deepcopy(ex.context)", "st": "deepcopy(ex.st)", "jumpis": "deepcopy(ex.jumpis)",
            "pgm": "ex.pgm", "pc": "ex.pc", "insn": "ex.insn", "callback": "ex.callback"}
    seen = {}
    for s in ast.walk(cb):
        if isinstance(s, ast.Assign) and len(s.targets) == 1 and isinstance(s.targets[0], ast.Attribute) and U(s.targets[0].value) == who \
                and s.targets[0].attr in want:
            seen[s.targets[0].attr] = U(s.value)
    if seen != want:
        raise TranslateError(f"callback: the parent frame is restored as {seen}, expected {want}")


def _index(stmts, pred, what):
    idx = [i for i, s in enumerate(stmts) if pred(s)]
    if len(idx) != 1:
        raise TranslateError(f"expected exactly one {what}, found {len(idx)}")
    return idx[0]


def translate(src_text):
    tree = ast.parse(src_text)
    D = []      # (name, params text, type, body)
    info = {}

    def emit(name, params, ty, body):
        D.append(f"Definition {name} {params}: {ty} := {body}.".replace("  :", " :"))
        info[name] = body

    ops = {"OP_CALL", "OP_CALLCODE", "OP_DELEGATECALL", "OP_STATICCALL", "OP_CREATE", "OP_CREATE2"}

    # ------------------------------------------------------------------ SEVM.call
    call = find_function(tree, "call", cls="SEVM")
    env = {"op": ("op", "Z"), "ZERO": ("0", "Z"), "ex.st.popi()": ("popped", "Z")}
    emit("call_fund", "(op popped : Z) ", "Z", Ex(env, ops).z(_assign_to(call.body, "fund")))
    if U(_assign_to(call.body, "pranked_caller, pranked_origin")) != "ex.resolve_prank(to)":
        raise TranslateError("call: pranked_caller, pranked_origin = ex.resolve_prank(to) expected")
    if U(_assign_to(call.body, "resolved_to")) != "to_alias if to_alias is not None else to":
        raise TranslateError("call: unexpected resolved_to")
    msg = _assign_to(call.body, "message")
    if not (isinstance(msg, ast.Call) and U(msg.func) == "Message"):
        raise TranslateError("call: message = Message(...) expected")
    kw = _kw(msg, MSG_FIELDS)
    env = {"op": ("op", "Z"), "resolved_to": ("resolved_to", "Z"), "ex.this()": ("this", "Z"),
           "pranked_caller": ("pranked_caller", "Z"), "ex.caller()": ("caller", "Z"),
           "fund": ("fund", "Z"), "ex.callvalue()": ("callvalue", "Z"),
           "ex.context.message.is_static": ("cur_static", "bool"), "pranked_origin": ("pranked_origin", "Z")}
    e = Ex(env, ops)
    emit("msg_target", "(op resolved_to this : Z) ", "Z", e.z(kw["target"]))
    emit("msg_caller", "(op pranked_caller caller : Z) ", "Z", e.z(kw["caller"]))
    emit("msg_origin", "(pranked_origin : Z) ", "Z", e.z(kw["origin"]))
    emit("msg_value", "(op fund callvalue : Z) ", "Z", e.z(kw["value"]))
    emit("msg_static", "(op : Z) (cur_static : bool) ", "bool", e.b(kw["is_static"]))
    if U(kw["call_scheme"]) != "op" or U(kw["data"]) != "arg":
        raise TranslateError("call: Message(call_scheme=op, data=arg) expected")
    hif = _call_stmt(call.body, "self.handle_insufficient_fund_case")
    if [U(a) for a in hif.args] != ["pranked_caller", "fund", "message", "ex", "stack"]:
        raise TranslateError("call: unexpected arguments of handle_insufficient_fund_case")
    i_msg = _index(call.body, lambda s: isinstance(s, ast.Assign) and U(s.targets[0]) == "message", "message assignment")
    i_hif = _index(call.body, lambda s: isinstance(s, ast.Expr) and U(s.value).startswith("self.handle_insufficient_fund_case"), "hif call")
    if not i_msg < i_hif:
        raise TranslateError("call: handle_insufficient_fund_case before the message is built")
    i_hif_call = i_hif
    # the static-context check of a value-bearing CALL (absent = the value-bearing CALL is executed)
    i_fund = _index(call.body, lambda s: isinstance(s, (ast.Assign, ast.AnnAssign)) and U(s.target if isinstance(s, ast.AnnAssign) else s.targets[0]) == "fund", "fund assignment")
    st_ifs = [i for i, s in enumerate(call.body) if isinstance(s, ast.If) and "is_static" in U(s.test)]
    if len(st_ifs) > 1:
        raise TranslateError("call: more than one static-context test")
    if st_ifs:
        i_st = st_ifs[0]
        sif = call.body[i_st]
        if not (i_fund < i_st < i_msg) or sif.orelse:
            raise TranslateError("call: the static-context test must sit between the fund and the message, without else")
        # everything between popping the fund and the test must be free of effects on the network state
        for s in call.body[i_fund + 1:i_st]:
            if not (isinstance(s, ast.Expr) and isinstance(s.value, ast.Constant)):
                raise TranslateError(f"call: unexpected statement before the static-context test: {U(s)}")
        inner = [s for s in sif.body if not (isinstance(s, ast.Expr) and isinstance(s.value, ast.Constant))]
        # a symbolic value in a static frame is a stuck path (NotConcreteError), not an outcome
        if len(inner) == 2 and isinstance(inner[0], ast.If) and U(inner[0].test) == "fund.is_symbolic" and not inner[0].orelse \
                and len(inner[0].body) == 1 and U(inner[0].body[0]).startswith("raise NotConcreteError("):
            inner = inner[1:]
        if not (len(inner) == 1 and isinstance(inner[0], ast.If) and not inner[0].orelse and len(inner[0].body) == 1
                and U(inner[0].body[0]).startswith("raise WriteInStaticContext(")):
            raise TranslateError(f"call: unexpected body of the static-context test: {[U(s) for s in sif.body]}")
        senv = {"op": ("op", "Z"), "ex.message().is_static": ("cur_static", "bool"), "ex.context.message.is_static": ("cur_static", "bool"),
                "fund.value": ("fund", "Z"), "fund": ("fund", "Z"), "ZERO": ("0", "Z")}
        se = Ex(senv, ops)
        emit("call_static_value_check", "(op : Z) (cur_static : bool) (fund : Z) ", "bool", f"(andb {se.b(sif.test)} {se.b(inner[0].test)})")
    else:
        emit("call_static_value_check", "(op : Z) (cur_static : bool) (fund : Z) ", "bool", "false")
    scv = _nested(call, "send_callvalue")
    body = [s for s in scv.body if not (isinstance(s, ast.Expr) and isinstance(s.value, ast.Constant))]
    if len(body) != 1 or not isinstance(body[0], ast.If):
        raise TranslateError("send_callvalue: a single `if` (with an optional `elif`) expected")
    emit("sends_value", "(op : Z) ", "bool", Ex({"op": ("op", "Z")}, ops).b(body[0].test))
    if len(body[0].body) != 1:
        raise TranslateError("send_callvalue: the transferring branch must be the single transfer_value call")
    tv = _call_stmt(body[0].body, "self.transfer_value")
    if [U(a) for a in tv.args] != ["ex", "pranked_caller", "to", "fund", "condition"]:
        raise TranslateError("send_callvalue: unexpected arguments of transfer_value")
    # elif: a scheme that moves nothing but still needs the balance (CALLCODE); absent = no requirement
    if not body[0].orelse:
        emit("callvalue_checks_balance", "(op fund : Z) ", "bool", "false")
        emit("callvalue_balance_ok", "(bal fund : Z) ", "bool", "true")
    else:
        if not (len(body[0].orelse) == 1 and isinstance(body[0].orelse[0], ast.If) and not body[0].orelse[0].orelse):
            raise TranslateError("send_callvalue: a single `elif` without `else` expected")
        el = body[0].orelse[0]
        eenv = {"op": ("op", "Z"), "fund.is_concrete and fund.value == 0": ("(Z.eqb fund 0)", "bool")}
        emit("callvalue_checks_balance", "(op fund : Z) ", "bool", Ex(eenv, ops).b(el.test))
        eb = [s for s in el.body if not (isinstance(s, ast.Expr) and isinstance(s.value, ast.Constant))]
        if len(eb) != 3:
            raise TranslateError(f"send_callvalue: unexpected elif body {[U(s) for s in eb]}")
        benv = {"ex.balance_of(pranked_caller)": ("bal", "Z"), "fund.as_z3()": ("fund", "Z")}
        emit("callvalue_balance_ok", "(bal fund : Z) ", "bool", Ex(benv).b(_assign_to(eb[:1], "balance_cond")))
        if not (isinstance(eb[1], ast.If) and U(eb[1].test) == "is_false(balance_cond)" and not eb[1].orelse and len(eb[1].body) == 1
                and U(eb[1].body[0]).startswith("raise InfeasiblePath(")):
            raise TranslateError("send_callvalue: elif infeasibility test")
        if U(eb[2]) != "ex.path.append(balance_cond)":
            raise TranslateError("send_callvalue: the elif must append balance_cond to the path")
    ck = _nested(call, "call_known")
    bk, bk_kinds = _backups(ck.body)
    if sorted(bk) != sorted(NET_FIELDS):
        raise TranslateError(f"call_known: backups {sorted(bk)}")
    _emit_copies(emit, "call_backup_copies", bk_kinds)
    i_send = _index(ck.body, lambda s: isinstance(s, ast.Expr) and U(s.value) == "send_callvalue()", "send_callvalue() in call_known")
    emit("call_backup_before_transfer", "", "bool", "true" if max(bk.values()) < i_send else "false")
    i_cb = _index(ck.body, lambda s: isinstance(s, ast.FunctionDef) and s.name == "callback", "callback")
    i_sub = _index(ck.body, lambda s: isinstance(s, ast.Assign) and U(s.targets[0]) == "sub_ex", "sub_ex")
    if not (i_send < i_cb < i_sub):
        raise TranslateError("call_known: unexpected statement order")
    cb = ck.body[i_cb]
    succ = _assign_to(cb.body, "subcall_success")
    emit("call_success", "(has_error : bool) ", "bool", Ex({"subcall.output.error": ("has_error", "opt")}).b(succ))
    rif = _find(cb.body, lambda s: isinstance(s, ast.If) and U(s.test) == "not subcall_success", "`if not subcall_success`")
    if rif.orelse:
        raise TranslateError("callback: else-branch on `if not subcall_success`")
    rs = _restored(rif.body, "new_ex")
    for f in NET_FIELDS:
        emit(f"call_restores_{f}", "", "bool", "true" if f in rs else "false")
    _emit_copies(emit, "call_restore_copies", rs)
    _pin_callback_copies(cb, "new_ex")
    other = [U(s) for s in cb.body if isinstance(s, ast.Assign) and isinstance(s.targets[0], ast.Attribute)
             and U(s.targets[0].value) == "new_ex" and s.targets[0].attr in NET_FIELDS]
    if other:
        raise TranslateError(f"callback: network state assigned outside the failure branch: {other}")
    push = _call_stmt(cb.body, "new_ex.st.push")
    if U(push.args[0]) != "ONE if subcall_success else ZERO":
        raise TranslateError("callback: unexpected status word")
    if U(_assign_to(cb.body, "returndata")) != "subcall.output.data":
        raise TranslateError("callback: returndata = subcall.output.data expected")
    cp = _call_stmt(cb.body, "copy_returndata_to_memory")
    if [U(a) for a in cp.args] != ["returndata", "ret_loc", "ret_size", "new_ex"]:
        raise TranslateError("callback: unexpected copy_returndata_to_memory arguments")
    sub = ck.body[i_sub].value
    skw = {k.arg: U(k.value) for k in sub.keywords}
    for f in NET_FIELDS:
        if skw.get(f) != f"ex.{f}":
            raise TranslateError(f"sub_ex: {f}={skw.get(f)}")
    if skw.get("pgm") != "ex.code[to]" or skw.get("context") != "CallContext(message=message, depth=ex.context.depth + 1)":
        raise TranslateError("sub_ex: unexpected pgm/context")
    # dispatch between call_unknown and call_known
    disp = _find(call.body, lambda s: isinstance(s, ast.If) and "call_unknown()" in U(s), "dispatch `if`")
    if U(disp.test) != "to.is_concrete and int(to) in range(1, 11) or to in CHEATCODE_ADDRESSES or to_alias is None":
        raise TranslateError(f"call: unexpected dispatch condition {U(disp.test)}")

    # ------------------------------------------------------------------ call_unknown tail
    cu = _nested(call, "call_unknown")
    tail = _find(cu.body, lambda s: isinstance(s, ast.If) and U(s.test) == "exit_code.is_concrete", "exit-code `if`")
    inner = _find(tail.body, lambda s: isinstance(s, ast.If), "`if exit_code.value != 0`")
    if U(inner.test) != "exit_code.value != 0" or [U(s) for s in inner.body] != ["send_callvalue()"]:
        raise TranslateError("call_unknown: unexpected transfer guard")
    last_else = cu.body[_index(cu.body, lambda s: isinstance(s, ast.If) and U(s.test) == "to == ECRECOVER_PRECOMPILE", "precompile chain")]
    node = last_else
    while node.orelse and len(node.orelse) == 1 and isinstance(node.orelse[0], ast.If):
        node = node.orelse[0]
    fin = [s for s in node.orelse if not (isinstance(s, ast.Expr) and isinstance(s.value, ast.Constant))]
    if len(fin) != 2 or U(fin[1]) != "ret = ByteVec()" or not (isinstance(fin[0], ast.Assign) and U(fin[0].targets[0]) == "exit_code"):
        raise TranslateError(f"call_unknown: non-existing account branch is {[U(s) for s in fin]}")
    ev = fin[0].value
    # the status word of a call of an account without code: 1, or (since 65d68f4) 1 unless the depth limit is exceeded
    if U(ev) == "ONE":
        emit("unknown_call_ok", "(depth : Z) ", "bool", "true")
    elif isinstance(ev, ast.IfExp) and U(ev.body) == "ONE" and U(ev.orelse) == "ZERO":
        emit("unknown_call_ok", "(depth : Z) ", "bool", Ex({"ex.context.depth": ("depth", "Z")}, {"MAX_CALL_DEPTH"}).b(ev.test))
    else:
        raise TranslateError(f"call_unknown: status word of a non-existing account is {U(ev)}")
    if [U(s) for s in tail.body[:1]] != ["ex.st.push(exit_code)"] or tail.body.index(inner) != 1:
        raise TranslateError("call_unknown: the status word must be pushed, then the value sent iff it is non-zero")
    tr_app = [U(n) for n in ast.walk(cu) if isinstance(n, ast.Call) and U(n.func) == "new_ex.context.trace.append"]
    if tr_app != ["new_ex.context.trace.append(CallContext(message=message, output=CallOutput(data=ret_), depth=new_ex.context.depth + 1))"]:
        raise TranslateError(f"call_unknown: trace entry {tr_app}")

    # ------------------------------------------------------------------ handle_insufficient_fund_case
    h = find_function(tree, "handle_insufficient_fund_case", cls="SEVM")
    first = h.body[0]
    zero_skip = isinstance(first, ast.If) and U(first.test) == "value == ZERO" and [U(s) for s in first.body] == ["return"]
    emit("insufficient_zero_shortcut", "", "bool", "true" if zero_skip else "false")
    cond = _assign_to(h.body, "insufficiency_cond")
    env = {"ex.balance_of(caller)": ("bal", "Z"), "value.as_z3()": ("value", "Z")}
    emit("insufficient", "(bal value : Z) ", "bool", Ex(env).b(cond))
    hb = _find(h.body, lambda s: isinstance(s, ast.If) and "insufficiency_cond" in U(s.test), "branch `if`")
    if U(hb.test) != "ex.check(insufficiency_cond) != unsat":
        raise TranslateError("handle_insufficient_fund_case: unexpected feasibility test")
    lines = [U(s) for s in hb.body]
    if lines[0] != "fail_ex = self.create_branch(ex, insufficiency_cond, ex.pc)" or lines[-3:] != ["fail_ex.st.push(ZERO)", "fail_ex.advance()", "stack.push(fail_ex)"]:
        raise TranslateError("handle_insufficient_fund_case: unexpected failing branch")
    if "InsufficientFunds()" not in lines[1] or "data=ByteVec()" not in lines[1]:
        raise TranslateError("handle_insufficient_fund_case: unexpected trace entry")

    # ------------------------------------------------------------------ transfer_value
    t = find_function(tree, "transfer_value", cls="SEVM")
    first = t.body[0]
    zs = isinstance(first, ast.If) and U(first.test) == "value.is_concrete and value.value == 0" and [U(s) for s in first.body] == ["return"]
    emit("transfer_zero_shortcut", "", "bool", "true" if zs else "false")
    if U(_assign_to(t.body, "caller_balance")) != "ex.balance_of(caller)":
        raise TranslateError("transfer_value: caller_balance")
    env = {"caller_balance": ("bal", "Z"), "value.as_z3()": ("value", "Z")}
    emit("balance_ok", "(bal value : Z) ", "bool", Ex(env).b(_assign_to(t.body, "balance_cond")))
    inf = _find(t.body, lambda s: isinstance(s, ast.If) and U(s.test) == "is_false(balance_cond)", "infeasibility test")
    if not (len(inf.body) == 1 and isinstance(inf.body[0], ast.Raise) and U(inf.body[0].exc).startswith("InfeasiblePath(")):
        raise TranslateError("transfer_value: infeasible branch")
    _call_stmt(t.body, "ex.path.append")
    ups = [s.value for s in t.body if isinstance(s, ast.Expr) and isinstance(s.value, ast.Call) and U(s.value.func) == "ex.balance_update"]
    if len(ups) != 2:
        raise TranslateError("transfer_value: two balance updates expected")
    env = {"BV(caller_balance).sub(value)": ("(Z.sub bal_from value)", "Z"), "BV(ex.balance_of(to)).add(value)": ("(Z.add bal_to value)", "Z")}
    if U(ups[0].args[0]) != "caller" or U(ups[1].args[0]) != "to":
        raise TranslateError("transfer_value: debit of the caller must come first, then credit of `to`")
    emit("transfer_debit", "(bal_from value : Z) ", "Z", Ex(env).z(ups[0].args[1]))
    emit("transfer_credit", "(bal_to value : Z) ", "Z", Ex(env).z(ups[1].args[1]))

    # ------------------------------------------------------------------ copy_returndata_to_memory
    c = find_function(tree, "copy_returndata_to_memory")
    if U(_assign_to(c.body, "actual_ret_size")) != "len(returndata)":
        raise TranslateError("copy_returndata_to_memory: actual_ret_size")
    env = {"ret_size": ("ret_size", "Z"), "actual_ret_size": ("actual", "Z")}
    emit("effective_ret_size", "(ret_size actual : Z) ", "Z", Ex(env).z(_assign_to(c.body, "effective_ret_size")))
    g = _find(c.body, lambda s: isinstance(s, ast.If), "`if not effective_ret_size`")
    if U(g.test) != "not effective_ret_size" or [U(s) for s in g.body] != ["return"]:
        raise TranslateError("copy_returndata_to_memory: guard")
    d = _assign_to(c.body, "data")
    if U(d) != "returndata.slice(0, effective_ret_size) if effective_ret_size < actual_ret_size else returndata":
        raise TranslateError("copy_returndata_to_memory: data")
    if U(_call_stmt(c.body, "ex.st.set_mslice")) != "ex.st.set_mslice(ret_loc, data)":
        raise TranslateError("copy_returndata_to_memory: set_mslice")

    # ------------------------------------------------------------------ Exec.returndata / new_address
    r = find_function(tree, "returndata", cls="Exec")
    body = [s for s in r.body if not (isinstance(s, ast.Expr) and isinstance(s.value, ast.Constant))]
    shape = [U(s) for s in body]
    want = ["last_subcall = self.context.last_subcall()", "if not last_subcall:\n    return EMPTY_BYTES",
            "output = last_subcall.output", None, "return output.data"]
    if len(shape) != 5 or any(w is not None and w != s for w, s in zip(want, shape)):
        raise TranslateError(f"Exec.returndata: unexpected shape {shape}")
    mid = body[3]
    if not (isinstance(mid, ast.If) and [U(s) for s in mid.body] == ["return EMPTY_BYTES"] and not mid.orelse):
        raise TranslateError("Exec.returndata: unexpected middle statement")
    env = {"last_subcall.message.is_create()": ("is_create", "bool"), "output.error": ("has_error", "opt")}
    emit("returndata_hidden", "(is_create has_error : bool) ", "bool", Ex(env).b(mid.test))
    na = find_function(tree, "new_address", cls="Exec")
    if [U(s) for s in na.body[:1]] != ["self.cnts['address'] += 1"]:
        raise TranslateError("new_address: counter increment")
    ret = na.body[1]
    if not (isinstance(ret, ast.Return) and isinstance(ret.value, ast.Call) and U(ret.value.func) == "con_addr"):
        raise TranslateError("new_address: return con_addr(...)")
    env = {"self.cnts['address']": ("cnt", "Z")}
    emit("new_address", "(cnt : Z) ", "Z", Ex(env, {"magic_address", "new_address_offset"}).z(ret.value.args[0]))

    # ------------------------------------------------------------------ SEVM.create
    cr = find_function(tree, "create", cls="SEVM")
    first = cr.body[0]
    sc = isinstance(first, ast.If) and U(first.test) == "ex.message().is_static" and len(first.body) == 1 and U(first.body[0]).startswith("raise WriteInStaticContext(")
    emit("create_static_check", "", "bool", "true" if sc else "false")
    if U(_assign_to(cr.body, "pranked_caller, pranked_origin")) != "ex.resolve_prank(con_addr(0))":
        raise TranslateError("create: resolve_prank")
    msg = _assign_to(cr.body, "message")
    kw = {k: U(v) for k, v in _kw(msg, MSG_FIELDS).items()}
    want = {"target": "new_addr", "caller": "pranked_caller", "origin": "pranked_origin", "value": "value",
            "data": "create_hexcode", "is_static": "False", "call_scheme": "op"}
    if kw != want:
        raise TranslateError(f"create: Message fields {kw}")
    hif = _call_stmt(cr.body, "self.handle_insufficient_fund_case")
    if [U(a) for a in hif.args] != ["pranked_caller", "value", "message", "ex", "stack"]:
        raise TranslateError("create: handle_insufficient_fund_case arguments")
    coll = _find(cr.body, lambda s: isinstance(s, ast.If) and U(s.test) == "new_addr in ex.code", "collision test")
    cl = [U(s) for s in coll.body]
    if cl[:2] != ["ex.st.push(ZERO)", "ex.advance()"] or cl[-2:] != ["stack.push(ex)", "return"] or "subcall.output.data = ByteVec()" not in cl or "subcall.output.error = AddressCollision()" not in cl:
        raise TranslateError("create: collision branch")
    bk, bk_kinds = _backups(cr.body)
    if sorted(bk) != sorted(NET_FIELDS):
        raise TranslateError(f"create: backups {sorted(bk)}")
    _emit_copies(emit, "create_backup_copies", bk_kinds)
    i_hif = _index(cr.body, lambda s: isinstance(s, ast.Expr) and U(s.value).startswith("self.handle_insufficient_fund_case"), "hif")
    i_coll = cr.body.index(coll)
    i_setc = _index(cr.body, lambda s: U(s) == "ex.set_code(new_addr, Contract(b''))", "set_code of the new account")
    i_st = _index(cr.body, lambda s: U(s) == "ex.storage[new_addr] = self.mk_storagedata()", "storage reset")
    i_ts = _index(cr.body, lambda s: U(s) == "ex.transient_storage[new_addr] = self.mk_storagedata()", "transient reset")
    i_tv = _index(cr.body, lambda s: U(s) == "self.transfer_value(ex, pranked_caller, new_addr, value)", "transfer_value")
    if not (i_hif < i_coll < min(bk.values())):
        raise TranslateError("create: unexpected order of insufficient-funds / collision / backup")
    emit("create_backup_before_setup", "", "bool", "true" if max(bk.values()) < min(i_setc, i_st, i_ts, i_tv) else "false")
    if not (i_setc < i_st < i_ts < i_tv):
        raise TranslateError("create: unexpected set-up order")
    cb = _find(cr.body, lambda s: isinstance(s, ast.FunctionDef) and s.name == "callback", "create callback")
    chain = _find(cb.body, lambda s: isinstance(s, ast.If) and U(s.test) == "subcall.is_stuck()", "callback outcome chain")
    if not (len(chain.orelse) == 1 and isinstance(chain.orelse[0], ast.If)):
        raise TranslateError("create callback: elif expected")
    ok = chain.orelse[0]
    emit("create_success", "(has_error : bool) ", "bool", Ex({"subcall.output.error": ("has_error", "opt")}).b(ok.test))
    okl = [U(s) for s in ok.body]
    need = ["deployed_bytecode = subcall.output.data", "new_code = Contract(deployed_bytecode)", "new_ex.set_code(new_addr, new_code)", "new_ex.st.push_any(new_addr)"]
    if any(n not in okl for n in need) or _restored(ok.body, "new_ex"):
        raise TranslateError(f"create callback: success branch {okl}")
    fl = [U(s) for s in ok.orelse]
    if "new_ex.st.push(ZERO)" not in fl:
        raise TranslateError("create callback: failure branch must push ZERO")
    rs = _restored(ok.orelse, "new_ex")
    for f in NET_FIELDS:
        emit(f"create_restores_{f}", "", "bool", "true" if f in rs else "false")
    _emit_copies(emit, "create_restore_copies", rs)
    _pin_callback_copies(cb, "new_ex")
    sub = _assign_to(cr.body, "sub_ex")
    skw = {k.arg: U(k.value) for k in sub.keywords}
    for f in NET_FIELDS:
        if skw.get(f) != f"ex.{f}":
            raise TranslateError(f"create sub_ex: {f}={skw.get(f)}")
    if skw.get("pgm") != "create_code" or skw.get("context") != "CallContext(message=message, depth=ex.context.depth + 1)":
        raise TranslateError("create sub_ex: unexpected pgm/context")

    # ------------------------------------------------------------------ SEVM.sstore / SEVM.run guards
    ss = find_function(tree, "sstore", cls="SEVM")
    st_if = [s for s in ss.body if isinstance(s, ast.If) and U(s.test) == "ex.message().is_static"]
    okk = len(st_if) == 1 and U(st_if[0].body[0]).startswith("raise WriteInStaticContext(")
    i_if = ss.body.index(st_if[0]) if okk else -1
    i_store = _index(ss.body, lambda s: U(s) == "self.storage_model.store(ex, storage, addr, loc, val)", "store call")
    emit("sstore_static_check", "", "bool", "true" if okk and i_if < i_store else "false")
    run = find_function(tree, "run", cls="SEVM")
    depth_ifs = [n for n in ast.walk(run) if isinstance(n, ast.If) and "MAX_CALL_DEPTH" in U(n.test)]
    if len(depth_ifs) != 1 or not U(depth_ifs[0].body[0]).startswith("raise MessageDepthLimitError("):
        raise TranslateError("run: depth-limit guard")
    emit("depth_exceeded", "(depth : Z) ", "bool", Ex({"ex.context.depth": ("depth", "Z")}, {"MAX_CALL_DEPTH"}).b(depth_ifs[0].test))
    log_ifs = [n for n in ast.walk(run) if isinstance(n, ast.If) and U(n.test) == "OP_LOG0 <= opcode <= OP_LOG4"]
    if len(log_ifs) != 1:
        raise TranslateError("run: LOG arm")
    lf = log_ifs[0].body[0]
    lk = isinstance(lf, ast.If) and U(lf.test) == "ex.message().is_static" and U(lf.body[0]).startswith("raise WriteInStaticContext(")
    emit("log_static_check", "", "bool", "true" if lk else "false")
    ts_ifs = [n for n in ast.walk(run) if isinstance(n, ast.If) and U(n.test) == "opcode == OP_TSTORE"]
    if len(ts_ifs) != 1 or "self.sstore(ex, ex.this(), slot, value, transient=True)" not in [U(s) for s in ts_ifs[0].body]:
        raise TranslateError("run: TSTORE arm must go through self.sstore")
    ss_ifs = [n for n in ast.walk(run) if isinstance(n, ast.If) and U(n.test) == "opcode == OP_SSTORE"]
    if len(ss_ifs) != 1 or not any(U(s).startswith("self.sstore(ex, ex.this(), ") for s in ss_ifs[0].body):
        raise TranslateError("run: SSTORE arm must go through self.sstore")
    rc_ifs = [n for n in ast.walk(run) if isinstance(n, ast.If) and U(n.test) == "opcode == OP_RETURNDATACOPY"]
    if len(rc_ifs) != 1:
        raise TranslateError("run: RETURNDATACOPY arm")
    # two accepted shapes:  `if <oob>: raise`  followed by  `if size: <copy>`   (bound test unguarded)
    #                       `if size: (if <oob>: raise) <copy>`                 (bound test under the size guard)
    top_ifs = [s for s in rc_ifs[0].body if isinstance(s, ast.If)]

    def _is_oob(s):
        return isinstance(s, ast.If) and not s.orelse and len(s.body) == 1 and U(s.body[0]).startswith("raise OutOfBoundsRead(")

    def _guard_of(s):
        if s.orelse:
            raise TranslateError("run: RETURNDATACOPY size guard with else")
        return "(negb (Z.eqb size 0))" if U(s.test) == "size" else "true" if U(s.test) == "True" else _bad(s)

    if len(top_ifs) == 2 and _is_oob(top_ifs[0]) and not _is_oob(top_ifs[1]):
        oob, guard = top_ifs
        if [s for s in guard.body if isinstance(s, ast.If)]:
            raise TranslateError("run: RETURNDATACOPY unexpected nested test")
        emit("retcopy_guard", "(size : Z) ", "bool", "true")
        copy_body = guard.body
    elif len(top_ifs) == 1 and not _is_oob(top_ifs[0]):
        guard = top_ifs[0]
        oob = _find(guard.body, lambda s: isinstance(s, ast.If), "RETURNDATACOPY bound test")
        if not _is_oob(oob) or guard.body.index(oob) != 0:
            raise TranslateError("run: RETURNDATACOPY bound test must come first and raise OutOfBoundsRead")
        emit("retcopy_guard", "(size : Z) ", "bool", _guard_of(guard))
        copy_body = guard.body[1:]
    else:
        raise TranslateError("run: RETURNDATACOPY arm has an unexpected shape")
    emit("retcopy_copy_guard", "(size : Z) ", "bool", _guard_of(guard))
    env = {"offset": ("offset", "Z"), "size": ("size", "Z"), "ex.returndatasize()": ("rds", "Z")}
    emit("retcopy_oob", "(offset size rds : Z) ", "bool", Ex(env).b(oob.test))
    if [U(s) for s in copy_body if not (isinstance(s, ast.Expr) and isinstance(s.value, ast.Constant))] != \
            ["data: ByteVec = ex.returndata().slice(offset, offset + size)", "state.set_mslice(loc, data)"]:
        raise TranslateError(f"run: RETURNDATACOPY copy {[U(s) for s in copy_body]}")
    pre = [U(s) for s in rc_ifs[0].body if not isinstance(s, ast.If)]
    if pre != ["loc: int = ex.mloc(check_size=False)", "offset = ex.int_of(state.pop(), 'symbolic RETURNDATACOPY offset')",
               "size: int = ex.int_of(state.pop(), 'symbolic RETURNDATACOPY size')"]:
        raise TranslateError(f"run: RETURNDATACOPY operands {pre}")

    # ------------------------------------------------------------------ EXTCODESIZE / EXTCODECOPY (what a frame sees of another account's code)
    es_ifs = [n for n in ast.walk(run) if isinstance(n, ast.If) and U(n.test) == "opcode == OP_EXTCODESIZE"]
    if len(es_ifs) != 1:
        raise TranslateError("run: EXTCODESIZE arm")
    es = _find(es_ifs[0].body, lambda s: isinstance(s, ast.If), "EXTCODESIZE alias test")
    if U(es.test) != "account_alias is not None" or [U(s) for s in es.body] != ["codesize = BV(len(ex.code[account_alias]))"]:
        raise TranslateError("run: EXTCODESIZE of an existing account must be len(ex.code[alias])")
    if len(es.orelse) != 1 or not U(es.orelse[0]).startswith("codesize = ONE if account in [hevm_cheat_code.address, halmos_cheat_code.address] else ZERO"):
        raise TranslateError(f"run: EXTCODESIZE of a non-existing account: {[U(s) for s in es.orelse]}")
    ec_ifs = [n for n in ast.walk(run) if isinstance(n, ast.If) and U(n.test) == "opcode == OP_EXTCODECOPY"]
    if len(ec_ifs) != 1:
        raise TranslateError("run: EXTCODECOPY arm")
    ec = ec_ifs[0].body
    pre = [U(s) for s in ec if not isinstance(s, ast.If)]
    if pre != ["account: BV = uint160(state.peek())", "account_alias = self.resolve_address_alias(ex, account, stack)", "state.pop()",
               "loc: int = ex.int_of(state.pop(), 'symbolic EXTCODECOPY offset')", "offset: int = ex.int_of(state.pop(), 'symbolic EXTCODECOPY offset')",
               "size: int = ex.int_of(state.pop(), 'symbolic EXTCODECOPY size')"]:
        raise TranslateError(f"run: EXTCODECOPY operands {pre}")
    eg = _find(ec, lambda s: isinstance(s, ast.If), "EXTCODECOPY size guard")
    if U(eg.test) != "size" or eg.orelse:
        raise TranslateError("run: EXTCODECOPY size guard")
    emit("extcodecopy_guard", "(size : Z) ", "bool", "(negb (Z.eqb size 0))")
    eb = [s for s in eg.body if not (isinstance(s, ast.If) and U(s.test) == "account_alias is None")]
    if len(eb) != 3 or U(eb[2]) != "state.set_mslice(loc, codeslice)":
        raise TranslateError(f"run: EXTCODECOPY body {[U(s) for s in eb]}")
    acc, cs = U(eb[0].value), eb[1].value
    senv = {"offset": ("offset", "Z"), "size": ("size", "Z")}

    def _empty_len(call):
        """length of ByteVec().slice(start, stop) = max(0, stop - start) zero bytes"""
        if not (isinstance(call, ast.Call) and U(call.func) == "ByteVec().slice" and len(call.args) == 2 and not call.keywords):
            raise TranslateError(f"run: EXTCODECOPY empty-account slice {U(call)}")
        e = Ex(senv)
        return f"(Z.max 0 (Z.sub {e.z(call.args[1])} {e.z(call.args[0])}))"

    if U(eb[0].target) != "account_code" or U(eb[1].target) != "codeslice":
        raise TranslateError("run: EXTCODECOPY account_code / codeslice")
    if acc == "ex.code.get(account_alias)" and isinstance(cs, ast.IfExp):
        # Contract.slice(start, size) for an existing account, else zero bytes
        if U(cs.test) != "account_code is not None" or U(cs.body) != "account_code.slice(offset, size)":
            raise TranslateError(f"run: EXTCODECOPY slice {U(cs)}")
        emit("extcodecopy_use_code", "(has_account : bool) (codelen : Z) ", "bool", "has_account")
        emit("extcodecopy_empty_len", "(offset size : Z) ", "Z", _empty_len(cs.orelse))
    elif acc == "ex.code.get(account_alias) or ByteVec()" and U(cs) == "account_code.slice(offset, size)":
        # a Contract with empty code is falsy (Contract.__len__): it reads as ByteVec().slice(offset, size) too
        emit("extcodecopy_use_code", "(has_account : bool) (codelen : Z) ", "bool", "(andb has_account (negb (Z.eqb codelen 0)))")
        emit("extcodecopy_empty_len", "(offset size : Z) ", "Z", "(Z.max 0 (Z.sub size offset))")
    else:
        raise TranslateError(f"run: EXTCODECOPY account_code = {acc}; codeslice = {U(cs)}")

    # ------------------------------------------------------------------ path forks: create_branch, JUMPI, the worklist
    br = find_function(tree, "create_branch", cls="SEVM")
    ret = _find(br.body, lambda s: isinstance(s, ast.Return), "create_branch return")
    if U(ret.value) != "new_ex":
        raise TranslateError("create_branch: return new_ex expected")
    nex = _assign_to(br.body, "new_ex")
    if not (isinstance(nex, ast.Call) and U(nex.func) == "Exec" and not nex.args):
        raise TranslateError("create_branch: new_ex = Exec(...) expected")
    bkw = {k.arg: k.value for k in nex.keywords}
    kinds = {f: _copy_kind(f, bkw[f], f"ex.{f}") for f in NET_FIELDS if f in bkw}
    if sorted(kinds) != sorted(NET_FIELDS):
        raise TranslateError(f"create_branch: network-state fields {sorted(kinds)}")
    _emit_copies(emit, "branch_copies", kinds)
    for f, want in (("cnts", "deepcopy(ex.cnts)"), ("st", "deepcopy(ex.st)"), ("context", "deepcopy(ex.context)"), ("callback", "ex.callback"),
                    ("jumpis", "deepcopy(ex.jumpis)"), ("pgm", "ex.pgm"), ("pc", "target")):
        if f not in bkw or U(bkw[f]) != want:
            raise TranslateError(f"create_branch: {f}={U(bkw[f]) if f in bkw else None}, expected {want}")
    wl = [n for n in tree.body if isinstance(n, ast.ClassDef) and n.name == "Worklist"]
    if len(wl) != 1:
        raise TranslateError("class Worklist")
    wpush = [U(s) for s in find_function(tree, "push", cls="Worklist").body]
    wpop = find_function(tree, "pop", cls="Worklist").body
    if wpush != ["self.stack.append(ex)"] or not (len(wpop) == 1 and isinstance(wpop[0], ast.Try) and [U(s) for s in wpop[0].body] == ["return self.stack.pop()"]):
        raise TranslateError("Worklist: push = append / pop = stack.pop() (LIFO) expected")
    # the main loop takes the state it just advanced, else the most recently pushed one
    loops = [n for n in ast.walk(run) if isinstance(n, ast.While)]
    if len(loops) != 1 or U(loops[0].test) != "(ex := (next_ex or stack.pop())) is not None":
        raise TranslateError(f"run: main loop must be `while (ex := next_ex or stack.pop()) is not None`, found {[U(l.test) for l in loops]}")
    # JUMPI with both sides followed: the TRUE side is a create_branch copy pushed first (explored
    # last), the FALSE side is the state itself, pushed last (explored first)
    ji = find_function(tree, "jumpi", cls="SEVM")
    ft = _find(ji.body, lambda s: isinstance(s, ast.If) and U(s.test) == "follow_true", "jumpi `if follow_true`")
    inner = _find(ft.body, lambda s: isinstance(s, ast.If) and U(s.test) == "follow_false", "jumpi `if follow_false` under follow_true")
    if [U(s) for s in inner.body] != ["new_ex_true = self.create_branch(ex, cond_true, target)"] or not inner.orelse or U(inner.orelse[0]) != "new_ex_true = ex":
        raise TranslateError("jumpi: the true side must be create_branch(ex, ...) when both sides are followed, else ex")
    ff = _find(ji.body, lambda s: isinstance(s, ast.If) and U(s.test) == "follow_false", "jumpi `if follow_false`")
    if U(ff.body[0]) != "new_ex_false = ex":
        raise TranslateError("jumpi: the false side must be ex itself")
    pushes = [U(n.args[0]) for n in ast.walk(ji) if isinstance(n, ast.Call) and U(n.func) == "stack.push"]
    # (an invalid destination under a symbolic condition: the halting inputs get a create_branch copy of their own,
    #  pushed before the two sides -- fix 104420e)
    if pushes == ["bad_ex", "new_ex_true", "new_ex_false"]:
        bad = [U(n.value) for n in ast.walk(ji) if isinstance(n, ast.Assign) and U(n.targets[0]) == "bad_ex"]
        if bad != ["self.create_branch(ex, cond_true, ex.pc)"]:
            raise TranslateError(f"jumpi: bad_ex must be a create_branch copy of ex, found {bad}")
    elif pushes != ["new_ex_true", "new_ex_false"]:
        raise TranslateError(f"jumpi: push order {pushes}")
    if not ji.body.index(ft) < ji.body.index(ff):
        raise TranslateError("jumpi: the true side must be prepared (copied) before the false side is advanced")
    # SEVM.call: the insufficient-funds branch is forked before the dispatch to call_known / call_unknown
    if not i_hif_call < call.body.index(disp):
        raise TranslateError("call: handle_insufficient_fund_case must come before the dispatch")

    head = ["(* GENERATED by translate/t_callmsg.py from src/halmos/sevm.py -- do not edit *)",
            "From Coq Require Import ZArith Bool.", "From HV Require Import Gen.GenOpcodes Gen.GenConsts.", "Open Scope Z_scope.", ""]
    return "\n".join(head + D) + "\n", info


def _bad(node):
    raise TranslateError(f"unsupported guard {U(node.test)}")


def selfcheck(info):
    """The decision functions have no importable counterpart (they are inline code); the
    cross-check is the L2 correspondence run of C09.  Here: sanity of what was emitted."""
    bad = []
    for k in ("msg_target", "msg_caller", "msg_value", "msg_static", "call_fund", "sends_value", "insufficient", "balance_ok",
              "call_static_value_check", "callvalue_checks_balance", "unknown_call_ok", "retcopy_guard", "retcopy_copy_guard", "extcodecopy_empty_len",
              "call_restore_copies_storage", "create_restore_copies_storage", "branch_copies_storage", "call_backup_copies_storage"):
        if k not in info:
            bad.append(f"missing {k}")
    return bad
