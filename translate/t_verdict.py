"""T-verdict: /repo/src/halmos/__main__.py -> coq/Gen/GenVerdict.v

Regenerates, fail-closed, the parts of the verdict / exit-code logic that are small
first-order decision code:

 * `class Exitcode(Enum)`                              -> EX_<NAME> : Z
 * run_test: `counter = Counter(str(m.result) for m in ctx.solver_outputs)` (shape checked)
   followed by the if/elif/else chain assigning `passfail` and `exitcode`
                                                        -> verdict_chain : Z^6 -> label * Z
 * run_test: the if/elif chain that classifies a finished path (panic / fail flag -> submit,
   stuck -> synchronous solve, no error -> count as normal) -> classify : bool^4 -> action,
   the guard under which a stuck path is counted         -> stuck_counted : bool -> bool,
   and what an exception of that synchronous solve does (bare call: it leaves run_test;
   try / except ShutdownError: break / except Exception: from_error output)
                                                        -> stuck_shutdown_escapes, stuck_exception_escapes : bool
 * run_tests: the result appended when run_test raises   -> raised_label, raised_exitcode
 * _main: num_passed / num_failed / total_* / the no-tests exit / the final exit expression
                                                        -> test_passed, num_failed_of, no_tests,
                                                           no_tests_exit, final_exit
"""
import ast

from .pyexpr import TranslateError, Translator, find_function

NAME = "T-verdict"
SRC = "__main__.py"
OUT = "GenVerdict.v"

LABELS = {"[PASS]": "LPass", "[FAIL]": "LFail", "[ERROR]": "LError", "[TIMEOUT]": "LTimeout"}
COUNTER_KEYS = ["sat", "unsat", "unknown", "err"]
CHAIN_PARAMS = [f"n_{k}" for k in COUNTER_KEYS] + ["n_stuck", "normal"]


def _same(node, src):
    return ast.dump(node) == ast.dump(ast.parse(src, mode="eval").body)


def _same_stmt(node, src):
    return ast.dump(node) == ast.dump(ast.parse(src).body[0])


class _Norm(ast.NodeTransformer):
    """counter["k"] -> n_k ; len(stuck) -> n_stuck"""

    def visit_Subscript(self, node):
        if isinstance(node.value, ast.Name) and node.value.id == "counter" and isinstance(node.slice, ast.Constant) and node.slice.value in COUNTER_KEYS:
            return ast.copy_location(ast.Name(id=f"n_{node.slice.value}", ctx=ast.Load()), node)
        raise TranslateError(f"unexpected subscript {ast.unparse(node)!r} in the verdict chain")

    def visit_Call(self, node):
        if _same(node, "len(stuck)"):
            return ast.copy_location(ast.Name(id="n_stuck", ctx=ast.Load()), node)
        raise TranslateError(f"unexpected call {ast.unparse(node)!r} in the verdict chain")


def _arm(body, where):
    """body of one arm of the verdict chain -> (label, exitcode-name)."""
    label = ex = None
    for st in body:
        if isinstance(st, ast.Assign) and len(st.targets) == 1 and isinstance(st.targets[0], ast.Name):
            tgt, v = st.targets[0].id, st.value
            if tgt == "passfail":
                if not (isinstance(v, ast.Call) and isinstance(v.func, ast.Name) and v.func.id in ("color_error", "color_warn", "color_good")
                        and len(v.args) == 1 and isinstance(v.args[0], ast.Constant) and v.args[0].value in LABELS and label is None):
                    raise TranslateError(f"{where}: unexpected passfail assignment {ast.unparse(st)!r}")
                label = LABELS[v.args[0].value]
                continue
            if tgt == "exitcode":
                if not (isinstance(v, ast.Attribute) and v.attr == "value" and isinstance(v.value, ast.Attribute)
                        and isinstance(v.value.value, ast.Name) and v.value.value.id == "Exitcode" and ex is None):
                    raise TranslateError(f"{where}: unexpected exitcode assignment {ast.unparse(st)!r}")
                ex = v.value.attr
                continue
            raise TranslateError(f"{where}: unexpected assignment {ast.unparse(st)!r}")
        if isinstance(st, ast.Expr) and isinstance(st.value, ast.Call) and isinstance(st.value.func, ast.Name) and st.value.func.id == "warn_code":
            continue  # diagnostics only
        raise TranslateError(f"{where}: unexpected statement {ast.unparse(st)!r}")
    if label is None or ex is None:
        raise TranslateError(f"{where}: arm does not assign both passfail and exitcode")
    return label, ex


def _chain(stmt):
    rules = []
    cur = stmt
    while True:
        test = _Norm().visit(ast.parse(ast.unparse(cur.test), mode="eval").body)
        rules.append((test, ast.unparse(cur.test), _arm(cur.body, f"verdict arm `{ast.unparse(cur.test)}`")))
        if len(cur.orelse) == 1 and isinstance(cur.orelse[0], ast.If):
            cur = cur.orelse[0]
            continue
        if not cur.orelse:
            raise TranslateError("verdict chain has no else arm")
        return rules, _arm(cur.orelse, "verdict else arm")


def _walk_stmts(fn):
    for n in ast.walk(fn):
        for attr in ("body", "orelse", "finalbody"):
            b = getattr(n, attr, None)
            if isinstance(b, list):
                yield b
        if isinstance(n, ast.Try):
            for h in n.handlers:
                yield h.body


STUCK_CALL = "solver_output = solve_low_level(path_ctx)"


def _diagnostic(st, exc_name=None):
    """statements of an except body that only print / log"""
    if isinstance(st, ast.Expr) and isinstance(st.value, ast.Call) and isinstance(st.value.func, ast.Name) and st.value.func.id in ("print", "error", "warn", "debug"):
        return True
    if isinstance(st, ast.If) and not st.orelse and all(_diagnostic(x, exc_name) for x in st.body):
        t = ast.unparse(st.test)
        return t == "args.debug" or (exc_name is not None and t == f"not is_benign_solving_error({exc_name})")
    return False


def _stuck_solve(body, result_if):
    """The synchronous solve of a stuck path.  Either the bare call (any exception leaves run_test), or
         try: solver_output = solve_low_level(path_ctx)
         except ShutdownError: <diagnostics>; break
         except Exception as e: <diagnostics>; solver_output = SolverOutput.from_error(e, ...)
       -> (a ShutdownError escapes, any other exception escapes).  Anything else: fail closed."""
    bare = [s for s in body if _same_stmt(s, STUCK_CALL)]
    tries = [s for s in body if isinstance(s, ast.Try)]
    if len(bare) == 1 and not tries:
        if body.index(bare[0]) > body.index(result_if):
            raise TranslateError("stuck arm: the solver is called after its result is examined")
        return True, True
    if bare or len(tries) != 1:
        raise TranslateError("stuck arm: expected `solver_output = solve_low_level(path_ctx)`, bare or as the body of one try statement")
    t = tries[0]
    if len(t.body) != 1 or not _same_stmt(t.body[0], STUCK_CALL) or t.orelse or t.finalbody:
        raise TranslateError("stuck arm: the try must guard exactly `solver_output = solve_low_level(path_ctx)` (no else / finally)")
    if body.index(t) > body.index(result_if):
        raise TranslateError("stuck arm: the solver is called after its result is examined")
    kinds = [ast.unparse(h.type) if h.type is not None else None for h in t.handlers]
    if kinds != ["ShutdownError", "Exception"]:
        raise TranslateError(f"stuck arm: expected the handlers [ShutdownError, Exception] in this order, found {kinds}")
    h0, h1 = t.handlers
    if not h0.body or not isinstance(h0.body[-1], ast.Break) or not all(_diagnostic(x) for x in h0.body[:-1]):
        raise TranslateError("stuck arm: the ShutdownError handler must be <diagnostics>; break")
    if h1.name is None or not h1.body:
        raise TranslateError("stuck arm: the Exception handler must bind the exception")
    last = h1.body[-1]
    ok = (isinstance(last, ast.Assign) and len(last.targets) == 1 and isinstance(last.targets[0], ast.Name) and last.targets[0].id == "solver_output" and isinstance(last.value, ast.Call)
          and ast.unparse(last.value.func) == "SolverOutput.from_error" and len(last.value.args) == 1 and isinstance(last.value.args[0], ast.Name) and last.value.args[0].id == h1.name
          and {k.arg for k in last.value.keywords} <= {"path_id", "query_file"}
          and all(ast.unparse(k.value) == "path_id" for k in last.value.keywords if k.arg == "path_id"))
    if not ok or not all(_diagnostic(x, h1.name) for x in h1.body[:-1]):
        raise TranslateError("stuck arm: the Exception handler must be <diagnostics>; solver_output = SolverOutput.from_error(<the exception>, path_id=path_id, query_file=...)")
    return False, False


def _classification(fn):
    """The if/elif chain inside the path loop of run_test."""
    chain = None
    for body in _walk_stmts(fn):
        for st in body:
            if isinstance(st, ast.If) and _same(st.test, "panic_found or is_global_fail_set(ex.context)"):
                if chain is not None:
                    raise TranslateError("two path classification chains found")
                chain = st
    if chain is None:
        raise TranslateError("path classification chain (`if panic_found or is_global_fail_set(ex.context)`) not found")
    atoms = {
        "panic_found": "panic",
        "is_global_fail_set(ex.context)": "failflag",
        "ex.context.is_stuck()": "stuck",
        "error_output": "has_error",
    }

    class Atom(ast.NodeTransformer):
        def generic_visit(self, node):
            if isinstance(node, ast.expr) and not isinstance(node, (ast.BoolOp, ast.UnaryOp)):
                s = ast.unparse(node)
                if s in atoms:
                    return ast.Name(id=atoms[s], ctx=ast.Load())
                raise TranslateError(f"classification chain: unknown atom {s!r}")
            return super().generic_visit(node)

    def action(body):
        src = [ast.unparse(s) for s in body]
        has = lambda frag: any(frag in s for s in src)  # noqa: E731
        acts = []
        if any(_same_stmt(s, "potential += 1") for s in body):
            if not has("handler.handle_assertion_violation("):
                raise TranslateError("classification: potential += 1 without handle_assertion_violation")
            acts.append("ASubmit")
        if has("solve_low_level("):
            acts.append("AStuckSolve")
        if any(_same_stmt(s, "normal += 1") for s in ast.walk(ast.Module(body=body, type_ignores=[])) if isinstance(s, ast.stmt)):
            acts.append("ACountNormal")
        if len(acts) != 1:
            raise TranslateError(f"classification arm has actions {acts}")
        return acts[0]

    arms = []
    cur = chain
    stuck_guard = None
    stuck_escapes = None
    while True:
        t = Atom().visit(ast.parse(ast.unparse(cur.test), mode="eval").body)
        a = action(cur.body)
        arms.append((t, ast.unparse(cur.test), a))
        if a == "AStuckSolve":
            # solver_output = solve_low_level(path_ctx); if solver_output.result != unsat: stuck.append(...)
            found = [s for s in cur.body if isinstance(s, ast.If)]
            if len(found) != 1 or not any("stuck.append(" in ast.unparse(x) for x in found[0].body) or found[0].orelse:
                raise TranslateError("stuck arm: expected exactly one `if ...: stuck.append(...)`")
            stuck_escapes = _stuck_solve(cur.body, found[0])
            g = found[0].test
            if _same(g, "solver_output.result != unsat"):
                stuck_guard = "(negb is_unsat)"
            elif _same(g, "solver_output.result == unsat"):
                stuck_guard = "is_unsat"
            else:
                raise TranslateError(f"stuck arm: unexpected guard {ast.unparse(g)!r}")
        if len(cur.orelse) == 1 and isinstance(cur.orelse[0], ast.If):
            cur = cur.orelse[0]
            continue
        if cur.orelse:
            raise TranslateError("classification chain: unexpected else arm")
        break
    if stuck_guard is None:
        raise TranslateError("classification chain: no stuck arm")
    if not stuck_escapes[0]:
        # `break` in the ShutdownError handler must end the path loop itself
        loops = [n for n in ast.walk(fn) if isinstance(n, ast.For) and _same(n.iter, "enumerate(exs)")]
        if len(loops) != 1 or not any(st is chain for st in loops[0].body) or loops[0].orelse:
            raise TranslateError("stuck arm: the classification chain is not a direct statement of the `for ... in enumerate(exs)` loop (what would `break` leave?)")
    return arms, stuck_guard, stuck_escapes


def translate(src_text):
    tree = ast.parse(src_text)
    # ---- Exitcode enum
    enum = {}
    for n in tree.body:
        if isinstance(n, ast.ClassDef) and n.name == "Exitcode":
            if [ast.unparse(b) for b in n.bases] != ["Enum"]:
                raise TranslateError("Exitcode is not a plain Enum")
            for st in n.body:
                if (isinstance(st, ast.Assign) and len(st.targets) == 1 and isinstance(st.targets[0], ast.Name)
                        and isinstance(st.value, ast.Constant) and isinstance(st.value.value, int) and not isinstance(st.value.value, bool)):
                    enum[st.targets[0].id] = st.value.value
                else:
                    raise TranslateError(f"Exitcode: unexpected member {ast.unparse(st)!r}")
    if not enum:
        raise TranslateError("class Exitcode not found")
    consts = {}
    for n in tree.body:
        if isinstance(n, ast.Assign) and len(n.targets) == 1 and isinstance(n.targets[0], ast.Name) and n.targets[0].id == "PASS":
            if not _same(n.value, "Exitcode.PASS.value"):
                raise TranslateError(f"PASS = {ast.unparse(n.value)!r}: expected Exitcode.PASS.value")
            consts["PASS"] = "EX_PASS"
    if "PASS" not in consts:
        raise TranslateError("module constant PASS not found")

    # ---- run_test: counter + verdict chain
    fn = find_function(tree, "run_test")
    chain_stmt = None
    for i, st in enumerate(fn.body):
        if isinstance(st, ast.Assign) and len(st.targets) == 1 and isinstance(st.targets[0], ast.Name) and st.targets[0].id == "counter":
            if not _same(st.value, "Counter(str(m.result) for m in ctx.solver_outputs)"):
                raise TranslateError(f"counter = {ast.unparse(st.value)!r}: unexpected shape")
            if i + 1 >= len(fn.body) or not isinstance(fn.body[i + 1], ast.If):
                raise TranslateError("statement after `counter = ...` is not the verdict if-chain")
            chain_stmt = fn.body[i + 1]
    if chain_stmt is None:
        raise TranslateError("`counter = Counter(...)` not found at the top level of run_test")
    # nothing after the chain may reassign exitcode / passfail
    after = fn.body[fn.body.index(chain_stmt) + 1:]
    for st in after:
        for n in ast.walk(st):
            if isinstance(n, (ast.Assign, ast.AugAssign)):
                tg = n.targets if isinstance(n, ast.Assign) else [n.target]
                if any(isinstance(t, ast.Name) and t.id in ("exitcode", "passfail") for t in tg):
                    raise TranslateError(f"exitcode/passfail reassigned after the verdict chain: {ast.unparse(n)!r}")
    rules, default = _chain(chain_stmt)
    for _, _, (_, ex) in rules + [(None, None, default)]:
        if ex not in enum:
            raise TranslateError(f"verdict chain uses unknown Exitcode.{ex}")
    # the returned TestResult must carry `exitcode` as its second field
    rets = [n for n in ast.walk(fn) if isinstance(n, ast.Return) and n.value is not None]
    for r in rets:
        v = r.value
        if not (isinstance(v, ast.Call) and isinstance(v.func, ast.Name) and v.func.id == "TestResult" and len(v.args) >= 2
                and _same(v.args[0], "funsig") and _same(v.args[1], "exitcode")):
            raise TranslateError(f"run_test returns {ast.unparse(v)[:80]!r}: expected TestResult(funsig, exitcode, ...)")
    if not rets:
        raise TranslateError("run_test has no return")
    # normal / stuck initialisation
    inits = {ast.unparse(s) for s in fn.body if isinstance(s, ast.Assign)}
    for need in ("normal = 0", "stuck = []"):
        if need not in inits:
            raise TranslateError(f"run_test: `{need}` not found")

    tr = Translator(names={p: p for p in CHAIN_PARAMS})
    text = f"({default[0]}, EX_{default[1]})"
    for test, _, (lab, ex) in reversed(rules):
        text = f"if {tr.tr(test).as_bool()} then ({lab}, EX_{ex})\n  else {text}"

    # ---- classification chain
    arms, stuck_guard, stuck_escapes = _classification(fn)
    ctr = Translator(bool_names=["panic", "failflag", "stuck", "has_error"])
    ctext = "ANone"
    for test, _, act in reversed(arms):
        ctext = f"if {ctr.tr(test).as_bool()} then {act}\n  else {ctext}"

    # ---- run_tests: the except arm
    rt = find_function(tree, "run_tests")
    handlers = [h for n in ast.walk(rt) if isinstance(n, ast.Try) for h in n.handlers]
    if len(handlers) != 1 or ast.unparse(handlers[0].type) != "Exception":
        raise TranslateError("run_tests: expected exactly one `except Exception` handler")
    hsrc = [ast.unparse(s) for s in handlers[0].body]
    raised_ex = raised_label = None
    for s in handlers[0].body:
        u = ast.unparse(s)
        if u.startswith("test_results.append("):
            call = s.value.args[0]
            if not (isinstance(call, ast.Call) and ast.unparse(call.func) == "TestResult" and len(call.args) == 2 and _same(call.args[0], "funsig")
                    and isinstance(call.args[1], ast.Attribute) and call.args[1].attr == "value" and ast.unparse(call.args[1].value).startswith("Exitcode.")):
                raise TranslateError(f"run_tests handler: unexpected {u!r}")
            raised_ex = call.args[1].value.attr
        if u.startswith("print(") and "color_error(" in u:
            for lab in LABELS:
                if lab in u:
                    raised_label = LABELS[lab]
    if raised_ex not in enum or raised_label is None or "continue" not in hsrc:
        raise TranslateError("run_tests handler: could not find the appended TestResult / printed label / continue")
    # every non-raising iteration appends the result of run_test
    loop_src = ast.unparse(rt)
    if "test_result = run_test(test_ctx)" not in loop_src or "test_results.append(test_result)" not in loop_src:
        raise TranslateError("run_tests: expected `test_result = run_test(test_ctx)` and `test_results.append(test_result)`")

    # ---- _main: exit code
    mn = find_function(tree, "_main")
    found = {}
    etr = Translator(names={k: k for k in ("num_found", "num_passed", "total_failed", "total_found")})
    for body in _walk_stmts(mn):
        for i, st in enumerate(body):
            u = ast.unparse(st)
            if isinstance(st, ast.Assign) and len(st.targets) == 1 and isinstance(st.targets[0], ast.Name):
                t = st.targets[0].id
                if t == "num_passed":
                    if not _same(st.value, "sum(r.exitcode == PASS for r in test_results)"):
                        raise TranslateError(f"_main: unexpected {u!r}")
                    found["num_passed"] = True
                elif t == "num_failed":
                    found["num_failed"] = etr.tr(st.value).as_Z()
                elif t == "num_found":
                    if not _same(st.value, "len(funsigs)"):
                        raise TranslateError(f"_main: unexpected {u!r}")
                    found["num_found"] = True
                elif t == "exitcode" and isinstance(st.value, ast.IfExp):
                    found["final_exit"] = etr.tr(st.value).as_Z()
                    if i + 1 >= len(body) or not _same_stmt(body[i + 1], "return on_exit(exitcode)"):
                        raise TranslateError("_main: `exitcode = ...` is not followed by `return on_exit(exitcode)`")
                elif t == "test_results":
                    if not _same(st.value, "run_contract(contract_ctx)"):
                        raise TranslateError(f"_main: unexpected {u!r}")
                    found["test_results"] = True
            elif isinstance(st, ast.AugAssign) and isinstance(st.target, ast.Name) and st.target.id in ("total_failed", "total_found", "total_passed"):
                exp = {"total_failed": "total_failed += num_failed", "total_found": "total_found += num_found", "total_passed": "total_passed += num_passed"}[st.target.id]
                if not _same_stmt(st, exp):
                    raise TranslateError(f"_main: unexpected {u!r}")
                found[st.target.id] = True
            elif isinstance(st, ast.If) and "total_found" in ast.unparse(st.test):
                found["no_tests"] = etr.tr(st.test).as_bool()
                last = st.body[-1]
                if not (isinstance(last, ast.Return) and isinstance(last.value, ast.Call) and ast.unparse(last.value.func) == "MainResult"
                        and len(last.value.args) == 1 and isinstance(last.value.args[0], ast.Constant) and isinstance(last.value.args[0].value, int)) or st.orelse:
                    raise TranslateError("_main: no-tests arm does not end in `return MainResult(<int>)`")
                found["no_tests_exit"] = last.value.args[0].value
    for k in ("num_passed", "num_failed", "num_found", "final_exit", "test_results", "total_failed", "total_found", "no_tests", "no_tests_exit"):
        if k not in found:
            raise TranslateError(f"_main: `{k}` computation not found")
    for init in ("total_failed = 0", "total_found = 0"):
        if init not in {ast.unparse(s) for s in mn.body}:
            raise TranslateError(f"_main: `{init}` not found")
    if "return MainResult(exitcode, test_results_map)" not in ast.unparse(mn) and "result = MainResult(exitcode, test_results_map)" not in ast.unparse(mn):
        raise TranslateError("_main.on_exit does not build MainResult(exitcode, ...)")
    # entry points hand the exit code to the process unchanged
    m = find_function(tree, "main")
    if [ast.unparse(s) for s in m.body if not (isinstance(s, ast.Expr) and isinstance(s.value, ast.Constant))] != ["exitcode = _main().exitcode", "return exitcode"]:
        raise TranslateError("main(): expected `exitcode = _main().exitcode; return exitcode`")
    if "sys.exit(main())" not in ast.unparse(tree.body[-1]):
        raise TranslateError("module does not end in `sys.exit(main())`")

    lines = [
        "(* GENERATED by translate/t_verdict.py from src/halmos/__main__.py -- do not edit *)",
        "From Coq Require Import ZArith List Bool String.",
        "From HV Require Import Spec.VerdictSpec.",
        "Import ListNotations.",
        "Open Scope Z_scope.",
        "",
        "(* class Exitcode(Enum) *)",
    ]
    for k, v in enum.items():
        lines.append(f"Definition EX_{k} : Z := {v}.")
    lines.append("Definition exitcode_values : list Z := [" + "; ".join(f"EX_{k}" for k in enum) + "].")
    lines += [
        "",
        "(* run_test: the if/elif chain over counter[...] / len(stuck) / normal, in source order:",
        *[f"     {src}  ->  {lab}, Exitcode.{ex}" for _, src, (lab, ex) in rules],
        f"     else  ->  {default[0]}, Exitcode.{default[1]} *)",
        "Definition verdict_chain (" + " ".join(CHAIN_PARAMS) + " : Z) : label * Z :=",
        "  " + text + ".",
        "",
        "(* run_test: classification of one finished path *)",
        "Inductive action := ASubmit | AStuckSolve | ACountNormal | ANone.",
        "Definition classify (panic failflag stuck has_error : bool) : action :=",
        "  " + ctext + ".",
        "(* a stuck path is appended to `stuck` under this guard on its solver result *)",
        f"Definition stuck_counted (is_unsat : bool) : bool := {stuck_guard}.",
        "(* the synchronous solve of a stuck path: does a ShutdownError (executor shut down by --early-exit) / any other",
        "   exception of solve_low_level leave run_test?  If not: the ShutdownError handler breaks out of the path loop, the",
        "   Exception handler continues with SolverOutput.from_error (class from_error_class of Gen/GenSolveDispatch.v) *)",
        f"Definition stuck_shutdown_escapes : bool := {'true' if stuck_escapes[0] else 'false'}.",
        f"Definition stuck_exception_escapes : bool := {'true' if stuck_escapes[1] else 'false'}.",
        "",
        "(* run_tests: a test whose run_test raised *)",
        f"Definition raised_label : label := {raised_label}.",
        f"Definition raised_exitcode : Z := EX_{raised_ex}.",
        "",
        "(* _main *)",
        "Definition test_passed (exitcode : Z) : bool := Z.eqb exitcode EX_PASS.",
        f"Definition num_failed_of (num_found num_passed : Z) : Z := {found['num_failed']}.",
        f"Definition no_tests (total_found : Z) : bool := {found['no_tests']}.",
        f"Definition no_tests_exit : Z := {found['no_tests_exit']}.",
        f"Definition final_exit (total_failed : Z) : Z := {found['final_exit']}.",
        "",
    ]
    info = {
        "enum": enum,
        "rules": [(src, lab, ex) for _, src, (lab, ex) in rules],
        "default": default,
        "chain_src": ast.unparse(chain_stmt),
        "class_arms": [(src, act) for _, src, act in arms],
        "stuck_guard": stuck_guard,
        "stuck_escapes": stuck_escapes,
        "raised": (raised_label, raised_ex),
    }
    return "\n".join(lines), info


def eval_rules(info, n):
    """Python evaluation of the translated rule list on counters n (dict)."""
    env = {"counter": {k: n[f"n_{k}"] for k in COUNTER_KEYS}, "stuck": [0] * n["n_stuck"], "normal": n["normal"], "len": len}
    for src, lab, ex in info["rules"]:
        if eval(src, {}, env):  # noqa: S307 - source text of /repo, restricted names
            return lab, info["enum"][ex]
    return info["default"][0], info["enum"][info["default"][1]]


def selfcheck(info):
    """(1) enum values equal the imported module's; (2) executing the *source text* of the
    chain gives the same label / exit code as the translated rule list on a grid."""
    import itertools
    from collections import Counter

    import halmos.__main__ as m

    bad = []
    for k, v in info["enum"].items():
        if getattr(m.Exitcode, k).value != v:
            bad.append(f"Exitcode.{k}: module has {getattr(m.Exitcode, k).value}, source literal {v}")
    if {e.name for e in m.Exitcode} != set(info["enum"]):
        bad.append("Exitcode members differ from the imported module")
    code = compile(info["chain_src"], "<verdict chain>", "exec")
    inv = {v: k for k, v in LABELS.items()}
    for vals in itertools.product([0, 1, 2], repeat=6):
        n = dict(zip(CHAIN_PARAMS, vals))
        env = {
            "counter": Counter({k: n[f"n_{k}"] for k in COUNTER_KEYS}),
            "stuck": [0] * n["n_stuck"], "normal": n["normal"], "Exitcode": m.Exitcode,
            "color_error": lambda s: s, "color_warn": lambda s: s, "color_good": lambda s: s,
            "warn_code": lambda *a, **k: None, "REVERT_ALL": None, "funsig": "f()",
        }
        exec(code, env)  # noqa: S102 - the chain's own source text with stubbed printers
        lab, ex = eval_rules(info, n)
        if (env["passfail"], env["exitcode"]) != (inv[lab], ex):
            bad.append(f"chain source gives {(env['passfail'], env['exitcode'])} but translated rules give {(inv[lab], ex)} on {n}")
            break
    return bad
