"""T-selectors-assume: /repo/src/halmos/cheatcodes.py -> coq/Gen/GenAssumeSelector.v

Emits, from class `hevm_cheat_code`:
  * `assume_sig` (int literal) together with the signature quoted in the comment on the
    line above it (`# bytes4(keccak256("assume(bool)"))`),
  * the cheatcode address literal,
  * the selector constant that actually keys the vm.assume branch of `handle` (the branch
    whose body appends to `ex.path` with `branching=True`), and the position of the
    `funsig in assert_cheatcode_handler` test in the if/elif chain (must be first, so that
    no other branch can shadow an assert selector).
Fail-closed.
"""
import ast
import re

from .pyexpr import TranslateError

NAME = "T-selectors-assume"
SRC = "cheatcodes.py"
OUT = "GenAssumeSelector.v"
CLASS = "hevm_cheat_code"


def find_class(tree, name):
    cs = [n for n in tree.body if isinstance(n, ast.ClassDef) and n.name == name]
    if len(cs) != 1:
        raise TranslateError(f"expected exactly one class {name}")
    return cs[0]


def int_attr(cls, name):
    hits = []
    for n in cls.body:
        if isinstance(n, ast.AnnAssign) and isinstance(n.target, ast.Name) and n.target.id == name:
            hits.append(n)
        if isinstance(n, ast.Assign) and any(isinstance(t, ast.Name) and t.id == name for t in n.targets):
            hits.append(n)
    if len(hits) != 1:
        raise TranslateError(f"{CLASS}.{name}: expected exactly one assignment, found {len(hits)}")
    v = hits[0].value
    if not (isinstance(v, ast.Constant) and type(v.value) is int and 0 <= v.value < 2**32):
        raise TranslateError(f"{CLASS}.{name} is not a 4-byte int literal")
    return v.value, hits[0].lineno


def chain(ifnode):
    """flatten if/elif/.../else into [(test, body)], else-body"""
    out = []
    node = ifnode
    while True:
        out.append((node.test, node.body))
        if len(node.orelse) == 1 and isinstance(node.orelse[0], ast.If):
            node = node.orelse[0]
        else:
            return out, node.orelse


def is_name(n, s):
    return isinstance(n, ast.Name) and n.id == s


def translate(src_text):
    tree = ast.parse(src_text)
    lines_src = src_text.splitlines()
    cls = find_class(tree, CLASS)
    assume_sig, lineno = int_attr(cls, "assume_sig")
    # the signature in the comment directly above
    prev = lines_src[lineno - 2].strip() if lineno >= 2 else ""
    m = re.fullmatch(r'#\s*bytes4\(keccak256\("([^"]+)"\)\)', prev)
    if not m:
        raise TranslateError(f"no `# bytes4(keccak256(\"...\"))` comment above {CLASS}.assume_sig (found {prev!r})")
    sig = m.group(1)
    # address = BV(0x..., size=160)
    addr = None
    for n in cls.body:
        if isinstance(n, ast.Assign) and len(n.targets) == 1 and is_name(n.targets[0], "address"):
            v = n.value
            if (isinstance(v, ast.Call) and is_name(v.func, "BV") and len(v.args) == 1
                    and isinstance(v.args[0], ast.Constant) and type(v.args[0].value) is int
                    and [(k.arg, getattr(k.value, "value", None)) for k in v.keywords] == [("size", 160)]):
                addr = v.args[0].value
    if addr is None:
        raise TranslateError(f"{CLASS}.address is not BV(<int literal>, size=160)")
    # handle(): the if/elif chain over funsig
    hs = [n for n in cls.body if isinstance(n, ast.FunctionDef) and n.name == "handle"]
    if len(hs) != 1:
        raise TranslateError(f"{CLASS}.handle not found")
    ifs = [n for n in hs[0].body if isinstance(n, ast.If)]
    if not ifs:
        raise TranslateError("handle: no if/elif chain")
    arms, _ = chain(ifs[0])
    # arm 0 must be `funsig in assert_cheatcode_handler`
    t0 = arms[0][0]
    if not (isinstance(t0, ast.Compare) and is_name(t0.left, "funsig") and len(t0.ops) == 1
            and isinstance(t0.ops[0], ast.In) and is_name(t0.comparators[0], "assert_cheatcode_handler")):
        raise TranslateError("handle: the first branch is not `funsig in assert_cheatcode_handler`")
    # the arm that appends to ex.path with branching=True is the vm.assume branch
    keyed = []
    for test, body in arms[1:]:
        appends = [c for s in body for c in ast.walk(s)
                   if isinstance(c, ast.Call) and isinstance(c.func, ast.Attribute) and c.func.attr == "append"
                   and isinstance(c.func.value, ast.Attribute) and c.func.value.attr == "path"
                   and any(k.arg == "branching" for k in c.keywords)]
        if appends:
            if not (isinstance(test, ast.Compare) and is_name(test.left, "funsig") and len(test.ops) == 1
                    and isinstance(test.ops[0], ast.Eq) and isinstance(test.comparators[0], ast.Attribute)
                    and is_name(test.comparators[0].value, CLASS)):
                raise TranslateError("handle: the path-appending branch is not keyed by `funsig == hevm_cheat_code.<sig>`")
            keyed.append(test.comparators[0].attr)
    if len(keyed) != 1:
        raise TranslateError(f"handle: expected exactly one branch appending a branching condition to ex.path, found {keyed}")
    branch_key, _ = int_attr(cls, keyed[0])
    if any(ord(c) < 32 or ord(c) > 126 or c == '"' for c in sig):
        raise TranslateError("unexpected character in the assume signature comment")
    out = [
        "(* GENERATED by translate/t_assume_selector.py from src/halmos/cheatcodes.py -- do not edit *)",
        "From Coq Require Import NArith List String.",
        "Open Scope string_scope.",
        "",
        f'Definition assume_entry : N * string := ({assume_sig}%N, "{sig}").',
        f"Definition assume_branch_key : N := {branch_key}%N.",
        f"Definition hevm_address : N := {addr}%N.",
        "",
    ]
    return "\n".join(out), {"assume_sig": assume_sig, "sig": sig, "branch_attr": keyed[0], "branch_key": branch_key, "addr": addr}


def selfcheck(info):
    from halmos.cheatcodes import hevm_cheat_code as h

    bad = []
    if h.assume_sig != info["assume_sig"]:
        bad.append(f"assume_sig: module has {h.assume_sig:#x}, source literal {info['assume_sig']:#x}")
    if getattr(h, info["branch_attr"]) != info["branch_key"]:
        bad.append("branch key differs from the imported module")
    a = h.address
    a = int(a.value) if hasattr(a, "value") else int(a)
    if a != info["addr"]:
        bad.append(f"address: module has {a:#x}, source literal {info['addr']:#x}")
    return bad
