"""T-cexprint: /repo/src/halmos/solve.py -> coq/Gen/GenCexPrint.v

What halmos PRINTS for a counterexample (the text the user replays):

  gen_mvar_fields   the fields of the dataclass solve.ModelVariable (they must be exactly the
                    fields of the record Model/CexPrintDefs.mvar, nothing computed on creation)
  gen_line          the f-string PotentialModel.__str__ formats each variable with, as pieces:
                    literal text, {v.<str field>}, {hexify(v.<int field>)}
  gen_sorted        whether the formatted strings are sorted before being joined
  gen_empty         the text for a model without variables

Accepted shape of PotentialModel.__str__ (anything else raises TranslateError, fail-closed:
a value that goes through any function other than utils.hexify - masking, truncation, another
base, a per-type renderer - is not understood and therefore reported):

    formatted = []
    for v in self.model.values():
        formatted.append(f"...")
    return "".join(sorted(formatted)) if formatted else "<sign>"      (or "".join(formatted))

The class may define no other method (__format__ / __repr__ would change what
f"Counterexample: {model}" prints), and hexify must be the name imported from .utils.
The theorems of Props/C04.v (C04_printed_cex_round_trip, ...) are about the generated pieces.
"""
import ast

from .pyexpr import TranslateError, find_function, strip_docstring

NAME = "T-cexprint"
SRC = "solve.py"
OUT = "GenCexPrint.v"

SFIELDS = {"full_name": "FFullName", "variable_name": "FVariableName", "solidity_type": "FSolidityType", "smt_type": "FSmtType"}
IFIELDS = {"size_bits": "FSizeBits", "value": "FValue"}
RECORD = ["full_name", "variable_name", "solidity_type", "smt_type", "size_bits", "value"]


def _src(n):
    try:
        return ast.unparse(n)
    except Exception:  # noqa: BLE001
        return repr(n)


def _fail(where, node, why):
    raise TranslateError(f"{where}: {why}: {_src(node)[:120]!r} at line {getattr(node, 'lineno', '?')}")


def coq_str(s):
    b = s.encode("utf-8")
    if all(32 <= c < 127 and c != 34 for c in b):
        return '"' + s + '"%string'
    out = "EmptyString"
    for c in reversed(b):
        out = f"(String (ascii_of_N {c}) {out})"
    return out


def _class(tree, name):
    hits = [n for n in tree.body if isinstance(n, ast.ClassDef) and n.name == name]
    if len(hits) != 1:
        raise TranslateError(f"expected exactly one class {name} at module level, found {len(hits)}")
    return hits[0]


def _is_dataclass(c):
    for d in c.decorator_list:
        f = d.func if isinstance(d, ast.Call) else d
        if isinstance(f, ast.Name) and f.id == "dataclass":
            return True
    return False


def _model_variable(tree):
    c = _class(tree, "ModelVariable")
    if not _is_dataclass(c) or c.bases:
        _fail("ModelVariable", c, "not a plain @dataclass")
    fields = []
    for st in strip_docstring(c.body):
        if not (isinstance(st, ast.AnnAssign) and isinstance(st.target, ast.Name) and st.value is None and isinstance(st.annotation, ast.Name)):
            _fail("ModelVariable", st, "only `<field>: str|int` declarations are understood (no defaults, no methods)")
        fields.append((st.target.id, st.annotation.id))
    for name, ty in fields:
        want = "str" if name in SFIELDS else "int" if name in IFIELDS else None
        if want is None or ty != want:
            raise TranslateError(f"ModelVariable: field {name}: {ty} is not a field of the model's record")
    if [f for f, _ in fields] != RECORD:
        raise TranslateError(f"ModelVariable: fields {[f for f, _ in fields]} differ from the model's record {RECORD}")
    return fields


def _hexify_is_utils(tree):
    imported = False
    for n in ast.walk(tree):
        if isinstance(n, ast.ImportFrom):
            for a in n.names:
                if (a.asname or a.name) == "hexify":
                    if a.name != "hexify" or (n.module or "").split(".")[-1] != "utils":
                        _fail("imports", n, "hexify is not utils.hexify")
                    imported = True
        elif isinstance(n, (ast.FunctionDef, ast.AsyncFunctionDef, ast.ClassDef)) and n.name == "hexify":
            _fail("solve.py", n, "hexify is redefined")
        elif isinstance(n, ast.Name) and n.id == "hexify" and isinstance(n.ctx, (ast.Store, ast.Del)):
            _fail("solve.py", n, "hexify is rebound")
        elif isinstance(n, ast.Import):
            for a in n.names:
                if (a.asname or a.name) == "hexify":
                    _fail("imports", n, "hexify is not utils.hexify")
    if not imported:
        raise TranslateError("solve.py does not import hexify from .utils")


def _piece(n, var, where):
    if isinstance(n, ast.Constant) and isinstance(n.value, str):
        return ("lit", n.value)
    if not isinstance(n, ast.FormattedValue):
        _fail(where, n, "f-string piece not understood")
    if n.conversion != -1 or n.format_spec is not None:
        _fail(where, n, "conversion / format spec in the f-string")
    e = n.value
    if isinstance(e, ast.Attribute) and isinstance(e.value, ast.Name) and e.value.id == var and e.attr in SFIELDS:
        return ("str", e.attr)
    if (isinstance(e, ast.Call) and isinstance(e.func, ast.Name) and e.func.id == "hexify" and not e.keywords and len(e.args) == 1):
        a = e.args[0]
        if isinstance(a, ast.Attribute) and isinstance(a.value, ast.Name) and a.value.id == var and a.attr in IFIELDS:
            return ("hex", a.attr)
        _fail(where, e, "hexify is not applied to an int field of the variable itself (masked / truncated / converted value?)")
    _fail(where, e, "a printed piece must be {v.<str field>} or {hexify(v.<int field>)}")


def translate(src_text):
    tree = ast.parse(src_text)
    fields = _model_variable(tree)
    _hexify_is_utils(tree)
    c = _class(tree, "PotentialModel")
    if not _is_dataclass(c) or c.bases:
        _fail("PotentialModel", c, "not a plain @dataclass")
    decl = {}
    for st in strip_docstring(c.body):
        if isinstance(st, ast.AnnAssign) and isinstance(st.target, ast.Name) and st.value is None:
            decl[st.target.id] = _src(st.annotation)
        elif isinstance(st, ast.FunctionDef) and st.name == "__str__":
            pass
        else:
            _fail("PotentialModel", st, "only field declarations and __str__ are understood (another method may change what is printed)")
    if decl != {"model": "ModelVariables", "is_valid": "bool"}:
        raise TranslateError(f"PotentialModel: fields {decl}")
    fn = find_function(tree, "__str__", cls="PotentialModel")
    if fn.decorator_list or [a.arg for a in fn.args.args] != ["self"]:
        _fail("__str__", fn, "signature")
    body = strip_docstring(fn.body)
    w = "PotentialModel.__str__"
    if len(body) != 3:
        _fail(w, fn, f"expected 3 statements, found {len(body)}")
    s1, s2, s3 = body
    if not (isinstance(s1, ast.Assign) and len(s1.targets) == 1 and isinstance(s1.targets[0], ast.Name)
            and isinstance(s1.value, ast.List) and not s1.value.elts):
        _fail(w, s1, "expected `<acc> = []`")
    acc = s1.targets[0].id
    if not (isinstance(s2, ast.For) and isinstance(s2.target, ast.Name) and not s2.orelse
            and _src(s2.iter) == "self.model.values()" and len(s2.body) == 1):
        _fail(w, s2, "expected `for v in self.model.values(): <one statement>`")
    var = s2.target.id
    ap = s2.body[0]
    if not (isinstance(ap, ast.Expr) and isinstance(ap.value, ast.Call) and _src(ap.value.func) == f"{acc}.append"
            and len(ap.value.args) == 1 and not ap.value.keywords and isinstance(ap.value.args[0], ast.JoinedStr)):
        _fail(w, ap, f"expected `{acc}.append(f\"...\")`")
    pieces = [_piece(p, var, w) for p in ap.value.args[0].values]
    if not (isinstance(s3, ast.Return) and isinstance(s3.value, ast.IfExp) and isinstance(s3.value.test, ast.Name) and s3.value.test.id == acc
            and isinstance(s3.value.orelse, ast.Constant) and isinstance(s3.value.orelse.value, str)):
        _fail(w, s3, f"expected `return <joined> if {acc} else \"<sign>\"`")
    j = s3.value.body
    if not (isinstance(j, ast.Call) and isinstance(j.func, ast.Attribute) and j.func.attr == "join" and isinstance(j.func.value, ast.Constant)
            and j.func.value.value == "" and len(j.args) == 1 and not j.keywords):
        _fail(w, j, "expected `\"\".join(...)`")
    a = j.args[0]
    if isinstance(a, ast.Name) and a.id == acc:
        is_sorted = False
    elif isinstance(a, ast.Call) and isinstance(a.func, ast.Name) and a.func.id == "sorted" and not a.keywords and len(a.args) == 1 \
            and isinstance(a.args[0], ast.Name) and a.args[0].id == acc:
        is_sorted = True
    else:
        _fail(w, a, f"expected `sorted({acc})` or `{acc}` (a slice / filter / key would drop or reorder what is printed)")
    empty = s3.value.orelse.value

    def cp(p):
        k, x = p
        return f"PLit {coq_str(x)}" if k == "lit" else f"PStr {SFIELDS[x]}" if k == "str" else f"PHexify {IFIELDS[x]}"

    out = ["(* generated by translate/t_cexprint.py from src/halmos/solve.py - do not edit *)",
           "From Coq Require Import ZArith List String Ascii Bool.",
           "From HV Require Import Model.CexPrintDefs.",
           "Import ListNotations.",
           "Open Scope Z_scope.",
           "",
           "Definition gen_mvar_fields : list string := [" + "; ".join(coq_str(f) for f, _ in fields) + "].",
           "Definition gen_line : list piece := [" + "; ".join(cp(p) for p in pieces) + "].",
           f"Definition gen_sorted : bool := {'true' if is_sorted else 'false'}.",
           f"Definition gen_empty : string := {coq_str(empty)}.",
           ""]
    return "\n".join(out), {"pieces": pieces, "sorted": is_sorted, "empty": empty}


def selfcheck(info):
    """the generated pieces, interpreted in Python with utils.hexify, give str(PotentialModel) on a sample"""
    from halmos.solve import ModelVariable, PotentialModel
    from halmos.utils import hexify

    bad = []
    vs = [ModelVariable("p_y_uint8_01", "y", "uint8", "BitVec", 256, 0x1234), ModelVariable("halmos_a_address_00", "a", "address", "BitVec", 256, (0xAB << 160) | 5),
          ModelVariable("p_b_bool_02", "b", "bool", "BitVec", 256, 0)]

    def line(v):
        return "".join(x if k == "lit" else getattr(v, x) if k == "str" else hexify(getattr(v, x)) for k, x in info["pieces"])

    for sample in ([], vs[:1], vs):
        ls = [line(v) for v in sample]
        want = "".join(sorted(ls) if info["sorted"] else ls) if ls else info["empty"]
        got = str(PotentialModel(model={v.full_name: v for v in sample}, is_valid=True))
        if got != want:
            bad.append(f"str(PotentialModel) on {len(sample)} variables is {got!r}, the translated pieces give {want!r}")
        if f"{PotentialModel(model={v.full_name: v for v in sample}, is_valid=True)}" != got:
            bad.append("format(PotentialModel) differs from str(PotentialModel)")
    return bad
