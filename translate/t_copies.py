"""T-copies: /repo/src/halmos/sevm.py -> coq/Gen/GenCopies.v

Regenerates the copy-vs-share tables of the four places where halmos derives one execution
state from another:

  SEVM.create_branch   (sibling paths)          Exec(...) keyword arguments
  SEVM.run_message     (test / tx start state)  Exec(...) keyword arguments
  Path.branch          (sibling path objects)   `path.X = <expr over self.X>` assignments
  Path.extend_path     (fresh path per test)    `self.X = <expr over path.X>` assignments

Each field is classified by the syntactic shape of its initialiser:
  Share    `src.f` / `src.code[message.target]` / `Path(self.solver)`   same object
  Shallow  `src.f.copy()`                                               new container, shared items
  Deep     `deepcopy(src.f)`                                            everything below is new
  Fresh    a constructor / literal / immediate / default of __init__     nothing shared
  ViaPath  the Path object produced by Path.branch / handed in by the caller (extend_path)
Anything else raises TranslateError (fail-closed).
"""
import ast

from .pyexpr import TranslateError, find_function

NAME = "T-copies"
SRC = "sevm.py"
OUT = "GenCopies.v"

FRESH_CALLS = {"State", "CallContext", "Concretization", "defaultdict", "set"}


def _src(node):
    try:
        return ast.unparse(node)
    except Exception:  # noqa: BLE001
        return repr(node)


def classify(expr, src_name, field, path_names=()):
    """kind of `expr` when building a new object from the object named src_name"""
    def is_src_attr(e, attr=None):
        return (isinstance(e, ast.Attribute) and isinstance(e.value, ast.Name) and e.value.id == src_name
                and (attr is None or e.attr == attr))

    if isinstance(expr, ast.Name) and expr.id in path_names:
        return "ViaPath"
    if is_src_attr(expr):
        if expr.attr != field:
            raise TranslateError(f"field {field} initialised from a different attribute: {_src(expr)}")
        return "Share"
    # pre_ex.code[message.target]
    if isinstance(expr, ast.Subscript) and is_src_attr(expr.value, "code") and field == "pgm":
        return "Share"
    if (isinstance(expr, ast.Call) and isinstance(expr.func, ast.Attribute) and expr.func.attr == "copy"
            and not expr.args and not expr.keywords and is_src_attr(expr.func.value, field)):
        return "Shallow"
    if (isinstance(expr, ast.Call) and isinstance(expr.func, ast.Name) and expr.func.id == "deepcopy"
            and len(expr.args) == 1 and not expr.keywords and is_src_attr(expr.args[0], field)):
        return "Deep"
    if isinstance(expr, ast.Constant) and (expr.value is None or isinstance(expr.value, int)):
        return "Fresh"
    if isinstance(expr, ast.Dict) and not expr.keys:
        return "Fresh"
    if isinstance(expr, ast.List) and not expr.elts:
        return "Fresh"
    if isinstance(expr, ast.Name) and expr.id == "target" and field == "pc":
        return "Fresh"
    if isinstance(expr, ast.Call) and isinstance(expr.func, ast.Name) and expr.func.id in FRESH_CALLS:
        for a in list(expr.args) + [k.value for k in expr.keywords]:
            if any(isinstance(n, ast.Name) and n.id == src_name for n in ast.walk(a)):
                raise TranslateError(f"fresh constructor for {field} mentions the source state: {_src(expr)}")
        return "Fresh"
    if (isinstance(expr, ast.Call) and isinstance(expr.func, ast.Attribute) and expr.func.attr == "fresh_transient_storage"
            and field == "transient_storage"):
        return "Fresh"
    raise TranslateError(f"unsupported initialiser for field {field}: {_src(expr)}")


def exec_fields(tree):
    """Exec.__init__: (field, required?) in order"""
    fn = find_function(tree, "__init__", cls="Exec")
    out = []
    for st in fn.body:
        if isinstance(st, ast.Assign) and len(st.targets) == 1:
            t = st.targets[0]
            if isinstance(t, ast.Attribute) and isinstance(t.value, ast.Name) and t.value.id == "self":
                v = st.value
                text = _src(v)
                if isinstance(v, ast.Subscript) and _src(v.value) == "kwargs":
                    out.append((t.attr, True))
                elif "kwargs.get(" in text:
                    # kwargs.get("f") or <fresh>   |   kwargs.get("f", {})
                    if not (text.startswith(f"kwargs.get('{t.attr}'")):
                        raise TranslateError(f"Exec.__init__: {t.attr} read from another key: {text}")
                    out.append((t.attr, False))
                elif t.attr == "insn":
                    out.append((t.attr, None))  # derived from pgm/pc
                else:
                    raise TranslateError(f"Exec.__init__: unsupported initialiser {text}")
            else:
                raise TranslateError(f"Exec.__init__: unsupported statement {_src(st)}")
        elif isinstance(st, ast.Expr) and isinstance(st.value, ast.Call) and _src(st.value.func) == "assert_address":
            continue
        elif isinstance(st, ast.Expr) and isinstance(st.value, ast.Constant):
            continue
        else:
            raise TranslateError(f"Exec.__init__: unsupported statement {_src(st)}")
    return out


def exec_call_table(tree, fname, src_name, fields):
    fn = find_function(tree, fname, cls="SEVM")
    calls = [n for n in ast.walk(fn) if isinstance(n, ast.Call) and isinstance(n.func, ast.Name) and n.func.id == "Exec"]
    if len(calls) != 1:
        raise TranslateError(f"{fname}: expected exactly one Exec(...) call, found {len(calls)}")
    call = calls[0]
    if call.args or any(k.arg is None for k in call.keywords):
        raise TranslateError(f"{fname}: Exec(...) must use keyword arguments only")
    path_names = set()
    for st in fn.body:
        if isinstance(st, ast.Assign) and len(st.targets) == 1 and isinstance(st.targets[0], ast.Name):
            if st.value is call:
                continue
            if _src(st.value) != f"{src_name}.path.branch(cond)":
                raise TranslateError(f"{fname}: {_src(st.targets[0])} = {_src(st.value)}")
            path_names.add(st.targets[0].id)
    if fname == "run_message":
        if [a.arg for a in fn.args.args] != ["self", "pre_ex", "message", "path"]:
            raise TranslateError("run_message: unexpected signature")
        path_names.add("path")
    kws = {k.arg: k.value for k in call.keywords}
    known = {f for f, _ in fields}
    for k in kws:
        if k not in known:
            raise TranslateError(f"{fname}: Exec(...) got unknown field {k}")
    table = []
    for f, required in fields:
        if required is None:
            continue
        if f in kws:
            table.append((f, classify(kws[f], src_name, f, path_names)))
        elif required:
            raise TranslateError(f"{fname}: required Exec field {f} not passed")
        else:
            table.append((f, "Fresh"))   # kwargs.get default
    # the remaining statements must not touch the new object's fields behind the table's back
    for st in fn.body:
        if isinstance(st, (ast.Return, ast.Assign)) or (isinstance(st, ast.Expr) and isinstance(st.value, (ast.Constant, ast.YieldFrom))):
            continue
        raise TranslateError(f"{fname}: unexpected statement {_src(st)[:80]}")
    return table


def path_init_fields(tree):
    fn = find_function(tree, "__init__", cls="Path")
    out = []
    for st in fn.body:
        if isinstance(st, ast.Assign) and _src(st.targets[0]).startswith("self."):
            out.append(st.targets[0].attr)
        else:
            raise TranslateError(f"Path.__init__: unsupported statement {_src(st)}")
    return out


def path_table(tree, fname, new_name, src_name, init_fields):
    fn = find_function(tree, fname, cls="Path")
    table = {}
    for st in fn.body:
        if isinstance(st, ast.Expr) and isinstance(st.value, ast.Constant):
            continue
        if isinstance(st, ast.Assign) and len(st.targets) == 1:
            t = st.targets[0]
            if isinstance(t, ast.Name) and t.id == new_name and fname == "branch":
                if _src(st.value) != "Path(self.solver)":
                    raise TranslateError(f"Path.branch: path = {_src(st.value)}")
                table["solver"] = "Share"
                continue
            if isinstance(t, ast.Attribute) and isinstance(t.value, ast.Name) and t.value.id == new_name:
                if t.attr == "num_scopes" and _src(st.value) == "self.solver.num_scopes()":
                    table["num_scopes"] = "Fresh"
                    continue
                table[t.attr] = classify(st.value, src_name, t.attr)
                continue
        text = _src(st)
        if fname == "branch" and (text.startswith("if len(self.pending) > 0") or text == "self.solver.push()"
                                  or text == "path.pending.append(cond)" or text == "return path"):
            continue
        if fname == "extend_path" and (text.startswith("if path.sliced is None") or text.startswith("for idx, cond in enumerate(self.conditions)")):
            continue   # only solver.add(...) of conditions: checked below
        raise TranslateError(f"Path.{fname}: unexpected statement {text[:80]}")
    if fname == "extend_path":
        for n in ast.walk(fn):
            if isinstance(n, ast.Call) and isinstance(n.func, ast.Attribute) and n.func.attr not in ("copy", "add") and _src(n.func) not in ("enumerate",):
                raise TranslateError(f"Path.extend_path: unexpected call {_src(n)}")
    out = []
    for f in init_fields:
        if f in table:
            out.append((f, table.pop(f)))
        elif fname == "extend_path" and f == "solver":
            out.append((f, "Fresh"))       # the caller's fresh solver (mk_solver per test / tx)
        else:
            out.append((f, "Fresh"))       # left as Path.__init__ made it
    if table:
        raise TranslateError(f"Path.{fname}: assignments to unknown attributes {sorted(table)}")
    return out


def registry_copy_table(tree):
    """KeccakRegistry.copy(): new = KeccakRegistry(); new.X = self.X.copy(); ...; return new"""
    fn = find_function(tree, "copy", cls="KeccakRegistry")
    rows = []
    for st in fn.body:
        text = _src(st)
        if text == "new_registry = KeccakRegistry()" or text == "return new_registry":
            continue
        if isinstance(st, ast.Assign) and isinstance(st.targets[0], ast.Attribute) and _src(st.targets[0].value) == "new_registry":
            rows.append((st.targets[0].attr, classify(st.value, "self", st.targets[0].attr)))
            continue
        raise TranslateError(f"KeccakRegistry.copy: unexpected statement {text[:80]}")
    init = find_function(tree, "__init__", cls="KeccakRegistry")
    attrs = [st.targets[0].attr for st in init.body if isinstance(st, (ast.Assign, ast.AnnAssign)) and isinstance((st.targets[0] if isinstance(st, ast.Assign) else st.target), ast.Attribute)] if False else []
    for st in init.body:
        t = st.targets[0] if isinstance(st, ast.Assign) else getattr(st, "target", None)
        if isinstance(t, ast.Attribute):
            attrs.append(t.attr)
    if sorted(attrs) != sorted(a for a, _ in rows):
        raise TranslateError(f"KeccakRegistry.copy copies {sorted(a for a, _ in rows)} but __init__ defines {sorted(attrs)}")
    return rows


def state_deepcopy_table(tree):
    """State.__deepcopy__: return State(stack=self.stack.copy(), memory=self.memory.copy())"""
    fn = find_function(tree, "__deepcopy__", cls="State")
    body = [st for st in fn.body if not (isinstance(st, ast.Expr) and isinstance(st.value, ast.Constant))]
    if len(body) != 1 or not isinstance(body[0], ast.Return) or not isinstance(body[0].value, ast.Call) or _src(body[0].value.func) != "State":
        raise TranslateError("State.__deepcopy__: expected `return State(...)`")
    call = body[0].value
    if call.args:
        raise TranslateError("State.__deepcopy__: positional arguments")
    rows = [(k.arg, classify(k.value, "self", k.arg)) for k in call.keywords]
    if sorted(a for a, _ in rows) != ["memory", "stack"]:
        raise TranslateError(f"State.__deepcopy__: fields {rows}")
    return rows


def coq_table(name, rows):
    body = ";\n    ".join(f'("{f}"%string, {k})' for f, k in rows)
    return f"Definition {name} : list (string * copykind) :=\n  [ {body} ].\n"


def translate(src_text):
    tree = ast.parse(src_text)
    fields = exec_fields(tree)
    if len(fields) < 15:
        raise TranslateError(f"Exec.__init__: only {len(fields)} fields recognised")
    cb = exec_call_table(tree, "create_branch", "ex", fields)
    rm = exec_call_table(tree, "run_message", "pre_ex", fields)
    pinit = path_init_fields(tree)
    pb = path_table(tree, "branch", "path", "self", pinit)
    pe = path_table(tree, "extend_path", "self", "path", pinit)
    kr = registry_copy_table(tree)
    sd = state_deepcopy_table(tree)
    lines = [
        "(* GENERATED by translate/t_copies.py from src/halmos/sevm.py -- do not edit *)",
        "From Coq Require Import List String.",
        "Import ListNotations.",
        "",
        "Inductive copykind := Share | Shallow | Deep | Fresh | ViaPath.",
        "",
        coq_table("create_branch_table", cb),
        coq_table("run_message_table", rm),
        coq_table("path_branch_table", pb),
        coq_table("extend_path_table", pe),
        coq_table("keccak_registry_copy_table", kr),
        coq_table("state_deepcopy_table", sd),
    ]
    info = {"create_branch": cb, "run_message": rm, "path_branch": pb, "extend_path": pe, "fields": fields,
            "keccak_registry_copy": kr, "state_deepcopy": sd}
    return "\n".join(lines), info


def selfcheck(info):
    """Cross-check against the imported module: build a real Exec, call the real
    create_branch / run_message and compare object identities with the tables."""
    bad = []
    try:
        from harness import c20_dyn
    except Exception as e:  # noqa: BLE001
        return [f"cannot import harness.c20_dyn: {e}"]
    for fname, obs in c20_dyn.observe_copy_kinds().items():
        table = dict(info[fname])
        for f, seen in obs.items():
            want = table.get(f)
            if want is None:
                bad.append(f"{fname}: field {f} observed at run time but not in the table")
            elif not c20_dyn.compatible(want, seen):
                bad.append(f"{fname}.{f}: source says {want}, run time shows {seen}")
    return bad
