"""T-wordops: /repo/src/halmos/sevm.py -> coq/Gen/GenWordOps.v

Regenerates the dispatch layer of the word-level instructions from the source text of sevm.py:
  * `arm_<OP> : list stmt` for the 25 arithmetic / comparison / bitwise / shift / BYTE / SIGNEXTEND
    opcodes: the body of the arm of the `if ... elif opcode == OP_x` chain of SEVM.run that the
    opcode selects (first matching test in chain order), statement by statement, in the syntax of
    Model/WordOpsIR.v: which accessor fetches each operand (pop / popi / top / topi: coerced to a
    256-bit word or not), evaluation order, receiver and arguments of the HalmosBitVec / HalmosBool
    method, the abstraction functions passed, set_top / push;
  * `arith_<OP> : arith_entry` for the blocks of SEVM.arith (method, abstraction functions, the path
    constraint appended next to a symbolic DIV / MOD result);
  * `bitwise_<OP> : meth` and `bitwise_mismatch_coerces` for the module-level `bitwise()`;
  * `uf_of : ufn -> uf`, from the names of the z3 functions f_mul / f_div / f_mod / f_sdiv / f_smod /
    f_exp are declared with.
State.pop / popi / top / topi / set_top / push / push_any are checked to have the modelled shape.
Model/BitVecModel.v interprets these definitions (exec_arm), so "an operand fetched without
coercion", "operands in the other order", "push instead of set_top", "another abstraction function"
change the model the theorems are proved about.  Fail-closed on every unexpected shape.
"""
import ast

from .pyexpr import TranslateError, find_function

NAME = "T-wordops"
SRC = "sevm.py"
OUT = "GenWordOps.v"

# EVM opcode numbers (Yellow Paper); checked against halmos' OP_* constants in selfcheck
OPCODES = {"ADD": 0x01, "MUL": 0x02, "SUB": 0x03, "DIV": 0x04, "SDIV": 0x05, "MOD": 0x06, "SMOD": 0x07,
           "ADDMOD": 0x08, "MULMOD": 0x09, "EXP": 0x0A, "SIGNEXTEND": 0x0B, "LT": 0x10, "GT": 0x11,
           "SLT": 0x12, "SGT": 0x13, "EQ": 0x14, "ISZERO": 0x15, "AND": 0x16, "OR": 0x17, "XOR": 0x18,
           "NOT": 0x19, "BYTE": 0x1A, "SHL": 0x1B, "SHR": 0x1C, "SAR": 0x1D}
ARITH_OPS = ["ADD", "SUB", "MUL", "DIV", "MOD", "SDIV", "SMOD", "EXP"]
METHODS = {"add": "Madd", "sub": "Msub", "mul": "Mmul", "div": "Mdiv", "sdiv": "Msdiv", "mod": "Mmod",
           "smod": "Msmod", "exp": "Mexp", "addmod": "Maddmod", "mulmod": "Mmulmod",
           "signextend": "Msignextend", "lshl": "Mlshl", "lshr": "Mlshr", "ashr": "Mashr",
           "bitwise_not": "Mbitwise_not", "bitwise_and": "Mbitwise_and", "bitwise_or": "Mbitwise_or",
           "bitwise_xor": "Mbitwise_xor", "ult": "Mult", "ugt": "Mugt", "slt": "Mslt", "sgt": "Msgt",
           "eq": "Meq", "is_zero": "Mis_zero", "byte": "Mbyte"}
ACCS = {"pop": "APop", "popi": "APopi", "top": "ATop", "topi": "ATopi"}
UFN = {"f_mul": "Ufmul", "f_div": "Ufdiv", "f_mod": "Ufmod", "f_sdiv": "Ufsdiv", "f_smod": "Ufsmod", "f_exp": "Ufexp"}
UF = {"f_evm_bvmul": "Fmul", "f_evm_bvudiv": "Fudiv", "f_evm_bvurem": "Furem", "f_evm_bvsdiv": "Fsdiv",
      "f_evm_bvsrem": "Fsrem", "f_evm_exp": "Fexp"}
# method -> keyword names it may be given here, in canonical order; the abstraction keywords come first
KW = {"mul": ["abstraction"], "div": ["abstraction"], "sdiv": ["abstraction"], "mod": ["abstraction"],
      "smod": ["abstraction"], "addmod": ["abstraction"],
      "exp": ["exp_abstraction", "mul_abstraction", "smt_exp_by_const"],
      "mulmod": ["mul_abstraction", "mod_abstraction"], "byte": ["output_size"]}
# accepted index expressions of the size-indexed abstraction tables
INDEX_OK = {"w1.size", "w1.size + 8", "newsize"}
BITW = {"OP_AND": "BwAnd", "OP_OR": "BwOr", "OP_XOR": "BwXor"}

STATE_SHAPES = {
    "push": "type_v = type(v)\nassert type_v is BV and v.size == 256 or type_v is Bool\nself.stack.append(v)",
    "push_any": "self.stack.append(BV(v, size=256))",
    "set_top": "try:\n    self.stack[-1] = v\nexcept IndexError as e:\n    raise StackUnderflowError() from e",
    "top": "try:\n    return self.stack[-1]\nexcept IndexError as e:\n    raise StackUnderflowError() from e",
    "topi": "val = self.top()\nreturn val.as_bv(size=256) if type(val) is Bool else val",
    "pop": "try:\n    return self.stack.pop()\nexcept IndexError as e:\n    raise StackUnderflowError() from e",
    "popi": "val = self.pop()\nreturn val.as_bv(size=256) if type(val) is Bool else val",
}


def _u(node):
    return ast.unparse(node)


def _body_text(fn):
    body = fn.body
    if body and isinstance(body[0], ast.Expr) and isinstance(body[0].value, ast.Constant) and isinstance(body[0].value.value, str):
        body = body[1:]
    return "\n".join(_u(s) for s in body)


def _lst(items):
    return "[" + "; ".join(items) + "]"


class _Arm:
    """one arm body -> list of stmt texts"""

    def __init__(self, where):
        self.where = where
        self.locals = {}       # python local -> index
        self.skipped = []

    def fail(self, node, why):
        raise TranslateError(f"{self.where}: {why}: {_u(node)!r}")

    # ---- expressions
    def kw(self, meth, call):
        allowed = KW.get(meth, [])
        names = [k.arg for k in call.keywords]
        if names != allowed[:len(names)] or (names and len(names) != len(allowed)):
            self.fail(call, f"keywords of {meth} expected {allowed or 'none'}")
        ufs = []
        for k in call.keywords:
            v = k.value
            if k.arg == "smt_exp_by_const":
                if _u(v) != "self.options.smt_exp_by_const":
                    self.fail(call, "smt_exp_by_const")
            elif k.arg == "output_size":
                if _u(v) != "256":
                    self.fail(call, "output_size")
            elif isinstance(v, ast.Name) and v.id in UFN:
                ufs.append(UFN[v.id])
            elif isinstance(v, ast.Subscript) and isinstance(v.value, ast.Name) and v.value.id in UFN and _u(v.slice) in INDEX_OK:
                ufs.append(UFN[v.value.id])
            else:
                self.fail(call, f"abstraction argument {k.arg}")
        return _lst(ufs)

    def local_attr(self, node, attr):
        """`<local>.<attr>` or `<local>.<attr>()` -> EW"""
        if isinstance(node, ast.Call) and not node.args and not node.keywords:
            node = node.func
        if isinstance(node, ast.Attribute) and node.attr == attr and isinstance(node.value, ast.Name) and node.value.id in self.locals:
            return f"(EW {self.locals[node.value.id]})"
        self.fail(node, f"expected <local>.{attr}")

    def expr(self, n):
        if isinstance(n, ast.Name):
            if n.id in self.locals:
                return f"(EW {self.locals[n.id]})"
            self.fail(n, "unknown local")
        if not isinstance(n, ast.Call):
            self.fail(n, "expression kind")
        f = n.func
        # state.pop() ...
        if isinstance(f, ast.Attribute) and isinstance(f.value, ast.Name) and f.value.id == "state" and f.attr in ACCS:
            if n.args or n.keywords:
                self.fail(n, "accessor with arguments")
            return f"(EAcc {ACCS[f.attr]})"
        if isinstance(f, ast.Name) and f.id == "BV":
            if len(n.args) != 1 or [(k.arg, _u(k.value)) for k in n.keywords] != [("size", "256")]:
                self.fail(n, "BV(.., size=256) expected")
            return f"(EBV256 {self.expr(n.args[0])})"
        if isinstance(f, ast.Name) and f.id == "bitwise":
            if len(n.args) != 3 or n.keywords or _u(n.args[0]) not in BITW:
                self.fail(n, "bitwise(OP_x, a, b) expected")
            return f"(EBitwise {BITW[_u(n.args[0])]} {self.expr(n.args[1])} {self.expr(n.args[2])})"
        if _u(f) == "self.arith":
            if len(n.args) != 4 or n.keywords or _u(n.args[0]) != "ex" or _u(n.args[1]) != "opcode":
                self.fail(n, "self.arith(ex, opcode, a, b) expected")
            return f"(EArith {self.expr(n.args[2])} {self.expr(n.args[3])})"
        if _u(f) == "ex.int_of":
            if len(n.args) != 2 or n.keywords or not (isinstance(n.args[1], ast.Constant) and isinstance(n.args[1].value, str)):
                self.fail(n, "ex.int_of(e, <message>) expected")
            return f"(EIntOf {self.expr(n.args[0])})"
        if _u(f) == "self.sym_byte_of":
            if len(n.args) != 2 or n.keywords:
                self.fail(n, "sym_byte_of(idx.value, w.as_z3()) expected")
            return f"(ESymByte {self.local_attr(n.args[0], 'value')} {self.local_attr(n.args[1], 'as_z3')})"
        if isinstance(f, ast.Attribute) and f.attr in METHODS:
            m = f.attr
            kws = self.kw(m, n)
            recv = self.expr(f.value)
            if m == "byte":
                if len(n.args) != 1:
                    self.fail(n, "byte(idx.value, output_size=256) expected")
                args = [self.local_attr(n.args[0], "value")]
            else:
                args = [self.expr(a) for a in n.args]
            if len(args) > 2:
                self.fail(n, "too many arguments")
            return f"(ECall{len(args)} {METHODS[m]} {kws} {recv}" + "".join(" " + a for a in args) + ")"
        self.fail(n, "call kind")

    # ---- statements
    def state_call(self, s, names):
        """`state.<name>(<e>)` expression statement -> (name, arg node)"""
        if (isinstance(s, ast.Expr) and isinstance(s.value, ast.Call) and isinstance(s.value.func, ast.Attribute)
                and isinstance(s.value.func.value, ast.Name) and s.value.func.value.id == "state"
                and s.value.func.attr in names and len(s.value.args) == 1 and not s.value.keywords):
            return s.value.func.attr, s.value.args[0]
        return None

    def stmts(self, body):
        out = []
        for s in body:
            if isinstance(s, (ast.Assign, ast.AnnAssign)):
                tgt = s.targets[0] if isinstance(s, ast.Assign) and len(s.targets) == 1 else getattr(s, "target", None)
                if not isinstance(tgt, ast.Name) or s.value is None:
                    self.fail(s, "assignment shape")
                if _u(s) == "newsize = 2 * w1.size":
                    self.skipped.append(_u(s))
                    continue
                e = self.expr(s.value)
                self.locals[tgt.id] = len(self.locals)
                out.append(f"SBind {e}")
                continue
            sc = self.state_call(s, ("set_top", "push"))
            if sc:
                out.append(("SSetTop " if sc[0] == "set_top" else "SPush ") + self.expr(sc[1]))
                continue
            if isinstance(s, ast.Match):
                out.append(self.match(s))
                continue
            if isinstance(s, ast.If):
                out.append(self.if_concrete(s))
                continue
            self.fail(s, "statement kind")
        return out

    def match(self, s):
        subj = s.subject
        if not (isinstance(subj, ast.Tuple) and len(subj.elts) == 2 and all(isinstance(e, ast.Name) and e.id in self.locals for e in subj.elts)):
            self.fail(s, "match subject")
        pats = [_u(c.pattern) for c in s.cases]
        if pats != ["[Bool(), Bool()]", "[BV(), BV()]", "[_, _]"] or any(c.guard is not None for c in s.cases):
            self.fail(s, f"match cases {pats}")
        es = []
        for c in s.cases:
            sc = self.state_call(c.body[0], ("push",)) if len(c.body) == 1 else None
            if not sc:
                self.fail(s, "case body: a single state.push(..) expected")
            es.append(self.expr(sc[1]))
        i, j = (self.locals[e.id] for e in subj.elts)
        return f"SMatchPush {i} {j} {es[0]} {es[1]} {es[2]}"

    def if_concrete(self, s):
        t = s.test
        if not (isinstance(t, ast.Attribute) and t.attr == "is_concrete" and isinstance(t.value, ast.Name) and t.value.id in self.locals):
            self.fail(s, "if <local>.is_concrete expected")
        a = self.state_call(s.body[0], ("push",)) if len(s.body) == 1 else None
        els = [x for x in s.orelse if not (isinstance(x, ast.Expr) and isinstance(x.value, ast.Call) and _u(x.value.func) == "debug_once")]
        b = self.state_call(els[0], ("push_any",)) if len(els) == 1 else None
        if not a or not b:
            self.fail(s, "if/else bodies: state.push(..) / [debug_once(..);] state.push_any(..) expected")
        return f"SIfConcretePush {self.locals[t.value.id]} {self.expr(a[1])} {self.expr(b[1])}"


def _chain(run):
    """the longest if / elif chain over `opcode` in SEVM.run: [(test, body)]"""
    best = []
    for node in ast.walk(run):
        if isinstance(node, ast.If) and "opcode" in {n.id for n in ast.walk(node.test) if isinstance(n, ast.Name)}:
            chain, cur = [], node
            while True:
                chain.append((cur.test, cur.body))
                if len(cur.orelse) == 1 and isinstance(cur.orelse[0], ast.If):
                    cur = cur.orelse[0]
                else:
                    break
            if len(chain) > len(best):
                best = chain
    if len(best) < 60:
        raise TranslateError(f"SEVM.run: opcode dispatch chain not found (longest chain has {len(best)} arms)")
    return best


def _test_matches(test, op, consts):
    """does `test` select opcode number `op`?  Only the shapes `opcode == OP_x`, `OP_a <= opcode <= OP_b`
    and `opcode in <NAME>` (a set that is not one of ours) are understood."""
    if isinstance(test, ast.Compare) and isinstance(test.left, ast.Name) and test.left.id == "opcode" and len(test.ops) == 1:
        c = test.comparators[0]
        if isinstance(test.ops[0], ast.Eq) and isinstance(c, ast.Name) and c.id in consts:
            return consts[c.id] == op
        if isinstance(test.ops[0], ast.In) and isinstance(c, ast.Name):
            return False   # TERMINATING_OPCODES / CALL_OPCODES / CREATE_OPCODES: checked in selfcheck
    if (isinstance(test, ast.Compare) and len(test.ops) == 2 and all(isinstance(o, ast.LtE) for o in test.ops)
            and isinstance(test.left, ast.Name) and test.left.id in consts
            and isinstance(test.comparators[0], ast.Name) and test.comparators[0].id == "opcode"
            and isinstance(test.comparators[1], ast.Name) and test.comparators[1].id in consts):
        return consts[test.left.id] <= op <= consts[test.comparators[1].id]
    raise TranslateError(f"SEVM.run: unsupported arm test {_u(test)!r}")


def _halmos_op_consts(tree):
    """names imported / used as OP_x: their numbers are the EVM's (selfcheck compares with halmos)"""
    import re

    consts = {}
    for n in ast.walk(tree):
        if isinstance(n, ast.Name) and re.fullmatch(r"OP_[A-Z0-9]+", n.id):
            consts.setdefault(n.id, None)
    return consts


def translate(src_text):
    tree = ast.parse(src_text)
    lines = [
        "(* GENERATED by translate/t_wordops.py from src/halmos/sevm.py -- do not edit *)",
        "From Coq Require Import ZArith List.",
        "From HV Require Import Model.WordOpsIR.",
        "Import ListNotations.",
        "",
    ]
    info = {"arms": {}, "arith": {}, "ops_used": []}

    # ---- opcode numbers of every OP_x name used in the tests: taken from the EVM table for ours, and
    # from halmos itself (import) for the others; selfcheck verifies ours against halmos
    from halmos import contract as hu   # where sevm.py imports its OP_x constants from

    consts = {}
    for name in _halmos_op_consts(tree):
        short = name[3:]
        if short in OPCODES:
            consts[name] = OPCODES[short]
        elif hasattr(hu, name):
            consts[name] = int(getattr(hu, name))
    info["consts"] = {k: v for k, v in consts.items() if k[3:] in OPCODES}

    # ---- State accessors
    for name, want in STATE_SHAPES.items():
        fn = find_function(tree, name, cls="State")
        got = _body_text(fn)
        if got != want:
            raise TranslateError(f"State.{name}: body differs from the modelled shape:\n{got}")

    # ---- SEVM.run arms
    run = find_function(tree, "run", cls="SEVM")
    chain = _chain(run)
    for opn, num in OPCODES.items():
        hits = [k for k, (t, _) in enumerate(chain) if _test_matches(t, num, consts)]
        if not hits:
            raise TranslateError(f"SEVM.run: no arm selects OP_{opn}")
        test, body = chain[hits[0]]
        a = _Arm(f"SEVM.run arm `{_u(test)}` (OP_{opn})")
        st = a.stmts(body)
        lines.append(f"(* OP_{opn}: arm `{_u(test)}` *)")
        lines.append(f"Definition arm_{opn} : list stmt := {_lst(st)}.")
        info["arms"][opn] = {"test": _u(test), "body": [_u(s) for s in body], "ir": st}
    lines.append("")

    # ---- SEVM.arith
    ar = find_function(tree, "arith", cls="SEVM")
    if [a.arg for a in ar.args.args] != ["self", "ex", "op", "w1", "w2"]:
        raise TranslateError("SEVM.arith: parameters (self, ex, op, w1, w2) expected")
    seen = {}
    for s in ar.body:
        if isinstance(s, ast.Raise):
            continue
        if not (isinstance(s, ast.If) and not s.orelse and isinstance(s.test, ast.Compare) and _u(s.test.left) == "op"
                and len(s.test.ops) == 1 and isinstance(s.test.ops[0], ast.Eq) and _u(s.test.comparators[0]).startswith("OP_")):
            raise TranslateError(f"SEVM.arith: unsupported statement {_u(s)[:80]!r}")
        opn = _u(s.test.comparators[0])[3:]
        a = _Arm(f"SEVM.arith block OP_{opn}")
        a.locals = {"w1": 0, "w2": 1}
        body = s.body
        axiom = "None"
        if len(body) == 1 and isinstance(body[0], ast.Return):
            call = body[0].value
        elif (len(body) == 3 and isinstance(body[0], ast.Assign) and _u(body[0].targets[0]) == "term"
              and isinstance(body[1], ast.If) and _u(body[1].test) == "term.is_symbolic" and not body[1].orelse
              and len(body[1].body) == 1 and isinstance(body[2], ast.Return) and _u(body[2].value) == "term"):
            call = body[0].value
            ap = _u(body[1].body[0])
            if ap == "ex.path.append(ULE(term.as_z3(), w1.as_z3()))":
                axiom = "(Some 0%nat)"
            elif ap == "ex.path.append(ULE(term.as_z3(), w2.as_z3()))":
                axiom = "(Some 1%nat)"
            else:
                raise TranslateError(f"SEVM.arith OP_{opn}: unsupported path constraint {ap!r}")
        else:
            raise TranslateError(f"SEVM.arith OP_{opn}: unsupported block shape")
        if not (isinstance(call, ast.Call) and isinstance(call.func, ast.Attribute) and _u(call.func.value) == "w1"
                and call.func.attr in METHODS and len(call.args) == 1 and _u(call.args[0]) == "w2"):
            raise TranslateError(f"SEVM.arith OP_{opn}: `w1.<method>(w2, ...)` expected, found {_u(call)!r}")
        kws = a.kw(call.func.attr, call)
        seen[opn] = f"{{| ae_meth := {METHODS[call.func.attr]}; ae_kw := {kws}; ae_axiom := {axiom} |}}"
        info["arith"][opn] = _u(s)
    if sorted(seen) != sorted(ARITH_OPS):
        raise TranslateError(f"SEVM.arith: blocks for {sorted(ARITH_OPS)} expected, found {sorted(seen)}")
    for opn in ARITH_OPS:
        lines.append(f"Definition arith_{opn} : arith_entry := {seen[opn]}.")
    lines.append("")

    # ---- bitwise()
    bw = find_function(tree, "bitwise")
    want = ("if type(x) is not type(y):\n    return bitwise(op, BV(x, size=256), BV(y, size=256))\n"
            "if op == OP_AND:\n    return x.bitwise_and(y)\nelif op == OP_OR:\n    return x.bitwise_or(y)\n"
            "elif op == OP_XOR:\n    return x.bitwise_xor(y)\nelse:\n    raise ValueError(op, x, y)")
    got = _body_text(bw)
    if [a.arg for a in bw.args.args] != ["op", "x", "y"]:
        raise TranslateError("bitwise: parameters (op, x, y) expected")
    # the three method names are regenerated; everything else must be literally the modelled text
    import re

    pat = re.escape(want)
    for mname in ("bitwise_and", "bitwise_or", "bitwise_xor"):
        pat = pat.replace(re.escape(f"x.{mname}(y)"), r"x\.(\w+)\(y\)")
    mm = re.fullmatch(pat, got)
    if not mm or any(g not in METHODS for g in mm.groups()):
        raise TranslateError(f"bitwise: body differs from the modelled shape:\n{got}")
    lines.append("(* bitwise(): `if type(x) is not type(y): return bitwise(op, BV(x, size=256), BV(y, size=256))` *)")
    lines.append("Definition bitwise_mismatch_coerces : bool := true.")
    for opn, g in zip(("AND", "OR", "XOR"), mm.groups()):
        lines.append(f"Definition bitwise_{opn} : meth := {METHODS[g]}.")
    lines.append("")

    # ---- abstraction functions
    decl = {}
    for s in tree.body:
        if isinstance(s, ast.Assign) and len(s.targets) == 1 and isinstance(s.targets[0], ast.Name) and s.targets[0].id in UFN:
            name = s.targets[0].id
            calls = [s.value] if isinstance(s.value, ast.Call) else (list(s.value.values) if isinstance(s.value, ast.Dict) else None)
            keys = [None] if isinstance(s.value, ast.Call) else ([_u(k) for k in s.value.keys] if isinstance(s.value, ast.Dict) else None)
            if not calls:
                raise TranslateError(f"{name}: Function(..) or a dict of Function(..) expected")
            bases = set()
            for key, c in zip(keys, calls):
                if not (isinstance(c, ast.Call) and _u(c.func) == "Function" and c.args and isinstance(c.args[0], ast.Constant) and isinstance(c.args[0].value, str)):
                    raise TranslateError(f"{name}: Function(<name>, ...) expected")
                fname = c.args[0].value
                base, _, size = fname.rpartition("_")
                if base not in UF or not size.isdigit() or (key is not None and key != size) or (key is None and size != "256"):
                    raise TranslateError(f"{name}: unexpected z3 function name {fname!r} (key {key})")
                sorts = [_u(a) for a in c.args[1:]]
                if sorts != [f"BitVecSort{size}"] * 3:
                    raise TranslateError(f"{name}: sorts of {fname}: {sorts}")
                bases.add(base)
            if len(bases) != 1:
                raise TranslateError(f"{name}: mixed z3 function names {sorted(bases)}")
            decl[name] = bases.pop()
    if sorted(decl) != sorted(UFN):
        raise TranslateError(f"abstraction functions: {sorted(UFN)} expected, found {sorted(decl)}")
    lines.append("Definition uf_of (u : ufn) : uf :=")
    lines.append("  match u with " + " | ".join(f"{UFN[n]} => {UF[decl[n]]}" for n in UFN) + " end.")
    info["uf"] = decl
    lines.append("")
    return "\n".join(lines), info


def selfcheck(info):
    """the OP_x names used in the tests have the EVM's numbers in the imported halmos; no set-membership
    arm (`opcode in X`) captures one of our opcodes"""
    import halmos.sevm as hs

    bad = []
    for name, v in info["consts"].items():
        if int(getattr(hs, name)) != v:
            bad.append(f"{name}: halmos {getattr(hs, name)}, EVM {v}")
    for setname in ("TERMINATING_OPCODES", "CALL_OPCODES", "CREATE_OPCODES"):
        s = getattr(hs, setname, None)
        if s is None:
            continue
        hit = [n for n, v in OPCODES.items() if v in s]
        if hit:
            bad.append(f"{setname} contains {hit}")
    return bad
