#!/usr/bin/env python3
"""three-way merge of known_findings.json during `git merge` (stages 1/2/3 of the index)"""
import json, subprocess

def stage(n):
    return json.loads(subprocess.check_output(["git", "show", f":{n}:known_findings.json"]))
base, ours, theirs = stage(1), stage(2), stage(3)
bid = {f["id"]: f for f in base["findings"]}
tid = {f["id"]: f for f in theirs["findings"]}
out = []
for f in ours["findings"]:
    i = f["id"]
    if i in bid and i not in tid:
        continue                      # removed by theirs
    if i in tid and i in bid and tid[i] != bid[i]:
        out.append(tid[i])            # changed by theirs
    else:
        out.append(f)
have = {f["id"] for f in out}
out += [f for f in theirs["findings"] if f["id"] not in bid and f["id"] not in have]
fixed = list(ours.get("fixed", []))
fixed += [x for x in theirs.get("fixed", []) if x not in fixed]
res = dict(ours)
res["findings"], res["fixed"] = out, fixed
json.dump(res, open("known_findings.json", "w"), indent=1)
print("findings", len(out), "fixed", len(fixed))
