#!/usr/bin/env python3
"""Writes /verif/MANIFEST.json from the table below (kept valid at all times)."""
import json
from pathlib import Path

ROOT = Path(__file__).resolve().parent.parent
NOTE_COMMON = ("Trusted: Coq 8.16.1 kernel (+vm_compute), extraction (ExtrOcamlBasic/ExtrOcamlString only) and the generic OCaml driver, "
               "the fail-closed Python translators (cross-checked against the imported module) and the correspondence harness; "
               "z3 for evaluating closed terms. Axioms per theorem: verbatim Print Assumptions output in the evidence file.")

CLAIMS = {}
for _p in sorted((ROOT / "harness" / "props").glob("C*.claim.json")):
    _c = json.loads(_p.read_text())
    _c.setdefault("note", "")
    _c["note"] = (NOTE_COMMON + " " + _c["note"]).strip()
    CLAIMS[_p.name.split(".")[0]] = _c

PENDING = {
}

ALL = [f"C{i:02d}" for i in range(1, 21)]


def main():
    checks = []
    for pid in ALL:
        if pid not in CLAIMS:
            continue
        c = CLAIMS[pid]
        checks.append({
            "property_id": pid,
            "quick_cmd": f"bin/check {pid} quick",
            "thorough_cmd": f"bin/check {pid} thorough",
            "evidence_file": f"evidence/{pid}.json",
            "replay_cmd_template": f"bin/check {pid} --replay {{path}}",
            "engine": "coq-proof+correspondence",
            "level_claimed": {"category": "proof", "text": c["text"], "design_ref": c["design_ref"]},
            "level_note": c["note"],
            "technique": c["technique"],
        })
    na = [{"property_id": p, "reason": PENDING.get(p, "not claimed yet: model, theorems and tie for this property are still being built (see DESIGN.md section 5); no check is registered until it is sound")}
          for p in ALL if p not in CLAIMS]
    man = {
        "version": 1,
        "setup_cmd": "bin/setup",
        "hooks": {
            "guard": "HALMOS_VERIF",
            "enable": "export HALMOS_VERIF=1 (bin/check sets it); no source hooks are needed so far: instrumentation is done by monkeypatching from the harness process",
            "baseline_off_cmd": "cd /repo && /venv/bin/python -m pytest -ra -q -p no:cacheprovider --timeout=900 --continue-on-collection-errors",
            "source_commits": [],
            "add_only": True,
        },
        "engines": [{
            "name": "coq-proof+correspondence",
            "path": "coq/ harness/ translate/ bin/check",
            "serves_properties": sorted(CLAIMS),
            "kind_free_text": "Coq 8.16 development (models, proofs, property statements), Python-ast translators regenerating parts of the model from /repo on every run, OCaml-extracted models run side by side with the real halmos code",
        }],
        "checks": checks,
        "not_applicable": na,
        "notes": "See DESIGN.md. known_findings.json lists recorded/fixed defects.",
    }
    (ROOT / "MANIFEST.json").write_text(json.dumps(man, indent=1) + "\n")


if __name__ == "__main__":
    main()
