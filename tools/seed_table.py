#!/usr/bin/env python3
"""tools/seed_table.py -- markdown table of the seeded changes kept under seeded/ and of what the checks
said about each (first and last evaluation recorded in meta.json)."""
import json, os, re

rows = []
for d in sorted(os.listdir("/verif/seeded")):
    mp = f"/verif/seeded/{d}/meta.json"
    if not os.path.exists(mp):
        continue
    m = json.load(open(mp))
    evs = m.get("evaluation", [])
    summ = " ".join((m.get("summary") or "").split())[:170]
    needs = " ".join((m.get("needs_to_manifest") or "").split())[:150]

    def res(ev):
        return ", ".join(f"{c['check'].split()[1]}: {c['result']}" + (" (no failing input)" if "no-failing-input" in c.get("violation_line", "") else "") for c in ev.get("checks", []))
    first = res(evs[0]) if evs else "not evaluated"
    last = res(evs[-1]) if len(evs) > 1 else ""
    rows.append((d, summ, needs, first, last))
print("| seed | change | needs | first evaluation | after strengthening |")
print("|---|---|---|---|---|")
for r in rows:
    print("| " + " | ".join(x.replace("|", "/") for x in r) + " |")
