#!/bin/bash
# tools/seedtest.sh <Cxx> <mN> [check ...]   -- evaluate one seeded change from /tmp/seed_out or /verif/seeded
# 1. clean scratch worktree of /repo; baseline tests + demo must pass
# 2. apply patch; tests must still pass (306), demo must fail
# 3. run the named checks (default: the property's own) against the patched tree via HALMOS_REPO
set -u
P=$1; M=$2; shift 2
CHECKS=${@:-$P}
SRC=${SEED_SRC:-/tmp/seed_out}/$P/$M; [ -d "$SRC" ] || SRC=/verif/seeded/$P-$M
WT=/tmp/seedcheck_$P$M
git -C /repo worktree remove --force $WT >/dev/null 2>&1
git -C /repo worktree add --detach $WT >/dev/null 2>&1 || { echo "cannot create worktree"; exit 2; }
run_tests() { (cd $WT && PYTHONPATH=$WT/src /venv/bin/python -m pytest -q -p no:cacheprovider --timeout=900 tests 2>&1 | tail -1); }
run_demo() { (cd $WT && PYTHONPATH=$WT/src timeout 300 /venv/bin/python $SRC/demo.py >/tmp/seeddemo_$P$M.log 2>&1; echo $?); }
echo "== $P $M"
echo "clean: tests: $(run_tests)  demo exit: $(run_demo)"
git -C $WT apply $SRC/patch.diff 2>/dev/null || git -C $WT apply --3way $SRC/patch.diff 2>/dev/null || { echo "patch does not apply"; git -C /repo worktree remove --force $WT; exit 2; }
echo "patched: tests: $(run_tests)  demo exit: $(run_demo)   [$(tail -1 /tmp/seeddemo_$P$M.log | cut -c1-160)]"
for C in $CHECKS; do
  OUT=$(cd ${VERIF_DIR:-/verif} && HALMOS_REPO=$WT timeout 2400 bin/check $C quick 2>&1 | tail -4)
  if echo "$OUT" | grep -q "^VIOLATION"; then echo "check $C: CAUGHT: $(echo "$OUT" | grep -m1 'FAIL\[' | cut -c1-260)"; echo "    $(echo "$OUT" | grep '^VIOLATION' | cut -c1-200)";
  else echo "check $C: MISSED: $(echo "$OUT" | tail -1 | cut -c1-200)"; fi
done
git -C /repo worktree remove --force $WT >/dev/null 2>&1
