#!/usr/bin/env python3
"""tools/keep_seed.py <log> ...  -- copy every seed evaluated in the given seedtest logs from
/tmp/seed_out into /verif/seeded/<Cxx>-<mN>/ and record what was run / observed."""
import json, os, re, shutil, sys

for log in sys.argv[1:]:
    blocks = re.split(r"^== ", open(log).read(), flags=re.M)[1:]
    for b in blocks:
        head, *rest = b.splitlines()
        pid, mn = head.split()[:2]
        src = f"/tmp/seed_out/{pid}/{mn}"
        dst = f"/verif/seeded/{pid}-{mn}"
        if not os.path.isdir(src) and not os.path.isdir(dst):
            print("missing", src); continue
        os.makedirs(dst, exist_ok=True)
        if os.path.isdir(src):
            for f in os.listdir(src):
                if f == "meta.json" and os.path.exists(os.path.join(dst, f)) and not os.environ.get("KEEP_SEED_RESET"):
                    continue   # keep the evaluation history already recorded
                if os.path.isfile(os.path.join(src, f)) and os.path.getsize(os.path.join(src, f)) < 400000:
                    shutil.copy(os.path.join(src, f), os.path.join(dst, f))
        meta_p = os.path.join(dst, "meta.json")
        meta = json.load(open(meta_p)) if os.path.exists(meta_p) else {}
        ev = meta.setdefault("evaluation", [])
        clean = next((l for l in rest if l.startswith("clean:")), "")
        patched = next((l for l in rest if l.startswith("patched:")), "")
        checks = []
        for i, l in enumerate(rest):
            m = re.match(r"check (\w+): (CAUGHT|MISSED): ?(.*)", l)
            if m:
                nxt = rest[i + 1].strip() if m.group(2) == "CAUGHT" and i + 1 < len(rest) else ""
                checks.append({"check": f"bin/check {m.group(1)} quick (HALMOS_REPO=<scratch worktree with patch.diff applied>)", "result": m.group(2).lower(),
                               "first_failure": m.group(3)[:300], "violation_line": nxt[:200]})
        ev.append({"ran": "tools/seedtest.sh %s %s: scratch worktree of /repo; test suite + demo.py on the clean tree, then with patch.diff applied; then the checks below" % (pid, mn),
                   "clean_tree": clean[7:].strip(), "patched_tree": patched[9:].strip()[:400], "checks": checks, "log": os.path.basename(log)})
        json.dump(meta, open(meta_p, "w"), indent=1)
        print(pid, mn, [(c["check"].split()[1], c["result"]) for c in checks])
