"""dev helper for C14: regenerate Gen and make the given targets (default Props/C14.vo)"""
import sys
from pathlib import Path

sys.path.insert(0, str(Path(__file__).resolve().parent.parent))
from harness import common, registry  # noqa: E402,F401

r = common.run_translator("T-selectors-cheat")
if not r["ok"]:
    print("translator:", r["error"], r.get("trace", ""))
ok, log = common.coq_make(sys.argv[1:] or ["Props/C14.vo"])
print("OK" if ok else "FAILED")
print(log[-int(4000):])
